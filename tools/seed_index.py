#!/usr/bin/env python3
"""Regenerates /verif/seeded/INDEX.md from the meta.json files."""
import json, glob, os
rows=[]
for d in sorted(glob.glob('/verif/seeded/*-*')):
    m=os.path.join(d,'meta.json')
    if not os.path.exists(m): continue
    j=json.load(open(m))
    notes=(j.get('needs_to_manifest') or '').strip().splitlines()
    title=notes[0].lstrip('# ').strip() if notes else ''
    rows.append((os.path.basename(d), 'detected' if j.get('detected') else 'MISSED', ', '.join(j.get('reporting_rules') or []), title[:110], json.dumps(j.get('also_reported_by_other_property_checks') or {}) if j.get('also_reported_by_other_property_checks') else ''))
with open('/verif/seeded/INDEX.md','w') as f:
    f.write('# Seeded changes (written by independent sub-agents, confirmed with tools/confirm_seed.sh)\n\n')
    f.write('| seed | quick check | reporting rule(s) | change | other checks that also report |\n|---|---|---|---|---|\n')
    for r in rows: f.write('| %s | %s | %s | %s | %s |\n' % r)
    n=len(rows); d=sum(1 for r in rows if r[1]=='detected')
    f.write('\n%d seeded changes, %d detected by the property\'s own quick check.\n' % (n,d))
print(open('/verif/seeded/INDEX.md').read()[-200:])
