#!/bin/bash
# usage: try_patch.sh <patch.diff> <Cxx> [<Cyy>...]   — apply to /repo, run quick checks, revert
p="$1"; shift
cd /repo || exit 2
git apply --check "$p" || { echo "patch does not apply"; exit 2; }
git apply "$p"
for id in "$@"; do
  /verif/check "$id" quick 2>&1 | grep -E "^property=|VIOLAT|UNDECIDED|KNOWN" | cut -c1-400
done
git checkout -- . && git status --short | head -3
