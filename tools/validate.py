#!/usr/bin/env python3-vt
import json, sys, glob, jsonschema
ms = json.load(open('/root/.vp/MANIFEST.schema.json'))
es = json.load(open('/root/.vp/EVIDENCE.schema.json'))
m = json.load(open('/verif/MANIFEST.json'))
jsonschema.validate(m, ms)
props = [json.loads(l)['id'] for l in open('/verif/properties.jsonl')]
claimed = [c['property_id'] for c in m['checks']]
na = [c['property_id'] for c in m.get('not_applicable', [])]
assert sorted(claimed + na) == sorted(props), "every property must be claimed or not_applicable"
bad = 0
for c in claimed:
    try:
        e = json.load(open(f'/verif/evidence/{c}.json'))
        jsonschema.validate(e, es)
        assert e['property_id'] == c
    except Exception as ex:
        bad += 1
        print("EVIDENCE", c, "invalid:", str(ex)[:200])
print(f"manifest ok: {len(claimed)} claimed, {len(na)} n/a; evidence invalid: {bad}")
sys.exit(1 if bad else 0)
