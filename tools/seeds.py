#!/usr/bin/env python3
"""Apply every /verif/seeded/<id>-<n>/patch.diff to /repo in turn, run the property's
quick check, revert, and record the outcome in meta.json. usage: seeds.py [Cxx ...]"""
import json, os, re, subprocess, sys, glob
only = set(sys.argv[1:])
rows = []
for d in sorted(glob.glob('/verif/seeded/*-*')):
    name = os.path.basename(d)
    prop = name.split('-')[0]
    if only and prop not in only and name not in only:
        continue
    patch = os.path.join(d, 'patch.diff')
    if subprocess.run(['git', '-C', '/repo', 'status', '--porcelain', '--untracked-files=no'], capture_output=True, text=True).stdout.strip():
        print("repo not clean; abort"); sys.exit(2)
    if subprocess.run(['git', '-C', '/repo', 'apply', patch]).returncode != 0:
        print(name, "patch does not apply"); continue
    also = open(os.path.join(d, '.also')).read().split() if os.path.exists(os.path.join(d, '.also')) else []
    also_res = {}
    try:
        out = subprocess.run(['/verif/check', prop, 'quick'], capture_output=True, text=True).stdout
        for p2 in also:
            o2 = subprocess.run(['/verif/check', p2, 'quick'], capture_output=True, text=True).stdout
            also_res[p2] = sorted(set(re.findall(r'(?:VIOLATED|UNDECIDED) rule=(\S+)', o2)))
    finally:
        subprocess.run(['git', '-C', '/repo', 'checkout', '--', '.'])
    rules = sorted(set(re.findall(r'(?:VIOLATED|UNDECIDED) rule=(\S+)', out)))
    detected = 'VIOLATION property=' + prop in out
    meta_path = os.path.join(d, 'meta.json')
    meta = json.load(open(meta_path)) if os.path.exists(meta_path) else {}
    notes = open(os.path.join(d, 'notes.md')).read() if os.path.exists(os.path.join(d, 'notes.md')) else ''
    meta.update({
        'property': prop,
        'patch': 'patch.diff',
        'demonstration': 'demo_test.go.txt (copy into %s/ as a _test.go file; tests: %s)' % (open(os.path.join(d, '.pkg')).read().strip() if os.path.exists(os.path.join(d, '.pkg')) else '?', open(os.path.join(d, '.tests')).read().strip() if os.path.exists(os.path.join(d, '.tests')) else '?'),
        'origin': 'written by an independent sub-agent that saw only the property text and a scratch worktree',
        'confirmed': 'tools/confirm_seed.sh in a scratch worktree: demo passes without the patch; with the patch `go build ./...` succeeds, the existing tests of the package pass and the demo fails',
        'needs_to_manifest': meta.get('needs_to_manifest') or (notes[:600]),
        'check_run': './check %s quick with the patch applied to /repo, reverted afterwards' % prop,
        'detected': detected,
        'reporting_rules': rules,
        'also_reported_by_other_property_checks': also_res,
    })
    json.dump(meta, open(meta_path, 'w'), indent=1)
    rows.append((name, detected, rules))
    print(name, 'DETECTED' if detected else 'MISSED', ' '.join(rules), also_res if also_res else '')
# the unchanged tree must be restored
print(subprocess.run(['git', '-C', '/repo', 'status', '--porcelain', '--untracked-files=no'], capture_output=True, text=True).stdout or 'repo clean')
