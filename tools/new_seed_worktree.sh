#!/bin/bash
# usage: new_seed_worktree.sh <Cxx>  — creates /tmp/mut/<Cxx> (worktree of /repo HEAD) and prints the property text
set -e
id="$1"
mkdir -p /tmp/mut/out/$id
if [ ! -d /tmp/mut/$id ]; then git -C /repo worktree add -q --detach /tmp/mut/$id HEAD; fi
python3 - "$id" <<'P'
import json,sys
for l in open('/verif/properties.jsonl'):
    p=json.loads(l)
    if p['id']==sys.argv[1]:
        print("PROPERTY %s — %s\n\nStatement: %s\n\nQuantifier: %s\n\nWhy tests can't settle it: %s\n\nAnchors: %s" % (p['id'],p['title'],p['statement'],p['quantifier']['text'],p['why_tests_cant'],json.dumps(p['anchors'])))
P
