#!/bin/bash
# usage: confirm_seed.sh <Cxx> <n> <pkgdir relative to repo root> [extra test pkgs...]
# Confirms a seeded change in the scratch worktree /tmp/mut/<Cxx>: demo passes without the
# patch; with the patch the tree builds, the package's existing tests pass, and the demo fails.
# On success stores it as /verif/seeded/<Cxx>-<n>/.
set -u
export GOFLAGS=-mod=mod GOPROXY=off GOSUMDB=off GOTOOLCHAIN=local; unset GOWORK
id="$1"; n="$2"; pkg="$3"; shift 3
wt=/tmp/mut/$id; src=/tmp/mut/out/$id/$n
cd "$wt" || exit 2
git checkout -q -- . ; git clean -fdq
demo=$(ls "$src"/*_test.go | head -1)
[ -f "$demo" ] || { echo "no demo test"; exit 2; }
tests=$(grep -ho '^func Test[A-Za-z0-9_]*' "$demo" | sed 's/func //' | paste -sd'|')
run() { go test -vet=off -count=1 -run "^($tests)\$" ./$pkg/ 2>&1 | tail -3; }
cp "$demo" "$pkg/zz_seed_demo_test.go"
echo "--- demo without patch"; out0=$(run); echo "$out0" | tail -1
rm "$pkg/zz_seed_demo_test.go"
git apply "$src/patch.diff" || { echo "patch failed"; exit 2; }
echo "--- build with patch"; go build ./... 2>&1 | tail -2; b=$?
echo "--- existing tests with patch"; out1=$(go test -vet=off -count=1 -skip "${SKIP:-^NoSuchTest$}" ./$pkg/... "$@" 2>&1 | tail -4); echo "$out1" | tail -2
cp "$demo" "$pkg/zz_seed_demo_test.go"
echo "--- demo with patch"; out2=$(run); echo "$out2" | tail -1
git checkout -q -- . ; git clean -fdq
ok0=$(echo "$out0" | grep -c '^ok'); ok1=$(echo "$out1" | grep -c 'FAIL'); ok2=$(echo "$out2" | grep -c 'FAIL')
if [ "$ok0" -ge 1 ] && [ "$ok1" -eq 0 ] && [ "$ok2" -ge 1 ]; then
  d=/verif/seeded/$id-$n; mkdir -p "$d"
  cp "$src/patch.diff" "$d/patch.diff"; cp "$demo" "$d/demo_test.go.txt"; cp "$src/notes.md" "$d/notes.md" 2>/dev/null
  echo "CONFIRMED -> $d (demo tests: $tests; place in $pkg/)"
  echo "$pkg" > "$d/.pkg"; echo "$tests" > "$d/.tests"
else
  echo "NOT CONFIRMED (demo-without ok=$ok0, existing FAIL=$ok1, demo-with FAIL=$ok2)"
fi
