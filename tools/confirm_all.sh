#!/bin/bash
# usage: confirm_all.sh <Cxx>  — confirms variants 1..3 produced by a seed agent (demo's first line names the package dir)
id="$1"
for n in ${NS:-1 2 3}; do
  d=/tmp/mut/out/$id/$n
  [ -f $d/patch.diff ] || continue
  pkg=$(head -1 $d/demo_test.go | sed -E 's/.*(pkg[^ ]*|cmd[^ ]*|config[^ ]*).*/\1/' | tr -d ' \r')
  echo "=== $id-$n ($pkg)"
  SKIP='TestWatchCoordinationWindows' /verif/tools/confirm_seed.sh $id $n $pkg 2>&1 | tail -6
done
