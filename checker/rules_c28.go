package main

import (
	"fmt"
	"go/types"
	"regexp"
	"strconv"
	"strings"

	"golang.org/x/tools/go/ssa"
)

// scriptTemplateItem is one decoded element of a script format constant: an
// opcode, or a direct push whose data is a placeholder ("%v") or literal.
type scriptTemplateItem struct {
	Op          string // "PUSH" or the opcode name / hex
	Len         int    // push length
	Placeholder int    // ordinal of the %v placeholder, -1 when literal data
}

var opNames = map[int]string{0x75: "DROP", 0x76: "DUP", 0xa9: "HASH160", 0x87: "EQUAL", 0x63: "IF", 0xac: "CHECKSIG", 0x67: "ELSE", 0x88: "EQUALVERIFY", 0xb1: "CLTV", 0x68: "ENDIF", 0xb2: "CSV", 0xad: "CHECKSIGVERIFY", 0x69: "VERIFY", 0x51: "1", 0x00: "0"}

// decodeScriptTemplate parses a hex script format: every %v must directly
// follow a direct-push opcode (0x01–0x4b) and stands for that many bytes.
func decodeScriptTemplate(f string) ([]scriptTemplateItem, error) {
	var out []scriptTemplateItem
	ph := 0
	for i := 0; i < len(f); {
		if strings.HasPrefix(f[i:], "%v") {
			return nil, fmt.Errorf("placeholder at %d not preceded by a push opcode", i)
		}
		if i+2 > len(f) {
			return nil, fmt.Errorf("odd hex digit at %d", i)
		}
		b, err := strconv.ParseUint(f[i:i+2], 16, 8)
		if err != nil {
			return nil, fmt.Errorf("not hex at %d", i)
		}
		i += 2
		if b >= 1 && b <= 0x4b {
			it := scriptTemplateItem{Op: "PUSH", Len: int(b), Placeholder: -1}
			if strings.HasPrefix(f[i:], "%v") {
				it.Placeholder = ph
				ph++
				i += 2
			} else {
				if i+2*int(b) > len(f) || strings.Contains(f[i:i+2*int(b)], "%") {
					return nil, fmt.Errorf("literal push at %d runs into a placeholder or the end", i)
				}
				i += 2 * int(b)
			}
			out = append(out, it)
			continue
		}
		name, ok := opNames[int(b)]
		if !ok {
			name = fmt.Sprintf("0x%02x", b)
		}
		out = append(out, scriptTemplateItem{Op: name, Placeholder: -1})
	}
	return out, nil
}

func templateString(items []scriptTemplateItem) string {
	var parts []string
	for _, it := range items {
		if it.Op == "PUSH" {
			if it.Placeholder >= 0 {
				parts = append(parts, fmt.Sprintf("<%d:#%d>", it.Len, it.Placeholder))
			} else {
				parts = append(parts, fmt.Sprintf("<%d:lit>", it.Len))
			}
		} else {
			parts = append(parts, it.Op)
		}
	}
	return strings.Join(parts, " ")
}

func init() {
	register(&Prop{
		ID:        "C28",
		Technique: "static analysis of the script templates (the format constants are decoded into opcodes and pushes, their structure is compared with the spend conditions) and of Deposit.Script (placeholder ↔ field provenance, push size ↔ Go array size, format selection) (go/ssa, go/types constants)",
		Explanation: "The deposit script is data assembled from two format constants. Decided: (1) in both templates every embedded datum ahead of the conditions (depositor, optional extra data, blinding factor) is a direct push immediately followed by DROP, so it cannot influence spending; " +
			"(2) what follows is exactly DUP HASH160 <20> EQUAL IF CHECKSIG ELSE DUP HASH160 <20> EQUALVERIFY <4> CHECKLOCKTIMEVERIFY DROP CHECKSIG ENDIF — one key-hash branch that needs only a signature, one that additionally passes CHECKLOCKTIMEVERIFY on the embedded 4-byte locktime, and no third branch; " +
			"(3) the extra-data template equals the plain one with a single <32> DROP inserted after the depositor; " +
			"(4) Deposit.Script fills the placeholders, in order, with depositor(20, length-checked), [ExtraData(32)], BlindingFactor(8), WalletPublicKeyHash(20) into the unconditional branch's slot, RefundPublicKeyHash(20) into the locktime branch's slot, RefundLocktime(4) before CLTV — each field's Go array length equals its push length; " +
			"(5) the extra-data template is used exactly when ExtraData is set, and the result is the hex decoding of the formatted text.",
		NotDecided: "the Bitcoin interpreter's semantics of these opcodes (that CHECKLOCKTIMEVERIFY enforces the locktime, that HASH160/EQUAL bind the key) and the P2SH/P2WSH wrapping — those are consensus rules executed by Bitcoin nodes, not shapes of this source. The rule pins the script's structure, which any spend-condition change must alter.",
		Fn: func(r *Run) {
			r.Rule("C28.template", "script templates: data pushes dropped, then exactly the two-branch key/locktime structure", 3)
			r.Rule("C28.fill", "placeholders filled from the matching Deposit fields of the matching size; template chosen by ExtraData", 14)
			conds := "DUP HASH160 <20:#W> EQUAL IF CHECKSIG ELSE DUP HASH160 <20:#R> EQUALVERIFY <4:#L> CLTV DROP CHECKSIG ENDIF"
			type tmpl struct {
				name   string
				items  []scriptTemplateItem
				prefix []scriptTemplateItem // dropped data pushes
				w, rf, lt int                // placeholder ordinals of wallet PKH, refund PKH, locktime
			}
			var ts []*tmpl
			for _, cn := range []string{"depositScriptFormat", "depositWithExtraDataScriptFormat"} {
				f := strings.Trim(r.PkgConst("C28.template", "pkg/tbtc", cn), `"`)
				if f == "" {
					continue
				}
				items, err := decodeScriptTemplate(f)
				if err != nil {
					r.Fail("C28.template", "pkg/tbtc."+cn, 0, "template does not decode: "+err.Error(), nil, nil)
					continue
				}
				t := &tmpl{name: cn, items: items, w: -1, rf: -1, lt: -1}
				// leading <push placeholder> DROP pairs
				i := 0
				for i+1 < len(items) && items[i].Op == "PUSH" && items[i].Placeholder >= 0 && items[i+1].Op == "DROP" {
					t.prefix = append(t.prefix, items[i])
					i += 2
				}
				rest := items[i:]
				// rename the three placeholders of the condition part
				var parts []string
				phs := []*int{&t.w, &t.rf, &t.lt}
				tags := []string{"W", "R", "L"}
				k := 0
				for _, it := range rest {
					if it.Op == "PUSH" && it.Placeholder >= 0 && k < 3 {
						*phs[k] = it.Placeholder
						parts = append(parts, fmt.Sprintf("<%d:#%s>", it.Len, tags[k]))
						k++
					} else {
						parts = append(parts, templateString([]scriptTemplateItem{it}))
					}
				}
				got := strings.Join(parts, " ")
				r.Cond(got == conds && len(t.prefix) >= 2, "C28.template", "pkg/tbtc."+cn, 0,
					fmt.Sprintf("%d dropped data push(es), then the condition structure; decoded: %s", len(t.prefix), templateString(items)))
				ts = append(ts, t)
			}
			if len(ts) != 2 {
				return
			}
			// (3) the two templates differ by one <32> DROP
			plain, extra := ts[0], ts[1]
			okDiff := len(extra.prefix) == len(plain.prefix)+1
			extraPh := -1
			if okDiff {
				// removing one 32-byte push from the extra template's prefix must give the plain prefix
				j := 0
				for _, it := range extra.prefix {
					if j < len(plain.prefix) && it.Len == plain.prefix[j].Len && !(it.Len == 32 && extraPh == -1) {
						j++
						continue
					}
					if extraPh == -1 && it.Len == 32 {
						extraPh = it.Placeholder
						continue
					}
					okDiff = false
				}
				okDiff = okDiff && j == len(plain.prefix) && extraPh >= 0
			}
			r.Cond(okDiff, "C28.template", "pkg/tbtc.depositWithExtraDataScriptFormat#delta", 0, "the extra-data template is the plain one plus a single dropped 32-byte push")

			fn := r.MustFn("C28.fill", "pkg/tbtc", "Deposit.Script")
			if fn == nil {
				return
			}
			name := FnName(fn)
			hexOf := regexp.MustCompile(`^call:encoding/hex\.EncodeToString\((.*)\)$`)
			for _, c := range Sites(fn, `^fmt\.Sprintf$`, false) {
				fmtS := strings.Trim(strings.TrimPrefix(Desc(c.Common().Args[0]), "const:"), `"`)
				var t *tmpl
				for _, x := range ts {
					if strings.Trim(r.PkgConst("C28.fill", "pkg/tbtc", x.name), `"`) == fmtS {
						t = x
					}
				}
				if t == nil {
					r.Fail("C28.fill", name+"#format", c.Pos(), "Sprintf with a format that is not one of the two script templates", nil, nil)
					continue
				}
				// chosen by ExtraData
				wantFact := `^\+\(P0\.ExtraData == nil\)$`
				if t == extra {
					wantFact = `^-\(P0\.ExtraData == nil\)$`
				}
				r.Check("C28.fill", name+"#select/"+t.name, c.Pos(), Facts(c.Block()), wantFact, `^\+\(const:20 == len\(call:encoding/hex\.DecodeString\(.*\)#0\)\)$`, okOf(`encoding/hex\.DecodeString`))
				args := litElems(c.Common().Args[1])
				// expected roles by placeholder ordinal
				want := map[int]string{}
				for i, p := range t.prefix {
					switch {
					case i == 0:
						want[p.Placeholder] = "depositor"
					case t == extra && p.Placeholder == extraPh:
						want[p.Placeholder] = "P0.ExtraData"
					default:
						want[p.Placeholder] = "&P0.BlindingFactor"
					}
				}
				want[t.w], want[t.rf], want[t.lt] = "&P0.WalletPublicKeyHash", "&P0.RefundPublicKeyHash", "&P0.RefundLocktime"
				sizes := map[int]int{}
				for _, it := range t.items {
					if it.Placeholder >= 0 {
						sizes[it.Placeholder] = it.Len
					}
				}
				for ph, role := range want {
					sts := args[int64(ph)]
					got := "<missing>"
					var src ssa.Value
					if len(sts) == 1 {
						if m := hexOf.FindStringSubmatch(Desc(unwrapIface(sts[0].Val))); m != nil {
							got = m[1]
							if call, ok := unwrapIface(sts[0].Val).(*ssa.Call); ok {
								src = call.Call.Args[0]
							}
						}
					}
					ok := false
					switch role {
					case "depositor":
						ok = strings.HasPrefix(got, "call:encoding/hex.DecodeString(call:strings.TrimPrefix(call:pkg/chain.Address.String(P0.Depositor)") && strings.HasSuffix(got, "#0")
					default:
						ok = got == role+"[:]"
						// Go array size equals the push size
						if ok && src != nil {
							if sl, isSl := src.(*ssa.Slice); isSl {
								at := sl.X.Type()
								if p, isP := at.Underlying().(*types.Pointer); isP {
									at = p.Elem()
								}
								if a, isA := at.Underlying().(*types.Array); isA {
									ok = int(a.Len()) == sizes[ph]
								} else {
									ok = false
								}
							}
						}
					}
					r.Cond(ok, "C28.fill", fmt.Sprintf("%s#%s/placeholder-%d", name, t.name, ph), c.Pos(), fmt.Sprintf("placeholder %d (%d bytes) ← %s; got %s", ph, sizes[ph], role, abbr(got, 2)))
				}
				r.Cond(len(args) == len(want), "C28.fill", name+"#"+t.name+"/arity", c.Pos(), "as many arguments as placeholders")
			}
			for _, p := range SuccessReturns(fn) {
				d := Desc(RetResults(p.Ret)[0])
				r.Cond(strings.HasPrefix(d, "call:encoding/hex.DecodeString(phi{call:fmt.Sprintf(") && strings.HasSuffix(d, "#0"), "C28.fill", name+"#result", p.Ret.Pos(), "the script is the hex decoding of the formatted template")
			}
		},
	})
	witness(Witness{Prop: "C28", Name: "wallet-and-refund-swapped", File: "pkg/tbtc/deposit.go",
		Old: "\t\t\thex.EncodeToString(d.BlindingFactor[:]),\n\t\t\thex.EncodeToString(d.WalletPublicKeyHash[:]),\n\t\t\thex.EncodeToString(d.RefundPublicKeyHash[:]),\n\t\t\thex.EncodeToString(d.RefundLocktime[:]),\n\t\t)\n\t} else {",
		New: "\t\t\thex.EncodeToString(d.BlindingFactor[:]),\n\t\t\thex.EncodeToString(d.RefundPublicKeyHash[:]),\n\t\t\thex.EncodeToString(d.WalletPublicKeyHash[:]),\n\t\t\thex.EncodeToString(d.RefundLocktime[:]),\n\t\t)\n\t} else {", Rule: "C28.fill"})
	witness(Witness{Prop: "C28", Name: "locktime-check-removed", File: "pkg/tbtc/deposit.go",
		Old: "const depositScriptFormat = \"14%v7508%v7576a914%v8763ac6776a914%v8804%vb175ac68\"", New: "const depositScriptFormat = \"14%v7508%v7576a914%v8763ac6776a914%v8804%v7575ac68\"", Rule: "C28.template"})
	witness(Witness{Prop: "C28", Name: "extra-data-not-dropped", File: "pkg/tbtc/deposit.go",
		Old: "const depositWithExtraDataScriptFormat = \"14%v7520%v7508%v7576a914%v8763ac6776a914%v8804%vb175ac68\"", New: "const depositWithExtraDataScriptFormat = \"14%v7520%v8708%v7576a914%v8763ac6776a914%v8804%vb175ac68\"", Rule: "C28.template"})
}
