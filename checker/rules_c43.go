package main

import (
	"golang.org/x/tools/go/ssa"
)

func init() {
	const ch = `pkg/maintainer/btcdiff\.Chain\.`
	const self = `pkg/maintainer/btcdiff\.bitcoinDifficultyMaintainer\.`
	const E = "invoke:pkg/maintainer/btcdiff.Chain.CurrentEpoch(P0.chain)#0"
	const L = "invoke:pkg/maintainer/btcdiff.Chain.ProofLength(P0.chain)#0"
	register(&Prop{
		ID:        "C43",
		Technique: "static analysis: dominator guard facts, affine normal forms of the header range, CFG reachability (go/ssa)",
		Explanation: "proveNextEpoch: the submitted headers are getBlockHeaders(first,last) with first = 2016·(currentEpoch+1) − proofLength and last = 2016·(currentEpoch+1) + proofLength − 1 (affine normal forms over the chain's CurrentEpoch and ProofLength answers, so algebraic rewrites do not matter); " +
			"Retarget/RetargetWithRefund are dominated by last ≤ latest Bitcoin height, by error-free queries and header fetch, and each by its own proxy mode; 'proven' (true) is returned only after waitForCurrentEpochUpdate(currentEpoch+1) succeeded and is unreachable from a failed submission; " +
			"waitForCurrentEpochUpdate returns nil only under CurrentEpoch ≥ target; getBlockHeaders fetches every height of the closed range in order; proveEpochs reaches proveNextEpoch only after verifySubmissionEligibility returned nil, which needs Ready ∧ authorised for the configured mode; " +
			"the two submit calls occur nowhere else.",
		NotDecided: "that the relay accepts the headers; unsigned overflow of the height arithmetic; behaviour across restarts of the control loop.",
		Fn: func(r *Run) {
			r.Rule("C43.range", "headers = [2016(e+1) − len, 2016(e+1) + len − 1] for e = relay's current epoch", 3)
			r.Rule("C43.submit", "submit only when all headers are mined, queries error-free, matching proxy mode", 2)
			r.Rule("C43.proven", "true only after the relay reached epoch e+1; not reachable from a failed submit", 3)
			r.Rule("C43.wait", "waitForCurrentEpochUpdate returns nil only under CurrentEpoch ≥ target", 1)
			r.Rule("C43.headers", "getBlockHeaders fetches each height first..last", 2)
			r.Rule("C43.eligible", "proveNextEpoch only after verifySubmissionEligibility = nil; nil needs Ready ∧ authorised", 3)
			r.Rule("C43.only-door", "Retarget* invoked only from proveNextEpoch", 2)
			fn := r.MustFn("C43.range", "pkg/maintainer/btcdiff", "bitcoinDifficultyMaintainer.proveNextEpoch")
			if fn == nil {
				return
			}
			first := "2016*" + E + " + -1*" + L + " + 2016"
			last := "2016*" + E + " + 1*" + L + " + 2015"
			gbh := Sites(fn, `^`+self+`getBlockHeaders$`, false)
			if len(gbh) != 1 {
				r.Undecided("C43.range", FnName(fn)+"#getBlockHeaders", "expected exactly one getBlockHeaders call")
				return
			}
			a := gbh[0].Common().Args
			r.Cond(AffIs(a[1], first), "C43.range", FnName(fn)+"#first", gbh[0].Pos(), "first header height must be "+first+"; got "+Affine(a[1]).String())
			r.Cond(AffIs(a[2], last), "C43.range", FnName(fn)+"#last", gbh[0].Pos(), "last header height must be "+last+"; got "+Affine(a[2]).String())
			for _, c := range Sites(fn, `^invoke:`+ch+`(Retarget|RetargetWithRefund)$`, false) {
				mined := false
				for _, g := range CmpGuards(c.Block()) {
					if Affine(g.Lo).String() == last && Desc(stripConv(g.Hi)) == "invoke:pkg/bitcoin.Chain.GetLatestBlockHeight(P0.btcChain)#0" {
						mined = true
					}
				}
				r.Cond(mined, "C43.submit", FnName(fn)+"#"+shortCallee(c)+"/mined", c.Pos(), "submit must be dominated by last header height ≤ latest Bitcoin block height")
				need := []string{okOf(`pkg/bitcoin\.Chain\.GetLatestBlockHeight`), okOf(ch + "CurrentEpoch"), okOf(ch + "ProofLength"), okOf(self + "getBlockHeaders")}
				if shortCallee(c) == "btcdiff.Chain.Retarget" {
					need = append(need, `^\+&?P0\.config\.DisableProxy$`)
				} else {
					need = append(need, `^-&?P0\.config\.DisableProxy$`)
				}
				r.Check("C43.submit", FnName(fn)+"#"+shortCallee(c), c.Pos(), ImpliedFacts(c.Block(), 0), need...)
				hd := Desc(c.Common().Args[0])
				r.Cond(re(`^call:`+self+`getBlockHeaders\(.*\)#0$`).MatchString(hd), "C43.range", FnName(fn)+"#"+shortCallee(c)+"/headers", c.Pos(), "submitted headers must be the fetched range; got "+abbr(hd, 1))
			}
			// return true
			for _, p := range ReturnPaths(fn, 0, func(v ssa.Value) bool { cb, isc := constBool(v); return !isc || cb }) {
				r.Check("C43.proven", FnName(fn)+"#return-true", p.Ret.Pos(), p.Facts, okOf(self+"waitForCurrentEpochUpdate"), okOf(self+"getBlockHeaders"))
				r.NoPathFromBranch("C43.proven", fn, `^-\(invoke:`+ch+`Retarget\(.*\) == nil\)$`, 1, p.Ret, "return-true/after-failed-Retarget")
				r.NoPathFromBranch("C43.proven", fn, `^-\(invoke:`+ch+`RetargetWithRefund\(.*\) == nil\)$`, 1, p.Ret, "return-true/after-failed-RetargetWithRefund")
			}
			for _, c := range Sites(fn, `^`+self+`waitForCurrentEpochUpdate$`, false) {
				want := "1*" + E + " + 1"
				r.Cond(AffIs(c.Common().Args[2], want), "C43.proven", FnName(fn)+"#wait-target", c.Pos(), "wait target must be currentEpoch+1; got "+Affine(c.Common().Args[2]).String())
			}
			if w := r.MustFn("C43.wait", "pkg/maintainer/btcdiff", "bitcoinDifficultyMaintainer.waitForCurrentEpochUpdate"); w != nil {
				for _, p := range SuccessReturns(w) {
					r.Check("C43.wait", FnName(w)+"#return-nil", p.Ret.Pos(), p.Facts, `^\+\(P2 <= invoke:`+ch+`CurrentEpoch\(P0\.chain\)#0\)$`, okOf(ch+"CurrentEpoch"))
				}
			}
			if g := r.MustFn("C43.headers", "pkg/maintainer/btcdiff", "bitcoinDifficultyMaintainer.getBlockHeaders"); g != nil {
				for _, c := range Sites(g, `^invoke:pkg/bitcoin\.Chain\.GetBlockHeader$`, false) {
					h := c.Common().Args[0]
					phi, isPhi := h.(*ssa.Phi)
					ok := false
					if isPhi && len(phi.Edges) == 2 {
						for i, e := range phi.Edges {
							o := phi.Edges[1-i]
							if Desc(e) == "P1" && Affine(o).String() == "1*"+Desc(phi)+" + 1" {
								ok = true
							}
						}
					}
					r.Cond(ok, "C43.headers", FnName(g)+"#induction", c.Pos(), "height must start at the first height and step by one")
					bound := false
					for _, cg := range CmpGuards(c.Block()) {
						if cg.Lo == h && !cg.Strict && Desc(cg.Hi) == "P2" {
							bound = true
						}
					}
					r.Cond(bound, "C43.headers", FnName(g)+"#bound", c.Pos(), "loop must run while height ≤ last (closed range)")
				}
				for _, p := range SuccessReturns(g) {
					ok := false
					for _, c := range Sites(g, `^invoke:pkg/bitcoin\.Chain\.GetBlockHeader$`, false) {
						if cv := callValue(c); cv != nil && derives(p.Ret.Results[0], cv) {
							ok = true
						}
					}
					r.Cond(ok, "C43.headers", FnName(g)+"#return", p.Ret.Pos(), "returned slice must be built from the fetched headers")
				}
			}
			if pe := r.MustFn("C43.eligible", "pkg/maintainer/btcdiff", "bitcoinDifficultyMaintainer.proveEpochs"); pe != nil {
				r.CheckCalls("C43.eligible", pe, `^`+self+`proveNextEpoch$`, 1, okOf(self+"verifySubmissionEligibility"))
			}
			if ve := r.MustFn("C43.eligible", "pkg/maintainer/btcdiff", "bitcoinDifficultyMaintainer.verifySubmissionEligibility"); ve != nil {
				for _, p := range SuccessReturns(ve) {
					okReady := len(MissingFacts(p.Facts, trueOf(ch+"Ready"), okOf(ch+"Ready"))) == 0
					direct := len(MissingFacts(p.Facts, `^\+&?P0\.config\.DisableProxy$`, `^\+invoke:`+ch+`IsAuthorized\(.*\)#0$`, `^\+\(invoke:`+ch+`IsAuthorized\(.*\)#1 == nil\)$`)) == 0
					refund := len(MissingFacts(p.Facts, `^-&?P0\.config\.DisableProxy$`, trueOf(ch+"IsAuthorizedForRefund"), okOf(ch+"IsAuthorizedForRefund"))) == 0
					if okReady && (direct || refund) {
						r.Ok("C43.eligible", FnName(ve)+"#return-nil", p.Ret.Pos(), "")
					} else {
						r.Fail("C43.eligible", FnName(ve)+"#return-nil", p.Ret.Pos(), "eligible only when Ready ∧ authorised for the configured mode", nil, abbrAll(p.Facts, 1))
					}
				}
			}
			r.OnlyCalledFrom("C43.only-door", `^invoke:`+ch+`(Retarget|RetargetWithRefund)$`, 2, "pkg/maintainer/btcdiff.bitcoinDifficultyMaintainer.proveNextEpoch")
		},
	})
}
