package main

import (
	"fmt"
	"strings"
)

func debugList(w *World, sub string) {
	for _, f := range w.AllFuncs {
		if strings.Contains(FnName(f), sub) {
			fmt.Printf("%s | synthetic=%q typeargs=%d parent=%v blocks=%d str=%s\n", FnName(f), f.Synthetic, len(f.TypeArgs()), f.Parent() != nil, len(f.Blocks), f.String())
		}
	}
}
