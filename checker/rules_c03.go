package main

import (
	"fmt"
	"strings"

	"golang.org/x/tools/go/ssa"
)

// filteredIndexRule reports, for every function in fns, index expressions
// S[i] where i is bounded by the length of a slice A that was built by a
// conditional append while ranging over S: A is a filtered projection of S,
// so positions in A are not positions in S. Indexing A itself, or a slice
// appended in lock-step with A, is accepted.
func filteredIndexRule(r *Run, rule string, fns []*ssa.Function) (sites int) {
	for _, fn := range fns {
		accs := Accumulations(fn)
		if len(accs) == 0 {
			continue
		}
		for _, u := range IndexUsesOver(fn, accs) {
			if !u.Over.Filtered || u.Over.Source == nil {
				continue
			}
			construct := FnName(fn) + "#index-bounded-by-filtered-list/" + abbr(Desc(u.Base), 1)
			switch {
			case sameValue(u.Base, u.Over.Source):
				sites++
				r.Fail(rule, construct, u.Instr.Pos(),
					"the index ranges over a list built by conditional append from "+abbr(Desc(u.Over.Source), 1)+
						" (some elements are skipped), but is used to index that unfiltered source: positions differ as soon as an element is skipped",
					[]string{"index the filtered list itself or a slice appended in lock-step with it"}, nil)
			default:
				ok := u.Over.Vals[u.Base]
				for _, b := range accs {
					if b.Vals[u.Base] && lockStep(u.Over, b) {
						ok = true
					}
				}
				if ok {
					sites++
					r.Ok(rule, construct, u.Instr.Pos(), "indexes the filtered list or a slice appended in lock-step with it")
				}
			}
		}
	}
	return sites
}

func init() {
	const entry = "pkg/beacon/entry"
	const msg = `assert:\*pkg/beacon/entry\.SignatureShareMessage\(invoke:pkg/net\.Message\.Payload\(.*\)\)#0`
	register(&Prop{
		ID:        "C03",
		Technique: "static analysis: index-space typing of filtered append projections, dominator guard facts and value identity on the share-verification path (go/ssa)",
		Explanation: "(1) Module-wide: no index that is bounded by the length of a list built by *conditional* append while ranging over S is used to index S itself (bls.RecoverSignature/RecoverPublicKey skip nil / negative-index entries, so positions in the valid-participant list are not positions in the input); indexing the filtered list or a slice appended in lock-step with it is accepted. " +
			"Recovery returns a result only under threshold ≤ len(valid list) and passes the same (index, list) pair to lagrangeBasis. " +
			"(2) entry.SignAndSubmit stores a received share into the map handed to completeSignature only under extractAndValidateShare = nil error, not-self, same session, keyed by that message's senderID; extractAndValidateShare returns a share only under bls.VerifyG1(groupPublicKeyShares[message.senderID], previousEntry, share) = true for the very object it decoded from the message and returns; " +
			"completeSignature pairs each index with the share stored under it and ThresholdSigner.CompleteSignature passes list and threshold through unchanged.",
		NotDecided: "the Lagrange arithmetic itself (basis formula, modular inverse), uniqueness of the recovered signature, that it verifies under the group key; distinctness of indices in RecoverSignature's input.",
		Fn: func(r *Run) {
			r.Rule("C03.filtered-index", "an index over a filtered projection of S never indexes S", 2)
			r.Rule("C03.recover", "Recover* return a value only under threshold ≤ len(valid list); lagrangeBasis gets (i, that list)", 4)
			r.Rule("C03.verified-only", "received share stored only after extractAndValidateShare succeeded for that message and sender", 1)
			r.Rule("C03.validate", "extractAndValidateShare returns the decoded share only under VerifyG1(pkShares[senderID], previousEntry, share)", 1)
			r.Rule("C03.complete", "completeSignature/CompleteSignature hand index-share pairs and the threshold through unchanged", 3)

			filteredIndexRule(r, "C03.filtered-index", r.W.AllFuncs)

			for _, name := range []string{"RecoverSignature", "RecoverPublicKey"} {
				fn := r.MustFn("C03.recover", "pkg/bls", name)
				if fn == nil {
					continue
				}
				accs := Accumulations(fn)
				var valid *Accum
				for _, a := range accs {
					if a.Filtered && a.Source != nil && Desc(a.Source) == "P0" {
						// the list of participant indexes is the one handed to lagrangeBasis
						for _, c := range Sites(fn, `^pkg/bls\.lagrangeBasis$`, false) {
							if len(c.Common().Args) == 2 && a.Vals[c.Common().Args[1]] {
								valid = a
							}
						}
					}
				}
				if valid == nil {
					r.Undecided("C03.recover", FnName(fn)+"#valid-list", "no filtered participant list handed to lagrangeBasis found")
					continue
				}
				for _, p := range SuccessReturns(fn) {
					ok := false
					for _, g := range cmpOf(Guards(p.Ret.Block())) {
						if s := isLenOf(g.Hi); s != nil && valid.Vals[s] && Desc(stripConv(g.Lo)) == "P1" && !g.Strict {
							ok = true
						}
					}
					r.Cond(ok, "C03.recover", FnName(fn)+"#return-ok", p.Ret.Pos(), "a recovered value may be returned only under threshold ≤ number of valid participants")
				}
				for _, c := range Sites(fn, `^pkg/bls\.lagrangeBasis$`, false) {
					idx := c.Common().Args[0]
					ok := false
					for _, g := range CmpGuards(c.Block()) {
						if s := isLenOf(g.Hi); s != nil && g.Strict && stripConv(g.Lo) == stripConv(idx) && valid.Vals[s] {
							ok = true
						}
					}
					r.Cond(ok, "C03.recover", FnName(fn)+"#lagrangeBasis-args", c.Pos(), "lagrangeBasis(i, list) must get an index into that same list")
				}
				// every element appended to the valid list derives from the element's own I field
				for _, ap := range valid.Appends {
					ok := false
					if sl, isSl := ap.Call.Args[1].(*ssa.Slice); isSl {
						d := ""
						if al, isAl := sl.X.(*ssa.Alloc); isAl {
							for _, ref := range *al.Referrers() {
								if ia, isIA := ref.(*ssa.IndexAddr); isIA {
									for _, r2 := range *ia.Referrers() {
										if st, isSt := r2.(*ssa.Store); isSt {
											d = Desc(st.Val)
										}
									}
								}
							}
						}
						ok = re(`^call:math/big\.NewInt\(conv:int64\(P0\[.*\]\.I\)\)$`).MatchString(d)
					}
					r.Cond(ok, "C03.recover", FnName(fn)+"#participant-index", ap.Pos(), "valid participants are big.NewInt(int64(share.I)) of the visited element")
				}
			}

			// ---- recovery is a function of its arguments only: no package-level
			// state that is written at run time is reachable from Recover*
			r.Rule("C03.pure", "recovery reads no run-time-mutable package state (same inputs ⇒ same result, whatever was recovered before)", 2)
			written := runtimeWrittenGlobals(r.W)
			for _, name := range []string{"RecoverSignature", "RecoverPublicKey"} {
				root := r.W.Fn("pkg/bls", name)
				if root == nil {
					continue
				}
				seen := map[*ssa.Function]bool{}
				var bad []string
				var visit func(f *ssa.Function, d int)
				visit = func(f *ssa.Function, d int) {
					if f == nil || f.Blocks == nil || seen[f] || d == 0 {
						return
					}
					seen[f] = true
					EachInstr(f, func(in ssa.Instruction) {
						for _, op := range in.Operands(nil) {
							if g, ok := (*op).(*ssa.Global); ok {
								if w, isW := written[g]; isW {
									bad = append(bad, g.Name()+" (written by "+w+")")
								}
							}
						}
						if c, ok := in.(ssa.CallInstruction); ok {
							if callee := staticCallee(c); callee != nil && callee.Pkg != nil && strings.HasPrefix(callee.Pkg.Pkg.Path(), modPath) {
								visit(callee, d-1)
							}
						}
					})
					for _, a := range f.AnonFuncs {
						visit(a, d-1)
					}
				}
				visit(root, 8)
				r.Cond(len(bad) == 0, "C03.pure", FnName(root)+"#globals", root.Pos(), fmt.Sprintf("%d repository function(s) reachable; run-time-written package variables read: %s", len(seen), strings.Join(bad, ", ")))
			}

			// ---- relay entry: only verified shares
			if fn := r.MustFn("C03.verified-only", entry, "SignAndSubmit"); fn != nil {
				var cs *ssa.Call
				for _, c := range Sites(fn, `^pkg/beacon/entry\.completeSignature$`, false) {
					cs, _ = c.(*ssa.Call)
				}
				if cs == nil {
					r.Undecided("C03.verified-only", FnName(fn)+"#completeSignature", "call not found")
				} else {
					m := cs.Call.Args[2]
					n := 0
					EachInstr(fn, func(in ssa.Instruction) {
						mu, ok := in.(*ssa.MapUpdate)
						if !ok || mu.Map != m {
							return
						}
						val := Desc(mu.Value)
						key := Desc(mu.Key)
						if re(`^call:pkg/beacon/dkg\.ThresholdSigner\.MemberID\(P6\)$`).MatchString(key) {
							r.Cond(re(`^call:pkg/beacon/dkg\.ThresholdSigner\.CalculateSignatureShare\(P6, `).MatchString(val),
								"C03.verified-only", FnName(fn)+"#own-share", in.Pos(), "own entry is the signer's own share over the previous entry")
							return
						}
						n++
						call, _ := mu.Value.(*ssa.Extract)
						var ev *ssa.Call
						if call != nil && call.Index == 0 {
							ev, _ = call.Tuple.(*ssa.Call)
						}
						if ev == nil || CalleeName(ev) != entry+".extractAndValidateShare" {
							r.Fail("C03.verified-only", FnName(fn)+"#received-share", in.Pos(), "a received share entering the map must be result 0 of extractAndValidateShare; got "+abbr(val, 1), nil, nil)
							return
						}
						facts := ImpliedFacts(in.Block(), 1)
						msgD := Desc(ev.Call.Args[0])
						ok2 := r.Check("C03.verified-only", FnName(fn)+"#received-share", in.Pos(), facts,
							okOf(`pkg/beacon/entry\.extractAndValidateShare`),
							`^\+\(`+msg+`\.sessionID == call:encoding/hex\.EncodeToString\(P4\)\)$`,
							`^-\(call:pkg/beacon/dkg\.ThresholdSigner\.MemberID\(P6\) == call:pkg/beacon/entry\.SignatureShareMessage\.SenderID\(`+msg+`\)\)$`)
						_ = ok2
						r.Cond(key == msgD+".senderID", "C03.verified-only", FnName(fn)+"#received-share/key", in.Pos(), "the share is stored under the senderID of the very message that was validated; key="+abbr(key, 2))
						a := ev.Call.Args
						r.Cond(Desc(a[1]) == "call:pkg/beacon/dkg.ThresholdSigner.GroupPublicKeyShares(P6)" && Desc(a[2]) == Desc(valueArg(fn, `^github\.com/ethereum/go-ethereum/crypto/bn256/cloudflare\.G1\.Unmarshal$`, 0)),
							"C03.verified-only", FnName(fn)+"#received-share/args", ev.Pos(), "validation uses the signer's group public key shares and the decoded previous entry")
					})
					if n == 0 {
						r.Undecided("C03.verified-only", FnName(fn)+"#received-share", "no store of a received share found")
					}
					r.Cond(Desc(cs.Call.Args[3]) == "P5", "C03.complete", FnName(fn)+"#threshold", cs.Pos(), "completeSignature gets the honest threshold parameter")
				}
			}
			if fn := r.MustFn("C03.validate", entry, "extractAndValidateShare"); fn != nil {
				for _, p := range SuccessReturns(fn) {
					share := RetResults(p.Ret)[0]
					var vcall *ssa.Call
					for _, c := range Sites(fn, `^pkg/bls\.VerifyG1$`, false) {
						if cv, ok := c.(*ssa.Call); ok && len(cv.Call.Args) == 3 && cv.Call.Args[2] == share {
							vcall = cv
						}
					}
					if vcall == nil {
						r.Fail("C03.validate", FnName(fn)+"#return-share", p.Ret.Pos(), "the returned share must be the object passed to bls.VerifyG1", nil, nil)
						continue
					}
					okv := false
					for _, g := range Guards(p.Ret.Block()) {
						if g.Cond == vcall && g.Pol {
							okv = true
						}
					}
					dec := false
					for _, c := range Sites(fn, `^github\.com/ethereum/go-ethereum/crypto/bn256/cloudflare\.G1\.Unmarshal$`, false) {
						if c.Common().Args[0] == share && Desc(c.Common().Args[1]) == "P0.shareBytes" {
							dec = true
						}
					}
					pk := Desc(vcall.Call.Args[0]) == "P1[P0.senderID]#0" && Desc(vcall.Call.Args[1]) == "P2"
					r.Cond(okv && dec && pk && HasFact(p.Facts, `^\+P1\[P0\.senderID\]#1$`) && HasFact(p.Facts, okOf(`github\.com/ethereum/go-ethereum/crypto/bn256/cloudflare\.G1\.Unmarshal`)),
						"C03.validate", FnName(fn)+"#return-share", p.Ret.Pos(),
						"share returned only when decoded from message.shareBytes without error, the sender's public key share exists, and VerifyG1(pkShares[message.senderID], previousEntry, share) holds")
				}
			}
			if fn := r.MustFn("C03.complete", entry, "completeSignature"); fn != nil {
				iOK, vOK := false, false
				EachInstr(fn, func(in ssa.Instruction) {
					if st, ok := in.(*ssa.Store); ok {
						a, v := Desc(st.Addr), Desc(st.Val)
						if strings.HasSuffix(a, ".I") && v == "conv:int(next(range(P2))#1)" {
							iOK = true
						}
						if strings.HasSuffix(a, ".V") && v == "next(range(P2))#2" {
							vOK = true
						}
					}
				})
				r.Cond(iOK && vOK, "C03.complete", FnName(fn)+"#pairs", fn.Pos(), "each SignatureShare pairs a map key with the value stored under it")
				for _, c := range Sites(fn, `^pkg/beacon/dkg\.ThresholdSigner\.CompleteSignature$`, false) {
					r.Cond(Desc(c.Common().Args[2]) == "P3", "C03.complete", FnName(fn)+"#threshold", c.Pos(), "threshold passed through")
				}
			}
			if fn := r.MustFn("C03.complete", "pkg/beacon/dkg", "ThresholdSigner.CompleteSignature"); fn != nil {
				for _, ret := range ReturnsMatching(fn, 0, `.`) {
					r.Cond(Desc(ret.Results[0]) == "call:pkg/bls.RecoverSignature(P1, P2)#0", "C03.complete", FnName(fn)+"#delegate", ret.Pos(), "delegates to bls.RecoverSignature(shares, threshold)")
				}
			}
		},
	})
	witness(Witness{Prop: "C03", Name: "index-source-with-filtered-index", File: "pkg/bls/bls.go",
		Old: "new(bn256.G1).ScalarMult(validShares[i].V, basis)", New: "new(bn256.G1).ScalarMult(shares[i].V, basis)",
		Rule: "C03.filtered-index", Within: "RecoverSignature"})
	witness(Witness{Prop: "C03", Name: "store-unverified-share", File: "pkg/beacon/entry/entry.go",
		Old: "if err != nil {\n\t\t\t\tlogger.Warnf(\n\t\t\t\t\t\"[member:%v] rejecting signature share from \"+",
		New: "if err != nil && share == nil {\n\t\t\t\tlogger.Warnf(\n\t\t\t\t\t\"[member:%v] rejecting signature share from \"+",
		Rule: "C03.verified-only"})
	witness(Witness{Prop: "C03", Name: "verify-against-own-key-share", File: "pkg/beacon/entry/entry.go",
		Old: "if !bls.VerifyG1(publicKeyShare, previousEntry, share) {", New: "if !bls.VerifyG1(publicKeyShare, previousEntry, share) && len(groupPublicKeyShares) > 3 {",
		Rule: "C03.validate"})
}

// valueArg returns argument idx of the first call in fn matching calleePat (nil when absent).
func valueArg(fn *ssa.Function, calleePat string, idx int) ssa.Value {
	for _, c := range Sites(fn, calleePat, false) {
		if idx < len(c.Common().Args) {
			return c.Common().Args[idx]
		}
	}
	return nil
}
