package main

import (
	"strings"

	"golang.org/x/tools/go/ssa"
)

func init() {
	register(&Prop{
		ID:        "C38",
		Technique: "static analysis: must-precede ordering (storage success dominates every cache mutation), key-expression agreement between the writer, the loader and the lookups, must-hold locksets with a who-may-call check for the one initialisation-only exemption (go/ssa)",
		Explanation: "tbtc wallet registry: (1) in registerSigner every mutation of walletCache (new entry, appended signer) is dominated by walletStorage.saveSigner(signer) = nil; in archiveWallet the cache entry is deleted only after walletStorage.archiveWallet(key) = nil, for the very key that was archived; " +
			"(2) the directory a signer is saved under, the cache key used at registration and the key the loader groups by are one expression, getWalletStorageKey(signer's wallet public key) — of the signer being saved, registered, respectively decoded from storage — and newWalletRegistry uses the loader's key unchanged as the cache key; " +
			"(3) the secondary lookup fields are computed the same way at registration and at reload: walletPublicKeyHash = bitcoin.PublicKeyHash(wallet public key), walletID = calculateWalletIdFunc(wallet public key); (4) walletCache is touched only under the registry mutex (the constructor owns the object before it is shared). " +
			"beacon group registry: RegisterGroup inserts the membership only after storage.save(membership) = nil, under groupKeyToString(signer.GroupPublicKeyBytes()) — the same key function LoadExistingGroups uses; UnregisterStaleGroups deletes only after storage.archive = nil for a group that is not the latest and that the chain reported stale; myGroups is touched only under the mutex, except in LoadExistingGroups, which is called exactly once, in beacon.Initialize, before any goroutine or subscription that can reach the registry exists.",
		NotDecided: "equality of key material after reload (C19's decoders), atomicity of the persistence layer (keep-common), duplicate registrations of the same member index (storage overwrites, memory appends).",
		Fn: func(r *Run) {
			r.Rule("C38.write-ahead", "cache mutation only after the storage call succeeded", 5)
			r.Rule("C38.keys", "save directory = registration cache key = load grouping key", 4)
			r.Rule("C38.lookups", "public key hash and wallet ID computed identically at registration and reload", 2)
			r.Rule("C38.lock", "registry caches only under the registry mutex", 10)
			r.Rule("C38.init-only", "LoadExistingGroups: single call before the registry is shared", 1)

			const key = `call:pkg/tbtc.getWalletStorageKey(P1.wallet.publicKey)`
			if fn := r.MustFn("C38.write-ahead", "pkg/tbtc", "walletRegistry.registerSigner"); fn != nil {
				n := 0
				EachInstr(fn, func(in ssa.Instruction) {
					switch x := in.(type) {
					case *ssa.MapUpdate:
						if Desc(x.Map) != "P0.walletCache" {
							return
						}
						n++
						r.Check("C38.write-ahead", FnName(fn)+"#cache-insert", in.Pos(), Facts(in.Block()), okOf(`pkg/tbtc\.walletStorage\.saveSigner`))
						r.Cond(Desc(x.Key) == key, "C38.keys", FnName(fn)+"#cache-key", in.Pos(), "cache key is getWalletStorageKey(signer.wallet.publicKey)")
					case *ssa.Store:
						if strings.HasSuffix(Desc(x.Addr), ".signers") && strings.Contains(Desc(x.Addr), "P0.walletCache[") {
							n++
							r.Check("C38.write-ahead", FnName(fn)+"#append-signer", in.Pos(), Facts(in.Block()), okOf(`pkg/tbtc\.walletStorage\.saveSigner`))
						}
					}
				})
				if n < 2 {
					r.Undecided("C38.write-ahead", FnName(fn), "cache mutations not found")
				}
				for _, c := range Sites(fn, `^pkg/tbtc\.walletStorage\.saveSigner$`, false) {
					r.Cond(Desc(c.Common().Args[1]) == "P1", "C38.write-ahead", FnName(fn)+"#saved-signer", c.Pos(), "the signer saved is the signer registered")
				}
			}
			if fn := r.MustFn("C38.keys", "pkg/tbtc", "walletStorage.saveSigner"); fn != nil {
				for _, c := range Sites(fn, `persistence\.ProtectedHandle\.Save$`, false) {
					a := c.Common().Args
					r.Cond(Desc(a[1]) == key && strings.Contains(Desc(a[2]), `"/membership_%v"`), "C38.keys", FnName(fn)+"#directory", c.Pos(), "saved under directory getWalletStorageKey(signer.wallet.publicKey), file /membership_<index>")
				}
				for _, p := range SuccessReturns(fn) {
					r.Check("C38.write-ahead", FnName(fn)+"#nil-only-after-save", p.Ret.Pos(), p.Facts, okOf(`github\.com/keep-network/keep-common/pkg/persistence\.ProtectedHandle\.Save`), okOf(`pkg/tbtc\.signer\.Marshal`))
				}
			}
			if fn := r.MustFn("C38.keys", "pkg/tbtc", "walletStorage.loadSigners"); fn != nil {
				n := 0
				for _, f := range WithClosures(fn) {
					EachInstr(f, func(in ssa.Instruction) {
						if mu, ok := in.(*ssa.MapUpdate); ok {
							n++
							r.Cond(re(`^call:pkg/tbtc\.getWalletStorageKey\(.*\.wallet\.publicKey\)$`).MatchString(Desc(mu.Key)), "C38.keys", FnName(f)+"#group-by-wallet-key", in.Pos(), "loaded signers are grouped by getWalletStorageKey(decoded signer's wallet public key): the same key function as at save and registration")
							r.Check("C38.keys", FnName(f)+"#decoded-ok", in.Pos(), Facts(in.Block()), okOf(`pkg/tbtc\.signer\.Unmarshal`), okOf(`[\w./-]*persistence\.DataDescriptor\.Content`))
						}
					})
				}
				if n == 0 {
					r.Undecided("C38.keys", FnName(fn), "grouping store not found")
				}
			}
			if fn := r.MustFn("C38.keys", "pkg/tbtc", "newWalletRegistry"); fn != nil {
				EachInstr(fn, func(in ssa.Instruction) {
					if mu, ok := in.(*ssa.MapUpdate); ok {
						r.Cond(re(`^next\(range\(call:pkg/tbtc\.walletStorage\.loadSigners\(.*\)\)\)#1$`).MatchString(Desc(mu.Key)), "C38.keys", FnName(fn)+"#cache-key", in.Pos(), "reload keeps the storage grouping key as the cache key")
					}
				})
			}
			// lookups
			for _, spec := range [][2]string{{"walletRegistry.registerSigner", `P1\.wallet\.publicKey`}, {"newWalletRegistry", `\{?next\(range\(.*\)\)#2\[const:0\]\.wallet\}?\.publicKey`}} {
				fn := r.MustFn("C38.lookups", "pkg/tbtc", spec[0])
				if fn == nil {
					continue
				}
				okH, okID := false, false
				EachInstr(fn, func(in ssa.Instruction) {
					st, ok := in.(*ssa.Store)
					if !ok {
						return
					}
					a, v := Desc(st.Addr), Desc(st.Val)
					if strings.HasSuffix(a, ".walletPublicKeyHash") && re(`^call:pkg/bitcoin\.PublicKeyHash\(`+spec[1]+`\)$`).MatchString(v) {
						okH = true
					}
					if strings.HasSuffix(a, ".walletID") && re(`^dyn:\w+(\.\w+)*\(`+spec[1]+`\)#0$`).MatchString(v) {
						okID = true
					}
				})
				r.Cond(okH && okID, "C38.lookups", FnName(fn)+"#secondary-keys", fn.Pos(), "walletPublicKeyHash = PublicKeyHash(wallet key), walletID = calculateWalletIdFunc(wallet key)")
			}
			if fn := r.MustFn("C38.write-ahead", "pkg/tbtc", "walletRegistry.archiveWallet"); fn != nil {
				n := 0
				for _, c := range Sites(fn, `^builtin:delete$`, false) {
					n++
					r.Check("C38.write-ahead", FnName(fn)+"#delete", c.Pos(), Facts(c.Block()), okOf(`pkg/tbtc\.walletStorage\.archiveWallet`))
					k := Desc(c.Common().Args[1])
					same := false
					for _, a := range Sites(fn, `^pkg/tbtc\.walletStorage\.archiveWallet$`, false) {
						if Desc(a.Common().Args[1]) == k {
							same = true
						}
					}
					r.Cond(same && strings.HasPrefix(k, "call:pkg/tbtc.getWalletStorageKey("), "C38.write-ahead", FnName(fn)+"#same-key", c.Pos(), "the deleted cache entry is the archived storage key")
				}
				if n != 1 {
					r.Undecided("C38.write-ahead", FnName(fn), "expected one cache deletion")
				}
			}
			r.FieldUnderLock("C38.lock", "pkg/tbtc", "walletRegistry", "walletCache", "mutex", nil)

			// beacon groups
			const rg = "pkg/beacon/registry"
			if fn := r.MustFn("C38.write-ahead", rg, "Groups.RegisterGroup"); fn != nil {
				EachInstr(fn, func(in ssa.Instruction) {
					if mu, ok := in.(*ssa.MapUpdate); ok && Desc(mu.Map) == "P0.myGroups" {
						r.Check("C38.write-ahead", FnName(fn)+"#insert", in.Pos(), Facts(in.Block()), okOf(`pkg/beacon/registry\.storage\.save`))
						r.Cond(Desc(mu.Key) == "call:pkg/beacon/registry.groupKeyToString(call:pkg/beacon/dkg.ThresholdSigner.GroupPublicKeyBytes(P1))", "C38.keys", FnName(fn)+"#key", in.Pos(), "group key = groupKeyToString(signer.GroupPublicKeyBytes())")
					}
				})
			}
			if fn := r.MustFn("C38.keys", rg, "Groups.LoadExistingGroups"); fn != nil {
				n := 0
				for _, f := range WithClosures(fn) {
					EachInstr(f, func(in ssa.Instruction) {
						if mu, ok := in.(*ssa.MapUpdate); ok && strings.HasSuffix(Desc(mu.Map), ".myGroups") || ok && strings.Contains(Desc(mu.Map), "myGroups") {
							n++
							r.Cond(re(`^call:pkg/beacon/registry\.groupKeyToString\(call:pkg/beacon/dkg\.ThresholdSigner\.GroupPublicKeyBytes\(.*\.Signer\)\)$`).MatchString(Desc(mu.Key)), "C38.keys", FnName(f)+"#key", in.Pos(), "reload uses the same key function")
						}
					})
				}
				if n == 0 {
					r.Undecided("C38.keys", FnName(fn), "reload insertion not found")
				}
			}
			if fn := r.MustFn("C38.write-ahead", rg, "Groups.UnregisterStaleGroups"); fn != nil {
				for _, c := range Sites(fn, `^builtin:delete$`, false) {
					r.Check("C38.write-ahead", FnName(fn)+"#delete", c.Pos(), Facts(c.Block()),
						okOf(`pkg/beacon/registry\.storage\.archive`), trueOf(`pkg/beacon/chain\.GroupRegistrationInterface\.IsStaleGroup`), okOf(`pkg/beacon/chain\.GroupRegistrationInterface\.IsStaleGroup`), falseOf(`bytes\.Equal`))
					r.Cond(Desc(c.Common().Args[1]) == "next(range(P0.myGroups))#1", "C38.write-ahead", FnName(fn)+"#same-group", c.Pos(), "deletes the group being visited")
				}
				for _, c := range Sites(fn, `^pkg/beacon/registry\.storage\.archive$`, false) {
					r.Cond(strings.Contains(Desc(c.Common().Args[1]), "next(range(P0.myGroups))#2[const:0]"), "C38.write-ahead", FnName(fn)+"#archived-group", c.Pos(), "archives the storage of the group being visited (its first membership's compressed key)")
				}
			}
			r.FieldUnderLock("C38.lock", rg, "Groups", "myGroups", "mutex", map[string]string{
				"pkg/beacon/registry.Groups.LoadExistingGroups":   "initialisation only (see C38.init-only)",
				"pkg/beacon/registry.Groups.LoadExistingGroups$1": "initialisation only (see C38.init-only)",
				"pkg/beacon/registry.Groups.printMemberships":     "called only from LoadExistingGroups",
			})
			// LoadExistingGroups: one call, before anything concurrent in its caller
			if le := r.W.Fn(rg, "Groups.LoadExistingGroups"); le != nil {
				sites := r.W.Callers(le)
				ok := len(sites) == 1
				why := ""
				if ok {
					caller := sites[0].Parent()
					EachInstr(caller, func(in ssa.Instruction) {
						switch in.(type) {
						case *ssa.Go:
							if !InstrBefore(sites[0].(ssa.Instruction), in) {
								ok, why = false, "a goroutine may start before the load"
							}
						case ssa.CallInstruction:
							c := in.(ssa.CallInstruction)
							if strings.Contains(CalleeName(c), ".On") && c.Common().IsInvoke() && !InstrBefore(sites[0].(ssa.Instruction), in) {
								ok, why = false, "a chain subscription may deliver before the load"
							}
						}
					})
					if FnName(caller) != "pkg/beacon.Initialize" {
						ok, why = false, "unexpected caller "+FnName(caller)
					}
				}
				if pm := r.W.Fn(rg, "Groups.printMemberships"); pm != nil {
					for _, s := range r.W.Callers(pm) {
						top := s.Parent()
						for top.Parent() != nil {
							top = top.Parent()
						}
						if top != le {
							ok, why = false, "printMemberships has another caller"
						}
					}
				}
				r.Cond(ok, "C38.init-only", FnName(le), le.Pos(), "called exactly once, in beacon.Initialize, before any goroutine or subscription is created; "+why)
			}
		},
	})
	witness(Witness{Prop: "C38", Name: "cache-before-save", File: "pkg/tbtc/registry.go",
		Old: "\terr := wr.walletStorage.saveSigner(signer)\n\tif err != nil {\n\t\treturn fmt.Errorf(\"cannot save signer in the storage: [%w]\", err)\n\t}\n\n\twalletStorageKey := getWalletStorageKey(signer.wallet.publicKey)\n",
		New: "\twalletStorageKey := getWalletStorageKey(signer.wallet.publicKey)\n\tdefer func() { _ = wr.walletStorage.saveSigner(signer) }()\n", Rule: "C38.write-ahead"})
	witness(Witness{Prop: "C38", Name: "delete-before-archive", File: "pkg/beacon/registry/groups.go",
		Old: "\t\t\t\tif err != nil {\n\t\t\t\t\tg.logger.Errorf(\"failed to archive group with compressed public key [%s]: [%v]\",\n\t\t\t\t\t\thex.EncodeToString(compressedPublicKey),\n\t\t\t\t\t\terr,\n\t\t\t\t\t)\n\t\t\t\t\tcontinue\n\t\t\t\t}",
		New: "\t\t\t\tif err != nil {\n\t\t\t\t\tg.logger.Errorf(\"failed to archive group with compressed public key [%s]: [%v]\",\n\t\t\t\t\t\thex.EncodeToString(compressedPublicKey),\n\t\t\t\t\t\terr,\n\t\t\t\t\t)\n\t\t\t\t}", Rule: "C38.write-ahead"})
	witness(Witness{Prop: "C38", Name: "lookup-without-lock", File: "pkg/tbtc/registry.go",
		Old: "func (wr *walletRegistry) getWalletByID(walletID [32]byte) (wallet, bool) {\n\twr.mutex.Lock()\n\tdefer wr.mutex.Unlock()\n", New: "func (wr *walletRegistry) getWalletByID(walletID [32]byte) (wallet, bool) {\n", Rule: "C38.lock"})
}
