package main

import (
	"strings"

	"golang.org/x/tools/go/ssa"
)

func init() {
	register(&Prop{
		ID:        "C34",
		Technique: "static analysis: dominator guard facts on every return of the lookup and the sync check, provenance of the returned UTXO's fields, CFG reachability from the 'already produced a transaction' branches (go/ssa)",
		Explanation: "tbtc.DetermineWalletMainUtxo returns a UTXO only when the bridge's wallet record was read without error, its MainUtxoHash is not the zero hash, the output's script equals the wallet's P2PKH or P2WPKH script (both built from the wallet public key hash argument), and bridgeChain.ComputeMainUtxoHash(utxo) equals the registered hash — for a UTXO assembled from that very output (transaction.Hash(), its position, its value); it returns (nil, nil) exactly under MainUtxoHash = zero hash; every other exit is an error. " +
			"EnsureWalletSyncedBetweenChains: with a main UTXO it returns nil only under equality of transaction hash, output index and value with one of the confirmed UTXOs of the wallet (error-free query); without one it returns nil only when the wallet has no confirmed or mempool UTXO at all, or after visiting every UTXO, where each first-output UTXO's funding input was looked up without error in the deposit and moved-funds-sweep request registries and found in neither (a found request leads to an error return from which no nil return is reachable).",
		NotDecided: "that the transaction history returned by the Bitcoin client is complete and ordered; that an output index 0 check is the right heuristic for 'own sweep transaction'; hash function behaviour.",
		Fn: func(r *Run) {
			r.Rule("C34.lookup", "UTXO returned ⇐ registered hash ≠ 0 ∧ wallet script ∧ hash match; (nil,nil) ⇔ hash = 0", 3)
			r.Rule("C34.utxo-fields", "the returned UTXO is built from the matched output", 3)
			r.Rule("C34.sync", "sync check passes only under the stated conditions", 5)
			if fn := r.MustFn("C34.lookup", "pkg/tbtc", "DetermineWalletMainUtxo"); fn != nil {
				const wd = `invoke:pkg/tbtc\.BridgeChain\.GetWallet\(P1, P0\)`
				nU, nNil := 0, 0
				for _, p := range SuccessReturns(fn) {
					v := RetResults(p.Ret)[0]
					if isNilConst(v) {
						nNil++
						r.Check("C34.lookup", FnName(fn)+"#return-none", p.Ret.Pos(), p.Facts, okOf(`pkg/tbtc\.BridgeChain\.GetWallet`), `^\+\(`+wd+`#0\.MainUtxoHash == .*zero.*\)$|^\+\(.*zero.* == `+wd+`#0\.MainUtxoHash\)$|^\+\(`+wd+`#0\.MainUtxoHash == [^)]*\)$`)
						continue
					}
					nU++
					r.Check("C34.lookup", FnName(fn)+"#return-utxo", p.Ret.Pos(), p.Facts,
						okOf(`pkg/tbtc\.BridgeChain\.GetWallet`), okOf(`pkg/bitcoin\.Chain\.GetTxHashesForPublicKeyHash`), okOf(`pkg/bitcoin\.Chain\.GetTransaction`),
						okOf(`pkg/bitcoin\.PayToPublicKeyHash`), okOf(`pkg/bitcoin\.PayToWitnessPublicKeyHash`),
						`^\+\(.*ComputeMainUtxoHash\(.*\) == `+wd+`#0\.MainUtxoHash\)$|^\+\(`+wd+`#0\.MainUtxoHash == .*ComputeMainUtxoHash\(.*\)\)$`,
						`^-\(`+wd+`#0\.MainUtxoHash == [^)]*\)$`)
					// script match: the guard is the OR of two bytes.Equal against the wallet scripts
					okScript := false
					for _, g := range RawGuards(p.Ret.Block()) {
						phi, isPhi := g.Cond.(*ssa.Phi)
						if !isPhi || !g.Pol {
							continue
						}
						n := 0
						okAll := true
						for _, e := range phi.Edges {
							if cb, isC := constBool(e); isC {
								if !cb {
									okAll = false
								}
								continue
							}
							n++
							if !re(`^call:bytes\.Equal\(.*\.PublicKeyScript, call:pkg/bitcoin\.PayToWitnessPublicKeyHash\(P0\)#0\)$`).MatchString(Desc(e)) {
								okAll = false
							}
						}
						// the constant-true edge is taken when the first comparison (P2PKH) held
						for i, e := range phi.Edges {
							if cb, isC := constBool(e); isC && cb {
								if !HasFact(EdgeFacts(phi.Block().Preds[i], phi.Block()), `^\+call:bytes\.Equal\(.*\.PublicKeyScript, call:pkg/bitcoin\.PayToPublicKeyHash\(P0\)#0\)$`) {
									okAll = false
								}
							}
						}
						if okAll && n == 1 {
							okScript = true
						}
					}
					r.Cond(okScript, "C34.lookup", FnName(fn)+"#wallet-script", p.Ret.Pos(), "the output's script equals the wallet's P2PKH or P2WPKH script derived from the wallet public key hash")
					// fields of the returned utxo
					al, _ := v.(*ssa.Alloc)
					if al == nil {
						r.Fail("C34.utxo-fields", FnName(fn)+"#utxo", p.Ret.Pos(), "returned UTXO is not a fresh literal", nil, nil)
						continue
					}
					fields := map[string]string{}
					var walk func(a ssa.Value, prefix string)
					walk = func(a ssa.Value, prefix string) {
						if a.Referrers() == nil {
							return
						}
						for _, ref := range *a.Referrers() {
							if fa, ok := ref.(*ssa.FieldAddr); ok {
								name := prefix + fieldName(fa.X.Type(), fa.Field)
								for _, r2 := range *fa.Referrers() {
									if st, ok := r2.(*ssa.Store); ok && st.Addr == fa {
										fields[name] = Desc(st.Val)
										if inner, ok := st.Val.(*ssa.Alloc); ok {
											walk(inner, name+".")
										}
									}
								}
							}
						}
					}
					walk(al, "")
					tx := `invoke:pkg/bitcoin\.Chain\.GetTransaction\(P2, .*\)#0`
					r.Cond(re(`^call:pkg/bitcoin\.Transaction\.Hash\(`+tx+`\)$`).MatchString(fields["Outpoint.TransactionHash"]), "C34.utxo-fields", FnName(fn)+"#TransactionHash", p.Ret.Pos(), "hash of the transaction that holds the matched output; got "+abbr(fields["Outpoint.TransactionHash"], 1))
					r.Cond(strings.HasPrefix(fields["Outpoint.OutputIndex"], "conv:uint32(") && strings.Contains(fields["Outpoint.OutputIndex"], "phi"), "C34.utxo-fields", FnName(fn)+"#OutputIndex", p.Ret.Pos(), "position of the matched output in that transaction; got "+abbr(fields["Outpoint.OutputIndex"], 1))
					r.Cond(re(`^`+tx+`\.Outputs\[.*\]\.Value$`).MatchString(fields["Value"]), "C34.utxo-fields", FnName(fn)+"#Value", p.Ret.Pos(), "value of the matched output; got "+abbr(fields["Value"], 1))
				}
				if nU != 1 || nNil != 1 {
					r.Undecided("C34.lookup", FnName(fn), "expected one UTXO return and one (nil, nil) return")
				}
			}
			if fn := r.MustFn("C34.sync", "pkg/tbtc", "EnsureWalletSyncedBetweenChains"); fn != nil {
				n := 0
				for _, b := range fn.Blocks {
					ret, ok := b.Instrs[len(b.Instrs)-1].(*ssa.Return)
					if !ok || !isNilConst(RetResults(ret)[0]) {
						continue
					}
					n++
					facts := ImpliedFacts(b, 1)
					switch {
					case HasFact(facts, `^-\(P1 == nil\)$`):
						r.Check("C34.sync", FnName(fn)+"#pass-with-main-utxo", ret.Pos(), facts, okOf(`pkg/bitcoin\.Chain\.GetUtxosForPublicKeyHash`),
							`^\+\(.*P1\.Outpoint\.TransactionHash.* == .*\)$|^\+\(.* == .*P1\.Outpoint\.TransactionHash.*\)$`,
							`^\+\(.*P1\.Outpoint\.OutputIndex.* == .*\)$|^\+\(.* == .*P1\.Outpoint\.OutputIndex.*\)$`,
							`^\+\(.*P1\.Value.* == .*\)$|^\+\(.* == .*P1\.Value.*\)$`)
					case HasFact(facts, `^\+\(const:0 == len\(.*\)\)$|^\+\(len\(.*\) == const:0\)$`):
						r.Check("C34.sync", FnName(fn)+"#pass-no-utxos", ret.Pos(), facts, `^\+\(P1 == nil\)$`, okOf(`pkg/bitcoin\.Chain\.GetUtxosForPublicKeyHash`), okOf(`pkg/bitcoin\.Chain\.GetMempoolUtxosForPublicKeyHash`))
					default:
						r.Check("C34.sync", FnName(fn)+"#pass-after-scan", ret.Pos(), facts, `^\+\(P1 == nil\)$`, okOf(`pkg/bitcoin\.Chain\.GetUtxosForPublicKeyHash`), okOf(`pkg/bitcoin\.Chain\.GetMempoolUtxosForPublicKeyHash`))
						// reached only by leaving the scan loop over all UTXOs
						r.Cond(HasFact(facts, `^\+\(len\(.*\) <= .*\)$`), "C34.sync", FnName(fn)+"#scan-complete", ret.Pos(), "the fresh-wallet pass is reached only when the scan visited every UTXO")
						r.NoPathFromBranch("C34.sync", fn, `^\+invoke:pkg/tbtc\.BridgeChain\.GetDepositRequest\(.*\)#1$`, 1, ret, "pass/after-deposit-found")
						r.NoPathFromBranch("C34.sync", fn, `^\+invoke:pkg/tbtc\.BridgeChain\.GetMovedFundsSweepRequest\(.*\)#1$`, 1, ret, "pass/after-sweep-request-found")
					}
				}
				if n != 3 {
					r.Undecided("C34.sync", FnName(fn), "expected three passing exits")
				}
				// the registries are asked about the funding input of the UTXO's own transaction
				for _, c := range Sites(fn, `^invoke:pkg/tbtc\.BridgeChain\.(GetDepositRequest|GetMovedFundsSweepRequest)$`, false) {
					a := c.Common().Args
					ok := strings.Contains(Desc(a[0]), "GetTransaction(") && strings.Contains(Desc(a[0]), ".Inputs[const:0]") && strings.Contains(Desc(a[1]), ".Inputs[const:0]")
					r.Cond(ok, "C34.sync", FnName(fn)+"#"+shortCallee(c)+"/funding-input", c.Pos(), "looked up by the outpoint spent by input 0 of the UTXO's transaction")
				}
			}
		},
	})
	witness(Witness{Prop: "C34", Name: "accept-any-wallet-output", File: "pkg/tbtc/wallet.go",
		Old: "\t\t\t\tif bridgeChain.ComputeMainUtxoHash(utxo) ==\n\t\t\t\t\twalletChainData.MainUtxoHash {", New: "\t\t\t\tif bridgeChain.ComputeMainUtxoHash(utxo) ==\n\t\t\t\t\twalletChainData.MainUtxoHash || outputIndex == 0 {", Rule: "C34.lookup"})
	witness(Witness{Prop: "C34", Name: "sync-ignores-value", File: "pkg/tbtc/wallet.go",
		Old: "\t\t\t\twalletMainUtxo.Outpoint.OutputIndex == utxo.Outpoint.OutputIndex &&\n\t\t\t\twalletMainUtxo.Value == utxo.Value {", New: "\t\t\t\twalletMainUtxo.Outpoint.OutputIndex == utxo.Outpoint.OutputIndex {", Rule: "C34.sync"})
	witness(Witness{Prop: "C34", Name: "sweep-found-not-fatal", File: "pkg/tbtc/wallet.go",
		Old: "\t\t\tif isDeposit {\n", New: "\t\t\tif isDeposit && len(allUtxos) > 1000 {\n", Rule: "C34.sync"})
}
