package main

import (
	"fmt"
	"os"
	"path/filepath"
	"regexp"
	"strings"
)

// A purpose-built reader for the parts of the Solidity sources the XLANG rules
// need: integer constants, struct declarations, function signatures, local
// variable declarations and the argument lists of keccak256(abi.encode(…)).
// It works on the comment-stripped token text of the current files under
// /repo/solidity; anything it cannot resolve is reported as undecided by the
// rule using it (never guessed).

type solField struct{ Type, Name string }

type solHash struct {
	Encoder string   // "abi.encode", "abi.encodePacked" or "" (raw bytes hashed)
	Args    []string // argument expressions, whitespace-normalised
	Types   []string // resolved Solidity types ("?" when unresolved)
	Line    int
	Prefix  bool // followed by .toEthSignedMessageHash()
}

type solFunc struct {
	Name   string
	Params []solField
	Locals map[string]string
	Body   string
	Line   int
	Hashes []solHash
}

type solFile struct {
	Path    string
	Consts  map[string]string
	Structs map[string][]solField
	Funcs   map[string]*solFunc
}

var solCache = map[string]*solFile{}

func stripSolComments(s string) string {
	var b strings.Builder
	for i := 0; i < len(s); {
		switch {
		case strings.HasPrefix(s[i:], "//"):
			for i < len(s) && s[i] != '\n' {
				i++
			}
		case strings.HasPrefix(s[i:], "/*"):
			for i < len(s) && !strings.HasPrefix(s[i:], "*/") {
				if s[i] == '\n' {
					b.WriteByte('\n')
				}
				i++
			}
			i += 2
		case s[i] == '"':
			b.WriteByte(s[i])
			i++
			for i < len(s) && s[i] != '"' {
				if s[i] == '\\' {
					i++
				}
				b.WriteByte('_')
				i++
			}
			if i < len(s) {
				b.WriteByte('"')
				i++
			}
		default:
			b.WriteByte(s[i])
			i++
		}
	}
	return b.String()
}

// balanced returns the index just past the bracket closing the one at s[open].
func balanced(s string, open int) int {
	depth := 0
	for i := open; i < len(s); i++ {
		switch s[i] {
		case '(', '{', '[':
			depth++
		case ')', '}', ']':
			depth--
			if depth == 0 {
				return i + 1
			}
		}
	}
	return -1
}

func splitTop(s string) []string {
	var out []string
	depth, start := 0, 0
	for i := 0; i < len(s); i++ {
		switch s[i] {
		case '(', '{', '[':
			depth++
		case ')', '}', ']':
			depth--
		case ',':
			if depth == 0 {
				out = append(out, s[start:i])
				start = i + 1
			}
		}
	}
	if strings.TrimSpace(s[start:]) != "" {
		out = append(out, s[start:])
	}
	return out
}

var solSpace = regexp.MustCompile(`\s+`)

func solNorm(s string) string { return strings.TrimSpace(solSpace.ReplaceAllString(s, " ")) }

func parseSolDecl(s string) (solField, bool) {
	toks := strings.Fields(solNorm(s))
	var keep []string
	for _, t := range toks {
		switch t {
		case "calldata", "memory", "storage", "public", "internal", "private", "payable", "indexed":
		default:
			keep = append(keep, t)
		}
	}
	if len(keep) != 2 {
		return solField{}, false
	}
	return solField{Type: keep[0], Name: keep[1]}, true
}

func lineOf(s string, off int) int { return 1 + strings.Count(s[:off], "\n") }

// LoadSol reads and indexes one Solidity file (path relative to the repository).
func LoadSol(w *World, rel string) (*solFile, error) {
	p := filepath.Join(w.Repo, rel)
	edited, over := w.Overlay[p]
	if f, ok := solCache[p]; ok && !over {
		return f, nil
	}
	raw := edited
	if !over {
		var err error
		if raw, err = os.ReadFile(p); err != nil {
			return nil, err
		}
	}
	src := stripSolComments(string(raw))
	f := &solFile{Path: rel, Consts: map[string]string{}, Structs: map[string][]solField{}, Funcs: map[string]*solFunc{}}
	for _, m := range regexp.MustCompile(`\bconstant\s+(\w+)\s*=\s*([^;]+);`).FindAllStringSubmatch(src, -1) {
		f.Consts[m[1]] = solNorm(m[2])
	}
	for _, m := range regexp.MustCompile(`\bstruct\s+(\w+)\s*\{`).FindAllStringSubmatchIndex(src, -1) {
		name := src[m[2]:m[3]]
		end := balanced(src, m[1]-1)
		if end < 0 {
			return nil, fmt.Errorf("%s: unbalanced struct %s", rel, name)
		}
		for _, d := range strings.Split(src[m[1]:end-1], ";") {
			if strings.TrimSpace(d) == "" {
				continue
			}
			fd, ok := parseSolDecl(d)
			if !ok {
				fd = solField{Type: "?", Name: solNorm(d)}
			}
			f.Structs[name] = append(f.Structs[name], fd)
		}
	}
	for _, m := range regexp.MustCompile(`\bfunction\s+(\w+)\s*\(`).FindAllStringSubmatchIndex(src, -1) {
		fn := &solFunc{Name: src[m[2]:m[3]], Locals: map[string]string{}, Line: lineOf(src, m[0])}
		pend := balanced(src, m[1]-1)
		if pend < 0 {
			return nil, fmt.Errorf("%s: unbalanced parameter list of %s", rel, fn.Name)
		}
		for _, p := range splitTop(src[m[1] : pend-1]) {
			if fd, ok := parseSolDecl(p); ok {
				fn.Params = append(fn.Params, fd)
			}
		}
		// body: the first '{' before any ';' at this level
		i := pend
		for i < len(src) && src[i] != '{' && src[i] != ';' {
			if src[i] == '(' {
				i = balanced(src, i)
				continue
			}
			i++
		}
		if i < len(src) && src[i] == '{' {
			bend := balanced(src, i)
			if bend < 0 {
				return nil, fmt.Errorf("%s: unbalanced body of %s", rel, fn.Name)
			}
			fn.Body = src[i:bend]
			bodyOff := i
			for _, lm := range regexp.MustCompile(`(?:^|[;{}]\s*|\(\s*)((?:\w+\.)?\w+(?:\[\])*)\s+(?:(?:memory|calldata|storage)\s+)?(\w+)\s*(?:=[^=]|;)`).FindAllStringSubmatch(fn.Body, -1) {
				switch lm[1] {
				case "return", "emit", "delete", "new", "else", "returns":
					continue
				}
				fn.Locals[lm[2]] = lm[1]
			}
			for _, hm := range regexp.MustCompile(`\bkeccak256\s*\(`).FindAllStringIndex(fn.Body, -1) {
				end := balanced(fn.Body, hm[1]-1)
				if end < 0 {
					continue
				}
				inner := strings.TrimSpace(fn.Body[hm[1] : end-1])
				h := solHash{Line: lineOf(src, bodyOff+hm[0])}
				h.Prefix = strings.HasPrefix(strings.TrimSpace(fn.Body[end:]), ".toEthSignedMessageHash()")
				if em := regexp.MustCompile(`^(abi\.encode(?:Packed)?)\s*\(`).FindStringSubmatchIndex(inner); em != nil {
					h.Encoder = inner[em[2]:em[3]]
					aend := balanced(inner, em[1]-1)
					if aend != len(inner) {
						h.Encoder = "?"
					} else {
						for _, a := range splitTop(inner[em[1] : aend-1]) {
							h.Args = append(h.Args, solNorm(a))
						}
					}
				} else {
					h.Args = []string{solNorm(inner)}
				}
				fn.Hashes = append(fn.Hashes, h)
			}
		}
		// overloaded names: keep the first with a body
		if old, dup := f.Funcs[fn.Name]; !dup || old.Body == "" {
			f.Funcs[fn.Name] = fn
		}
	}
	if !over {
		solCache[p] = f
	}
	return f, nil
}

// solTypeOf resolves the static type of a (simple) expression inside fn:
// block.chainid, a parameter/local, or a field path through known structs.
func solTypeOf(files []*solFile, fn *solFunc, expr string) string {
	expr = strings.TrimSpace(expr)
	if expr == "block.chainid" || expr == "block.number" || expr == "block.timestamp" {
		return "uint256"
	}
	parts := strings.Split(expr, ".")
	if !regexp.MustCompile(`^\w+(\.\w+)*$`).MatchString(expr) {
		return "?"
	}
	t := ""
	for _, p := range fn.Params {
		if p.Name == parts[0] {
			t = p.Type
		}
	}
	if lt, ok := fn.Locals[parts[0]]; ok && t == "" {
		t = lt
	}
	if t == "" {
		return "?"
	}
	for _, fld := range parts[1:] {
		sname := t
		if i := strings.LastIndex(sname, "."); i >= 0 {
			sname = sname[i+1:]
		}
		next := ""
		for _, f := range files {
			for _, sf := range f.Structs[sname] {
				if sf.Name == fld {
					next = sf.Type
				}
			}
		}
		if next == "" {
			return "?"
		}
		t = next
	}
	return t
}

func (fn *solFunc) resolve(files []*solFile) {
	for i := range fn.Hashes {
		h := &fn.Hashes[i]
		h.Types = nil
		for _, a := range h.Args {
			h.Types = append(h.Types, solTypeOf(files, fn, a))
		}
	}
}
