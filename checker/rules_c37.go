package main

import (
	"fmt"
	"go/token"
	"go/types"
	"strings"

	"golang.org/x/tools/go/ssa"
)

const timeCache = "github.com/keep-network/keep-common/pkg/cache.TimeCache."

// keyComponents flattens a string built by + into its operands, left to right.
func keyComponents(v ssa.Value, out *[]ssa.Value, d int) {
	if b, ok := v.(*ssa.BinOp); ok && b.Op == token.ADD && d > 0 {
		if bt, ok := b.Type().Underlying().(*types.Basic); ok && bt.Info()&types.IsString != 0 {
			keyComponents(b.X, out, d-1)
			keyComponents(b.Y, out, d-1)
			return
		}
	}
	*out = append(*out, v)
}

// componentClass: "fixed" (width known statically), "var:<alphabet>" (variable
// width over an alphabet), "sep" (constant containing a character outside
// [0-9a-zA-Z]), "const" (other constant), "unknown".
func componentClass(v ssa.Value) string {
	switch x := v.(type) {
	case *ssa.Const:
		if x.Value == nil {
			return "unknown"
		}
		s := x.Value.ExactString()
		s = strings.Trim(s, `"`)
		for _, ch := range s {
			if !(ch >= '0' && ch <= '9' || ch >= 'a' && ch <= 'z' || ch >= 'A' && ch <= 'Z') {
				return "sep"
			}
		}
		return "const"
	case *ssa.Call:
		switch CalleeName(x) {
		case "math/big.Int.Text", "math/big.Int.String":
			return "var:alnum"
		case "strconv.Itoa", "strconv.FormatInt", "strconv.FormatUint":
			if len(x.Call.Args) > 0 && lossyProjection(x.Call.Args[0], 4) {
				return "lossy"
			}
			return "var:alnum"
		case "encoding/hex.EncodeToString":
			// hex of a slice of a fixed-size array has a fixed width
			if sl, ok := x.Call.Args[0].(*ssa.Slice); ok && sl.Low == nil && sl.High == nil {
				t := sl.X.Type()
				if p, ok := t.Underlying().(*types.Pointer); ok {
					t = p.Elem()
				}
				if _, isArr := t.Underlying().(*types.Array); isArr {
					return "fixed"
				}
			}
			return "var:alnum"
		}
	}
	return "unknown"
}

// keyAmbiguity returns "" when the concatenation is injective in its
// components, else a description of the ambiguity.
func keyAmbiguity(key ssa.Value) (string, []string) {
	// a key that is the digest of successive Write calls is the digest of the
	// concatenation of the written byte strings: components of arbitrary bytes
	// cannot be delimited by separators, so at most one may have variable width
	if c, ok := key.(*ssa.Call); ok && CalleeName(c) == "encoding/hex.EncodeToString" {
		if sum, ok := c.Call.Args[0].(*ssa.Call); ok && sum.Call.IsInvoke() && sum.Call.Method.Name() == "Sum" {
			h := sum.Call.Value
			var classes []string
			nvar := 0
			EachInstr(c.Parent(), func(in ssa.Instruction) {
				w, ok := in.(*ssa.Call)
				if !ok || !w.Call.IsInvoke() || w.Call.Method.Name() != "Write" || w.Call.Value != h || len(w.Call.Args) != 1 {
					return
				}
				cl := "var:bytes"
				if sl, ok := w.Call.Args[0].(*ssa.Slice); ok && sl.Low == nil && sl.High == nil {
					if p, ok := sl.X.Type().Underlying().(*types.Pointer); ok {
						if _, isArr := p.Elem().Underlying().(*types.Array); isArr {
							cl = "fixed"
						}
					}
				}
				if cl != "fixed" {
					nvar++
				}
				classes = append(classes, cl)
			})
			if nvar > 1 {
				return "the key is the digest of several variable-width byte strings written back to back with no length prefix: the boundary between them is not part of the digest", classes
			}
			return "", append([]string{"digest of:"}, classes...)
		}
	}
	var comps []ssa.Value
	keyComponents(key, &comps, 12)
	var classes []string
	for _, c := range comps {
		classes = append(classes, componentClass(c))
	}
	open := false // a variable-width component seen with no separator after it
	nvar := 0
	for _, cl := range classes {
		switch {
		case cl == "lossy":
			return "a key component is rendered from a truncated value (big.Int.Uint64/Int64 or a narrowing conversion): values that differ only in the dropped bits share a key", classes
		case cl == "sep":
			open = false
		case strings.HasPrefix(cl, "var:") || cl == "unknown":
			nvar++
			if open {
				return "two variable-width components over overlapping alphabets are concatenated without a separator outside their alphabets", classes
			}
			open = true
		}
	}
	return "", classes
}

// lossyProjection: v is (a conversion of) a value obtained by dropping
// information from a wider one: big.Int.Uint64 / Int64, or a narrowing integer
// conversion.
func lossyProjection(v ssa.Value, depth int) bool {
	if depth == 0 {
		return false
	}
	switch x := v.(type) {
	case *ssa.Call:
		switch CalleeName(x) {
		case "math/big.Int.Uint64", "math/big.Int.Int64":
			return true
		}
	case *ssa.Convert:
		sb, ok1 := intSize(x.X.Type())
		db, ok2 := intSize(x.Type())
		if ok1 && ok2 && db < sb {
			return true
		}
		return lossyProjection(x.X, depth-1)
	case *ssa.ChangeType:
		return lossyProjection(x.X, depth-1)
	}
	return false
}

func init() {
	register(&Prop{
		ID:        "C37",
		Technique: "static analysis: test-and-set atomicity (verdict must be the result of the cache's own atomic Add, or Has+Add under one lock), injectivity classes of concatenated cache keys, use of the verdict at call sites (go/ssa)",
		Explanation: "Module-wide, for every function returning a bool verdict that consults a keep-common TimeCache (the event deduplicators of pkg/tbtc and pkg/beacon/event): a `true` verdict must be the result of TimeCache.Add itself (Add tests and inserts under the cache's own mutex and reports whether the key was new), or the Has/Add pair must lie in one critical section of a mutex of the deduplicator; a Has whose outcome guards a separate Add lets two concurrent deliveries of the same event both pass (the callers run each delivery in its own goroutine). " +
			"Every cache key built by string concatenation is injective: at most one variable-width component between separators that lie outside the components' alphabets (big.Int.Text / strconv.Itoa are variable width, hex of a fixed-size array is fixed width). " +
			"At every call site the verdict is branched on.",
		NotDecided: "expiry timing of the cache (the caching period); events that differ only in fields that are not part of the key by design; deliveries separated by more than the caching period.",
		Fn: func(r *Run) {
			r.Rule("C37.test-and-set", "a 'proceed' verdict is the atomic Add's own result (or Has+Add under one lock)", 4)
			r.Rule("C37.key", "concatenated cache keys are injective", 4)
			r.Rule("C37.verdict-used", "call sites branch on the verdict", 4)
			var scoped []*ssa.Function
			for _, fn := range r.W.AllFuncs {
				res := fn.Signature.Results()
				if res.Len() == 0 || fn.Parent() != nil {
					continue
				}
				if b, ok := res.At(0).Type().Underlying().(*types.Basic); !ok || b.Kind() != types.Bool {
					continue
				}
				if len(CallsMatching(fn, `^`+q(timeCache)+`(Has|Add)$`)) == 0 {
					continue
				}
				scoped = append(scoped, fn)
			}
			for _, fn := range scoped {
				adds := CallsMatching(fn, `^`+q(timeCache)+`Add$`)
				held := LocksHeld(fn)
				for _, p := range ReturnPaths(fn, 0, func(v ssa.Value) bool { cb, isc := constBool(v); return !isc || cb }) {
					construct := FnName(fn) + "#proceed"
					v := p.Val
					// (a) the verdict is Add's own result
					if c, ok := v.(*ssa.Call); ok && CalleeName(c) == timeCache+"Add" {
						r.Ok("C37.test-and-set", construct, p.Ret.Pos(), "verdict is TimeCache.Add's own result")
						continue
					}
					byAdd := false
					for _, a := range adds {
						if cv := callValue(a); cv != nil {
							for _, g := range Guards(p.Ret.Block()) {
								if g.Cond == cv && g.Pol {
									byAdd = true
								}
							}
						}
					}
					if byAdd {
						r.Ok("C37.test-and-set", construct, p.Ret.Pos(), "verdict guarded by TimeCache.Add returning true")
						continue
					}
					// (b) Has and Add inside one critical section
					var hasCalls []ssa.CallInstruction
					for _, g := range Guards(p.Ret.Block()) {
						if c, ok := g.Cond.(*ssa.Call); ok && CalleeName(c) == timeCache+"Has" {
							hasCalls = append(hasCalls, c)
						}
					}
					locked := len(hasCalls) > 0
					for _, h := range hasCalls {
						hl := held[h.(ssa.Instruction)]
						found := false
						for _, a := range adds {
							if Desc(a.Common().Args[0]) != Desc(h.Common().Args[0]) {
								continue
							}
							for _, l := range held[a.(ssa.Instruction)] {
								for _, l2 := range hl {
									if l == l2 {
										found = true
									}
								}
							}
						}
						if !found {
							locked = false
						}
					}
					if locked {
						r.Ok("C37.test-and-set", construct, p.Ret.Pos(), "Has and Add lie in one critical section")
						continue
					}
					what := "the verdict does not come from an atomic test-and-set"
					if len(hasCalls) > 0 {
						what = "Has(key) guards a separate Add(key) with no lock held across them: two concurrent deliveries of the same event can both see Has = false and both proceed"
					}
					r.Fail("C37.test-and-set", construct, p.Ret.Pos(), what, []string{"return cache.Add(key)"}, nil)
				}
				for _, a := range adds {
					key := a.Common().Args[1]
					amb, classes := keyAmbiguity(key)
					if amb == "" {
						r.Ok("C37.key", FnName(fn)+"#key", a.Pos(), "components: "+strings.Join(classes, " ‖ "))
					} else {
						r.Fail("C37.key", FnName(fn)+"#key", a.Pos(), amb+" ("+strings.Join(classes, " ‖ ")+"): two different events can produce the same key", nil, nil)
					}
				}
				// Has must ask about the same key that Add inserts
				for _, h := range CallsMatching(fn, `^`+q(timeCache)+`Has$`) {
					ok := false
					for _, a := range adds {
						if Desc(a.Common().Args[0]) == Desc(h.Common().Args[0]) && a.Common().Args[1] == h.Common().Args[1] {
							ok = true
						}
					}
					r.Cond(ok || len(adds) == 0, "C37.key", FnName(fn)+"#has-key", h.Pos(), "Has and Add use the same cache and key value")
				}
				// call sites
				for _, site := range r.W.Callers(fn) {
					cv := callValue(site)
					if cv == nil {
						r.Fail("C37.verdict-used", FnName(site.Parent())+"#"+shortCallee(site), site.Pos(), "verdict discarded (go/defer)", nil, nil)
						continue
					}
					used := false
					var check func(v ssa.Value, d int)
					check = func(v ssa.Value, d int) {
						if d == 0 || v.Referrers() == nil {
							return
						}
						for _, ref := range *v.Referrers() {
							switch x := ref.(type) {
							case *ssa.If:
								used = true
							case *ssa.Extract:
								if x.Index == 0 {
									check(x, d-1)
								}
							case *ssa.UnOp:
								check(x, d-1)
							case *ssa.Phi:
								check(x, d-1)
							case *ssa.Return:
								used = true // forwarded verdict
							}
						}
					}
					check(cv, 4)
					// every non-logging call of the caller other than the verdict call itself
					// must be reachable only under verdict = true
					unguarded := ""
					EachInstr(site.Parent(), func(in ssa.Instruction) {
						c, ok := in.(ssa.CallInstruction)
						if !ok || in == site.(ssa.Instruction) || unguarded != "" {
							return
						}
						n := CalleeName(c)
						if strings.Contains(n, "go-log") || strings.Contains(n, "zap.SugaredLogger.") || strings.HasPrefix(n, "fmt.") || strings.HasPrefix(n, "builtin:") {
							return
						}
						if in.Block() == site.Block() && InstrBefore(in, site.(ssa.Instruction)) {
							return
						}
						for _, g := range Guards(in.Block()) {
							if g.Cond == cv && g.Pol {
								return
							}
						}
						unguarded = shortCallee(c) + " at " + r.W.Pos(in.Pos())
					})
					r.Cond(used && unguarded == "", "C37.verdict-used", FnName(site.Parent())+"#"+shortCallee(site), site.Pos(),
						"the caller branches on the verdict and does all further work only under verdict = true; unguarded: "+unguarded)
				}
			}
			// each cache field gets its own cache: keys carry no event-type tag, so two
			// event kinds sharing one TimeCache could be mistaken for one another
			r.Rule("C37.cache-per-event", "every TimeCache field is initialised with its own NewTimeCache, in the owner's constructor only", 8)
			for _, fn := range r.W.AllFuncs {
				byVal := map[ssa.Value][]string{}
				var order []ssa.Value
				EachInstr(fn, func(in ssa.Instruction) {
					st, ok := in.(*ssa.Store)
					if !ok {
						return
					}
					fa, ok := st.Addr.(*ssa.FieldAddr)
					if !ok || !strings.HasSuffix(typeName(st.Val.Type()), "pkg/cache.TimeCache") {
						return
					}
					f := fieldName(fa.X.Type().Underlying().(*types.Pointer).Elem(), fa.Field)
					if _, seen := byVal[st.Val]; !seen {
						order = append(order, st.Val)
					}
					byVal[st.Val] = append(byVal[st.Val], f)
					// the cache lives as long as its owner: it is set where the owner is built, nowhere else
					top := fn
					for top.Parent() != nil {
						top = top.Parent()
					}
					owner := namedOf(fa.X.Type())
					okCtor := owner != nil && owner.Obj().Pkg() != nil && allocatesType(top, short(owner.Obj().Pkg().Path()), owner.Obj().Name())
					r.Cond(okCtor, "C37.cache-per-event", FnName(fn)+"#set:"+f, st.Pos(), "the cache field "+f+" is assigned only where its owner is constructed (replacing it later forgets the events seen so far)")
				})
				for _, v := range order {
					fields := byVal[v]
					c, isCall := v.(*ssa.Call)
					fresh := isCall && strings.HasSuffix(CalleeName(c), "pkg/cache.NewTimeCache")
					r.Cond(fresh && len(fields) == 1, "C37.cache-per-event", FnName(fn)+"#"+strings.Join(fields, "+"), v.Pos(),
						"each cache field must receive its own NewTimeCache(...) result; fields sharing one cache: "+strings.Join(fields, ", "))
				}
			}
			if len(scoped) < 4 {
				r.Undecided("C37.test-and-set", "scope", fmt.Sprintf("expected at least 4 verdict functions over a TimeCache, found %d", len(scoped)))
			}
		},
	})
}

func init() {
	witness(Witness{Prop: "C37", Name: "has-then-add-wallet-closed", File: "pkg/tbtc/deduplicator.go",
		Old: "return d.walletClosedCache.Add(cacheKey)", New: "if !d.walletClosedCache.Has(cacheKey) {\n\t\td.walletClosedCache.Add(cacheKey)\n\t\treturn true\n\t}\n\treturn false",
		Rule: "C37.test-and-set", Within: "notifyWalletClosed"})
	witness(Witness{Prop: "C37", Name: "key-without-separators", File: "pkg/tbtc/deduplicator.go",
		Old: "newDKGResultSeed.Text(16) + \"-\" +\n\t\thex.EncodeToString(newDKGResultHash[:]) + \"-\" +", New: "newDKGResultSeed.Text(16) +\n\t\thex.EncodeToString(newDKGResultHash[:]) +",
		Rule: "C37.key"})
	witness(Witness{Prop: "C37", Name: "verdict-ignored", File: "pkg/beacon/beacon.go",
		Old: "\t\t\t\t\tevent.Seed,\n\t\t\t\t\tevent.BlockNumber,\n\t\t\t\t)\n\t\t\t\treturn\n\t\t\t}\n\n\t\t\tlogger.Infof(\n\t\t\t\t\"DKG started with seed",
		New: "\t\t\t\t\tevent.Seed,\n\t\t\t\t\tevent.BlockNumber,\n\t\t\t\t)\n\t\t\t}\n\n\t\t\tlogger.Infof(\n\t\t\t\t\"DKG started with seed",
		Rule: "C37.verdict-used"})
}
