package main

import (
	"fmt"
	"strings"

	"golang.org/x/tools/go/ssa"
)

// reachesAvoiding: some CFG path leads from a to b without entering `avoid`.
func reachesAvoiding(a, b, avoid *ssa.BasicBlock) bool {
	if a == b {
		return true
	}
	seen := map[*ssa.BasicBlock]bool{}
	stack := append([]*ssa.BasicBlock{}, a.Succs...)
	for len(stack) > 0 {
		n := stack[len(stack)-1]
		stack = stack[:len(stack)-1]
		if n == avoid || seen[n] {
			continue
		}
		if n == b {
			return true
		}
		seen[n] = true
		stack = append(stack, n.Succs...)
	}
	return false
}

// skipRule: blocks on which every fact of `both` holds (the "ineligible"
// condition) must exist and must not reach the append within the same loop
// iteration.
func (r *Run) skipRule(rule, construct string, fn *ssa.Function, header *ssa.BasicBlock, ap ssa.Instruction, what string, both ...string) {
	n := 0
	for _, b := range fn.Blocks {
		if !dominates(header, b) || b == header {
			continue
		}
		facts := ImpliedFacts(b, 1)
		if len(MissingFacts(facts, both...)) != 0 {
			continue
		}
		// only the first block where the conjunction becomes true matters (its
		// successors inherit the facts); take blocks whose idom lacks one fact
		if d := b.Idom(); d != nil && len(MissingFacts(ImpliedFacts(d, 1), both...)) == 0 {
			continue
		}
		n++
		r.Cond(!reachesAvoiding(b, ap.Block(), header), rule, construct+"/"+what, ap.Pos(), "an element for which '"+what+"' holds is skipped: no path to the append within the same iteration")
	}
	if n == 0 {
		r.Fail(rule, construct+"/"+what, ap.Pos(), "no branch tests the ineligibility condition '"+what+"' (the element would be appended regardless)", both, nil)
	}
}

func init() {
	const pg = "pkg/tbtcpg"
	register(&Prop{
		ID:        "C33",
		Technique: "static analysis: dominator guard facts on the result appends, same-iteration CFG reachability from every 'ineligible' branch, must-precede ordering of the sorts, map-order effects (go/ssa)",
		Explanation: "tbtcpg.findDeposits: the revealed events are stably sorted by reveal block (strict `<` on BlockNumber) before the selection loop; a deposit is appended only while len(result) < cap(result) (cap = the maximum count, or the number of events when no maximum is given), after its on-chain request was found without error, under timeNow.After(RevealedAt + minimum age), and every branch on which (skipSwept ∧ swept) or (skipUnconfirmed ∧ confirmations < DepositSweepRequiredFundingTxConfirmations) holds leaves the iteration without reaching the append; the appended reference carries the event's own funding hash, output index and reveal block. " +
			"tbtcpg.findPendingRedemptions: events are reduced to one per redemption key (a map keyed by the key built from the event's wallet hash and output script), each still-pending request is collected (not found ⇒ skipped), the collected list — built in map order — is stably sorted by request time before use, and a request is appended only while under the limit, not before now − requestTimeout and not after now − max(requestMinAge, redemption delay) (error-free delay query). " +
			"ProposalGenerator.Generate walks the checklist in order and returns the first task result with ok = true and no error; the no-op proposal only after the loop ended.",
		NotDecided: "the time arithmetic itself; ties in the stable sorts (equal request times keep map order); that past-events queries return every event.",
		Fn: func(r *Run) {
			r.Rule("C33.deposits", "deposit appended ⇐ under cap ∧ request found ∧ mature; swept/unconfirmed skipped; sorted by reveal block first", 7)
			r.Rule("C33.redemptions", "one per key, pending only, sorted by time, within [now−timeout, now−max(minAge, delay)], under the limit", 8)
			r.Rule("C33.generate", "first checklist action that yields a proposal, else no-op", 3)

			if fn := r.MustFn("C33.deposits", pg, "findDeposits"); fn != nil {
				name := FnName(fn)
				accs := Accumulations(fn)
				var res *Accum
				for _, p := range SuccessReturns(fn) {
					if a := accumOf(accs, RetResults(p.Ret)[0]); a != nil {
						res = a
					}
				}
				if res == nil || res.Header == nil || len(res.Appends) != 1 {
					r.Undecided("C33.deposits", name, "result accumulation with a single append not found")
				} else {
					ap := res.Appends[0]
					facts := ImpliedFacts(ap.Block(), 1)
					r.Check("C33.deposits", name+"#append", ap.Pos(), facts,
						`^-\(cap\(.*\) == len\(.*\)\)$|^-\(len\(.*\) == cap\(.*\)\)$`,
						okOf(`pkg/tbtcpg\.Chain\.GetDepositRequest`), `^\+invoke:pkg/tbtcpg\.Chain\.GetDepositRequest\(.*\)#1$`,
						`^\+call:time\.Time\.After\(call:time\.Now\(\), call:time\.Time\.Add\(.*GetDepositRequest\(.*\)#0\.RevealedAt, .*GetDepositMinAge.*\)\)$`,
						okOf(`pkg/tbtcpg\.Chain\.GetDepositMinAge`), okOf(`pkg/tbtcpg\.Chain\.PastDepositRevealedEvents`))
					r.skipRule("C33.deposits", name+"#skip", fn, res.Header, ap, "skipSwept ∧ swept", `^\+P5$`, `^-\(call:time\.Time\.Unix\(.*\.SweptAt\) == const:0\)$|^-\(const:0 == call:time\.Time\.Unix\(.*\.SweptAt\)\)$`)
					req := r.PkgConst("C33.deposits", "pkg/tbtc", "DepositSweepRequiredFundingTxConfirmations")
					r.skipRule("C33.deposits", name+"#skip", fn, res.Header, ap, "skipUnconfirmed ∧ confirmations < required", `^\+P6$`, `^\+\(invoke:pkg/bitcoin\.Chain\.GetTransactionConfirmations\(.*\)#0 < const:`+req+`\)$`)
					// the two skip tests cannot be bypassed: the block testing the skip flag
					// lies on every path of an iteration that reaches the append
					for _, flag := range []string{"P5", "P6"} {
						gate := false
						for _, b := range fn.Blocks {
							if ifi, isIf := b.Instrs[len(b.Instrs)-1].(*ssa.If); isIf && Desc(ifi.Cond) == flag && dominates(res.Header, b) && dominates(b, ap.Block()) {
								gate = true
							}
						}
						r.Cond(gate, "C33.deposits", name+"#skip-not-bypassed/"+flag, ap.Pos(), "every path of an iteration to the append passes the test of the skip flag "+flag+" (no branch — e.g. a failed confirmations query — goes around it)")
					}
					// sorted before the loop
					sorts := Sites(fn, `^sort\.SliceStable$`, false)
					okSort := false
					for _, s := range sorts {
						if InstrBefore(s.(ssa.Instruction), ap) && !loopBlocks(res.Header)[s.Block()] && strings.Contains(Desc(s.Common().Args[0]), "PastDepositRevealedEvents") {
							if cl := closureOf(s.Common().Args[1]); cl != nil && len(ReturnsMatching(cl, 0, `^\(.*\[P0\]\.BlockNumber < .*\[P1\]\.BlockNumber\)$`)) == 1 {
								okSort = true
							}
						}
					}
					r.Cond(okSort, "C33.deposits", name+"#sorted-by-reveal-block", fn.Pos(), "events stably sorted by BlockNumber (strict <) before the selection loop")
					r.Cond(sameValue(res.Source, valueArg0(sorts)), "C33.deposits", name+"#loop-over-sorted", fn.Pos(), "the selection ranges over the sorted events")
					// capacity = max count or number of events
					var mk *ssa.MakeSlice
					EachInstr(fn, func(in ssa.Instruction) {
						if m, ok := in.(*ssa.MakeSlice); ok && strings.HasSuffix(typeName(m.Type()), "tbtcpg.Deposit") {
							mk = m
						}
					})
					okCap := false
					if mk != nil {
						if phi, ok := mk.Cap.(*ssa.Phi); ok && len(phi.Edges) == 2 {
							ds := []string{Desc(phi.Edges[0]), Desc(phi.Edges[1])}
							okCap = (ds[0] == "P4" && strings.HasPrefix(ds[1], "len(")) || (ds[1] == "P4" && strings.HasPrefix(ds[0], "len("))
						}
					}
					r.Cond(okCap, "C33.deposits", name+"#capacity", fn.Pos(), "result capacity is the maximum count when positive, else the number of events")
					// appended reference fields
					okRef := 0
					EachInstr(fn, func(in ssa.Instruction) {
						if st, ok := in.(*ssa.Store); ok {
							a, v := Desc(st.Addr), Desc(st.Val)
							for _, f := range []string{"FundingTxHash", "FundingOutputIndex"} {
								if strings.HasSuffix(a, ".DepositReference."+f) && strings.HasSuffix(v, "."+f) && strings.Contains(v, "PastDepositRevealedEvents") {
									okRef++
								}
							}
							if strings.HasSuffix(a, ".DepositReference.RevealBlock") && strings.HasSuffix(v, ".BlockNumber") {
								okRef++
							}
						}
					})
					r.Cond(okRef == 3, "C33.deposits", name+"#reference", ap.Pos(), "the deposit reference carries the visited event's funding hash, output index and reveal block")
				}
			}

			if fn := r.MustFn("C33.redemptions", pg, "findPendingRedemptions"); fn != nil {
				name := FnName(fn)
				// one per key
				nKey := 0
				EachInstr(fn, func(in ssa.Instruction) {
					if mu, ok := in.(*ssa.MapUpdate); ok && strings.Contains(Desc(mu.Key), "BuildRedemptionKey(") {
						nKey++
						k := Desc(mu.Key)
						r.Cond(strings.Contains(k, ".WalletPublicKeyHash") && strings.Contains(k, ".RedeemerOutputScript"), "C33.redemptions", name+"#one-per-key", in.Pos(), "events are keyed by the redemption key of their own wallet hash and output script")
						r.Check("C33.redemptions", name+"#key-ok", in.Pos(), Facts(in.Block()), okOf(`pkg/tbtcpg\.Chain\.BuildRedemptionKey`))
					}
				})
				if nKey != 1 {
					r.Undecided("C33.redemptions", name+"#one-per-key", "deduplication map update not found")
				}
				accs := Accumulations(fn)
				var res, pending *Accum
				for _, p := range SuccessReturns(fn) {
					if a := accumOf(accs, RetResults(p.Ret)[0]); a != nil {
						res = a
					}
				}
				for _, a := range accs {
					if a != res && len(a.Appends) == 1 && strings.Contains(Desc(appendedElemAlloc(a.Appends[0])), "complit") {
						pending = a
					}
				}
				if res == nil || pending == nil || len(res.Appends) != 1 {
					r.Undecided("C33.redemptions", name, "pending / result accumulations not found")
				} else {
					pa := pending.Appends[0]
					r.Check("C33.redemptions", name+"#pending-only", pa.Pos(), Facts(pa.Block()), okOf(`pkg/tbtcpg\.Chain\.GetPendingRedemptionRequest`), `^\+invoke:pkg/tbtcpg\.Chain\.GetPendingRedemptionRequest\(.*\)#1$`)
					leaks, loops := MapOrderLeaks(fn)
					r.Cond(len(leaks) == 0 && loops >= 1, "C33.redemptions", name+"#sorted-by-time", fn.Pos(), fmt.Sprintf("the list collected in map order is sorted before use (%d leak(s))", len(leaks)))
					okCmp := false
					for _, s := range Sites(fn, `^sort\.SliceStable$`, false) {
						if cl := closureOf(s.Common().Args[1]); cl != nil && len(ReturnsMatching(cl, 0, `^call:time\.Time\.Before\(.*\[P0\]\.RequestedAt, .*\[P1\]\.RequestedAt\)$`)) == 1 {
							okCmp = true
						}
					}
					r.Cond(okCmp, "C33.redemptions", name+"#oldest-first", fn.Pos(), "sorted by RequestedAt, oldest first")
					ap := res.Appends[0]
					facts := ImpliedFacts(ap.Block(), 1)
					r.Check("C33.redemptions", name+"#append", ap.Pos(), facts,
						`^-\(cap\(.*\) == len\(.*\)\)$|^-\(len\(.*\) == cap\(.*\)\)$`,
						`^-call:time\.Time\.Before\(.*\.RequestedAt, call:time\.Time\.Add\(call:time\.Now\(\), .*P5.*\)\)$`,
						`^-call:time\.Time\.After\(.*\.RequestedAt, .*findPendingRedemptions\$\d.*#0\)$`,
						`^\+\(.*findPendingRedemptions\$\d.*#1 == nil\)$`)
					r.Cond((sameValue(res.Source, firstSortArg(fn, "RequestedAt")) || pending.Vals[res.Source]) && !truncated(res.Source, 5), "C33.redemptions", name+"#loop-over-sorted", ap.Pos(), "the selection ranges over the whole sorted pending list (cutting it before the eligibility filter lets ineligible requests use up the limit)")
				}
				// range end = now − max(minAge, delay)
				for _, cl := range fn.AnonFuncs {
					if len(Sites(cl, `^invoke:pkg/tbtcpg\.Chain\.GetRedemptionDelay$`, false)) == 0 {
						continue
					}
					for _, p := range SuccessReturns(cl) {
						d := Desc(RetResults(p.Ret)[0])
						okMax := false
						EachInstr(cl, func(in ssa.Instruction) {
							if phi, ok := in.(*ssa.Phi); ok && len(phi.Edges) == 2 {
								ds := Desc(phi.Edges[0]) + "|" + Desc(phi.Edges[1])
								if strings.Contains(ds, "GetRedemptionDelay(") && strings.Contains(ds, "up(P6)") {
									// the delay edge is taken only when delay > minAge
									for i, e := range phi.Edges {
										if strings.Contains(Desc(e), "GetRedemptionDelay(") && !strings.Contains(Desc(e), "up(P6)") {
											if HasFact(EdgeFacts(phi.Block().Preds[i], phi.Block()), `^\+\(.*up\(P6\).* < .*GetRedemptionDelay\(.*\)#0\)$`) {
												okMax = true
											}
										}
									}
								}
							}
						})
						r.Cond(okMax && strings.HasPrefix(d, "call:time.Time.Add(up(call:time.Now())") && strings.Contains(d, "-phi{"), "C33.redemptions", FnName(cl)+"#range-end", p.Ret.Pos(), "range end = now − max(requestMinAge, redemption delay); got "+abbr(d, 2))
						r.Check("C33.redemptions", FnName(cl)+"#delay-ok", p.Ret.Pos(), p.Facts, okOf(`pkg/tbtcpg\.Chain\.GetRedemptionDelay`))
					}
				}
			}

			if fn := r.MustFn("C33.generate", pg, "ProposalGenerator.Generate"); fn != nil {
				name := FnName(fn)
				var loop *Loop
				for _, l := range Loops(fn) {
					if s := loopSource(l.Header); s != nil && Desc(s) == "P1.ActionsChecklist" {
						loop = l
					}
				}
				if loop == nil {
					r.Undecided("C33.generate", name, "no loop over the actions checklist")
				} else {
					for _, p := range SuccessReturns(fn) {
						d := Desc(RetResults(p.Ret)[0])
						if strings.Contains(d, "NoopProposal") || strings.Contains(d, "complit") || strings.Contains(d, "&local:new") {
							r.Cond(!loop.Blocks[p.Ret.Block()] && HasFact(Facts(p.Ret.Block()), `^\+\(len\(P1\.ActionsChecklist\) <= .*\)$`), "C33.generate", name+"#noop-after-loop", p.Ret.Pos(), "no-op only after every checklist action was tried")
							continue
						}
						r.Check("C33.generate", name+"#first-ok", p.Ret.Pos(), p.Facts, `^\+invoke:pkg/tbtcpg\.ProposalTask\.Run\(.*\)#1$`, `^\+\(invoke:pkg/tbtcpg\.ProposalTask\.Run\(.*\)#2 == nil\)$`)
						r.Cond(strings.HasSuffix(d, "#0") && strings.Contains(d, "ProposalTask.Run("), "C33.generate", name+"#returns-task-proposal", p.Ret.Pos(), "returns the proposal produced by the task")
					}
					// the task run is the one whose ActionType equals the current checklist action
					for _, c := range Sites(fn, `^invoke:pkg/tbtcpg\.ProposalTask\.Run$`, false) {
						recv := Desc(c.Common().Value)
						r.Cond(strings.Contains(recv, "P0.tasks[") && strings.Contains(recv, "slices.IndexFunc["), "C33.generate", name+"#task-of-action", c.Pos(), "runs the task found for the current action")
					}
				}
			}
		},
	})
	witness(Witness{Prop: "C33", Name: "sweep-swept-deposits", File: "pkg/tbtcpg/deposit_sweep.go",
		Old: "\t\tif skipSwept && isSwept {", New: "\t\tif skipSwept && isSwept && skipUnconfirmed {", Rule: "C33.deposits"})
	witness(Witness{Prop: "C33", Name: "immature-deposit", File: "pkg/tbtcpg/deposit_sweep.go",
		Old: "\t\tif !timeNow.After(matureAt) {", New: "\t\tif !timeNow.After(matureAt) && skipSwept {", Rule: "C33.deposits"})
	witness(Witness{Prop: "C33", Name: "timed-out-redemption", File: "pkg/tbtcpg/redemptions.go",
		Old: "\t\tif pendingRedemption.RequestedAt.Before(redemptionRequestsRangeStartTimestamp) {", New: "\t\tif pendingRedemption.RequestedAt.Before(redemptionRequestsRangeStartTimestamp) && requestsLimit > 0 {", Rule: "C33.redemptions"})
	witness(Witness{Prop: "C33", Name: "generate-ignores-ok", File: "pkg/tbtcpg/tbtcpg.go",
		Old: "\t\tif !ok {", New: "\t\tif !ok && proposal == nil {", Rule: "C33.generate"})
}

func valueArg0(calls []ssa.CallInstruction) ssa.Value {
	for _, c := range calls {
		if len(c.Common().Args) > 0 {
			return unwrapIface(c.Common().Args[0])
		}
	}
	return nil
}

// firstSortArg: the slice handed to the SliceStable whose comparator mentions field.
func firstSortArg(fn *ssa.Function, field string) ssa.Value {
	for _, s := range Sites(fn, `^sort\.SliceStable$`, false) {
		if cl := closureOf(s.Common().Args[1]); cl != nil {
			for _, ret := range ReturnsMatching(cl, 0, `.`) {
				if strings.Contains(Desc(ret.Results[0]), field) {
					return unwrapIface(s.Common().Args[0])
				}
			}
		}
	}
	return nil
}

// appendedElemAlloc: the element appended (value), for description purposes.
func appendedElemAlloc(ap *ssa.Call) ssa.Value {
	if e := appendedElem(ap); e != nil {
		return e
	}
	return ap
}

// truncated: v is, on some path, a reslice with an upper bound (xs[:k]) of the
// list it stands for.
func truncated(v ssa.Value, depth int) bool {
	if depth == 0 || v == nil {
		return false
	}
	switch x := v.(type) {
	case *ssa.Slice:
		if x.High != nil {
			return true
		}
		return truncated(x.X, depth-1)
	case *ssa.Phi:
		for _, e := range x.Edges {
			if e != v && truncated(e, depth-1) {
				return true
			}
		}
	case *ssa.UnOp:
		// load of an address-taken local: any store of a truncated value into it counts
		if al, ok := x.X.(*ssa.Alloc); ok {
			for _, ref := range *al.Referrers() {
				if st, isSt := ref.(*ssa.Store); isSt && st.Addr == ssa.Value(al) {
					if sl, isSl := st.Val.(*ssa.Slice); isSl && sl.High != nil {
						if _, fresh := sl.X.(*ssa.Alloc); !fresh { // make([]T, 0) lowers to a slice of a fresh array
							return true
						}
					}
				}
			}
		}
	}
	return false
}
