package main

import (
	"fmt"
	"go/token"
	"go/types"
	"regexp"
	"sort"
	"strconv"
	"strings"

	"golang.org/x/tools/go/ssa"
)

// abiPack describes one `abi.Arguments{{Type: t0}, …}.Pack(v0, …)` site: the
// ABI type strings (from the abi.NewType calls feeding the literal, by index)
// and the packed values (by index).
type abiPack struct {
	Call  *ssa.Call
	Types []string
	Vals  []ssa.Value
}

func litElems(sl ssa.Value) map[int64][]*ssa.Store {
	out := map[int64][]*ssa.Store{}
	s, ok := stripConv(sl).(*ssa.Slice)
	if !ok {
		return nil
	}
	al, ok := s.X.(*ssa.Alloc)
	if !ok {
		return nil
	}
	for _, ref := range *al.Referrers() {
		ia, ok := ref.(*ssa.IndexAddr)
		if !ok {
			continue
		}
		k, isC := constInt(ia.Index)
		if !isC {
			return nil
		}
		var walk func(addr ssa.Value)
		walk = func(addr ssa.Value) {
			for _, r2 := range *addr.Referrers() {
				switch u := r2.(type) {
				case *ssa.Store:
					if u.Addr == addr {
						out[k] = append(out[k], u)
					}
				case *ssa.FieldAddr:
					walk(u)
				}
			}
		}
		walk(ia)
	}
	return out
}

func abiPacks(fn *ssa.Function) []abiPack {
	var out []abiPack
	for _, c := range Sites(fn, `^github\.com/ethereum/go-ethereum/accounts/abi\.Arguments\.Pack$`, false) {
		call, ok := c.(*ssa.Call)
		if !ok || len(call.Call.Args) != 2 {
			continue
		}
		p := abiPack{Call: call}
		ts := litElems(call.Call.Args[0])
		for i := int64(0); i < int64(len(ts)); i++ {
			t := "?"
			if sts := ts[i]; len(sts) == 1 {
				if fa, isFA := sts[0].Addr.(*ssa.FieldAddr); isFA && fieldName(fa.X.Type(), fa.Field) == "Type" {
					if m := regexp.MustCompile(`^call:github\.com/ethereum/go-ethereum/accounts/abi\.NewType\(const:"([^"]*)", const:"[^"]*", nil\)#0$`).FindStringSubmatch(Desc(sts[0].Val)); m != nil {
						t = m[1]
					}
				}
			}
			p.Types = append(p.Types, t)
		}
		vs := litElems(call.Call.Args[1])
		for i := int64(0); i < int64(len(vs)); i++ {
			var v ssa.Value
			if sts := vs[i]; len(sts) == 1 {
				v = unwrapIface(sts[0].Val)
			}
			p.Vals = append(p.Vals, v)
		}
		out = append(out, p)
	}
	return out
}

func solNormType(t string) string {
	t = strings.TrimSpace(t)
	t = regexp.MustCompile(`^uint(\[|$)`).ReplaceAllString(t, "uint256$1")
	return t
}

// abiCompatible: a Go value of type t is what go-ethereum's packer needs for
// the ABI type (structurally: uintN≤64 ↔ Go uintN, larger ↔ *big.Int, bool,
// bytes ↔ []byte, bytesN ↔ [N]byte, T[] ↔ []T).
func abiCompatible(abiT string, t types.Type) bool {
	t = types.Unalias(t)
	if strings.HasSuffix(abiT, "[]") {
		s, ok := t.Underlying().(*types.Slice)
		return ok && abiCompatible(strings.TrimSuffix(abiT, "[]"), s.Elem())
	}
	switch {
	case abiT == "bool":
		b, ok := t.Underlying().(*types.Basic)
		return ok && b.Kind() == types.Bool
	case abiT == "bytes":
		s, ok := t.Underlying().(*types.Slice)
		if !ok {
			return false
		}
		b, ok := types.Unalias(s.Elem()).Underlying().(*types.Basic)
		return ok && b.Kind() == types.Uint8
	case strings.HasPrefix(abiT, "bytes"):
		n, err := strconv.Atoi(strings.TrimPrefix(abiT, "bytes"))
		a, ok := t.Underlying().(*types.Array)
		if err != nil || !ok || a.Len() != int64(n) {
			return false
		}
		b, ok := types.Unalias(a.Elem()).Underlying().(*types.Basic)
		return ok && b.Kind() == types.Uint8
	case strings.HasPrefix(abiT, "uint"):
		n, err := strconv.Atoi(strings.TrimPrefix(abiT, "uint"))
		if err != nil {
			return false
		}
		if n > 64 {
			return typeName(t) == "*math/big.Int"
		}
		b, ok := t.Underlying().(*types.Basic)
		if !ok {
			return false
		}
		want := map[int]types.BasicKind{8: types.Uint8, 16: types.Uint16, 32: types.Uint32, 64: types.Uint64}[n]
		return b.Kind() == want
	}
	return false
}

// ascendingLess: the closure is `func(i, j) bool { return s[i] < s[j] }` over
// the captured slice whose description is want.
func ascendingLess(cl *ssa.Function, want string) bool {
	if cl == nil || len(cl.Blocks) != 1 {
		return false
	}
	ret, ok := cl.Blocks[0].Instrs[len(cl.Blocks[0].Instrs)-1].(*ssa.Return)
	if !ok || len(ret.Results) != 1 {
		return false
	}
	return Desc(ret.Results[0]) == "(up("+want+")[P0] < up("+want+")[P1])"
}

// sortedBefore: an ascending sort.Slice of the value described by want
// dominates `at`, and nothing in between … (the slice header is a value; the
// elements are only reordered by the sort itself).
func sortedBefore(fn *ssa.Function, want string, at ssa.Instruction) bool {
	for _, c := range Sites(fn, `^sort\.Slice$`, false) {
		call, ok := c.(*ssa.Call)
		if !ok {
			continue
		}
		d := strings.TrimSuffix(Desc(call.Call.Args[0]), "[:]")
		if d != want {
			continue
		}
		if !ascendingLess(closureOf(call.Call.Args[1]), want) {
			continue
		}
		if call.Block() == at.Block() {
			for _, in := range call.Block().Instrs {
				if in == ssa.Instruction(call) {
					return true
				}
				if in == at {
					break
				}
			}
			continue
		}
		if dominates(call.Block(), at.Block()) {
			return true
		}
	}
	return false
}

func complitFields(fn *ssa.Function, typSuffix string) (map[string]ssa.Value, token.Pos) {
	out := map[string]ssa.Value{}
	var pos token.Pos
	EachInstr(fn, func(in ssa.Instruction) {
		st, ok := in.(*ssa.Store)
		if !ok {
			return
		}
		fa, ok := st.Addr.(*ssa.FieldAddr)
		if !ok || !strings.HasSuffix(typeName(fa.X.Type()), typSuffix) {
			return
		}
		if _, isAlloc := fa.X.(*ssa.Alloc); !isAlloc {
			return
		}
		out[fieldName(fa.X.Type(), fa.Field)] = st.Val
		pos = in.Pos()
	})
	return out, pos
}

// elementwise: dst is a make([]T, len(src)) filled by one range loop over src
// with dst[i] = conv(src[i]); returns the description of the stored element
// with the index abstracted.
func elementwise(fn *ssa.Function, dst ssa.Value) (src string, elem string, ok bool) {
	mk, isMk := stripConv(dst).(*ssa.MakeSlice)
	if !isMk {
		return "", "", false
	}
	ln := isLenOf(mk.Len)
	if ln == nil {
		return "", "", false
	}
	src = Desc(ln)
	n := 0
	for _, ref := range *mk.Referrers() {
		ia, isIA := ref.(*ssa.IndexAddr)
		if !isIA {
			continue
		}
		for _, r2 := range *ia.Referrers() {
			st, isSt := r2.(*ssa.Store)
			if !isSt || st.Addr != ssa.Value(ia) {
				continue
			}
			n++
			idx := Desc(ia.Index)
			// the loop must be the range over src and the element src[idx]
			okLoop := false
			for _, l := range Loops(fn) {
				if s := loopSource(l.Header); s != nil && Desc(s) == src && l.Kind == "range" && l.Blocks[st.Block()] {
					okLoop = len(Facts(st.Block())) == len(Facts(l.Header))+1 // only the range bound
				}
			}
			if !okLoop {
				return src, "", false
			}
			elem = strings.ReplaceAll(fullDesc(st.Val), src+"["+idx+"]", "ELEM")
		}
	}
	return src, elem, n == 1
}

func fullDesc(v ssa.Value) string { return Desc(v) }

func init() {
	const ep = "pkg/chain/ethereum"
	const solDir = "solidity/ecdsa/contracts/"
	register(&Prop{
		ID:        "C40",
		Technique: "static analysis: cross-language layout agreement — ABI type lists, argument roles and size constants extracted from the Go SSA (abi.NewType / Arguments.Pack literals, guard facts) and from the Solidity sources (purpose-built declaration and abi.encode reader), compared; sort-before-use, field provenance and validity gating by dominators (go/ssa)",
		Explanation: "C40.layout: for each hash the client computes for the WalletRegistry contracts the ordered ABI type list and the role of each argument agree with the Solidity expression the contract hashes: calculateDKGResultSignatureHash ↔ EcdsaDkgValidator.validateSignatures (chain id, group public key bytes, uint8[] misbehaved indices, start block; Ethereum-signed-message prefix applied by the contract and by the signer), calculateInactivityClaimHash ↔ EcdsaInactivity.verifyClaim, computeOperatorsIDsHash ↔ validateMembersHash (uint32[]), calculateWalletID ↔ Wallets (raw keccak of the 64-byte key). The packed Go values have the Go types go-ethereum's packer needs for those ABI types. Size constants agree (public key 64, signature 65, group size / active threshold / group threshold). The ABI binding structs agree field by field with the Solidity structs and the client's converters fill each field from the field of the same role. " +
			"C40.sorted: misbehaved, operating and signing member indices are sorted ascending (sort.Slice with an `s[i] < s[j]` comparator on the very slice) before they are used; signatures are concatenated in the sorted signer order, each of exactly 65 bytes; the members hash is taken over the operator IDs of the operating members in ascending member order (OperatorsIDs[index−1]); the group public key field is the 64-byte X‖Y serialization. " +
			"C40.gate: the result handed to SubmitDKGResult is the assembled one and is submitted only after the contract's own IsDKGResultValid answered true for that same value; the signed hash is computed from the same group public key, misbehaved list and DKG start block.",
		NotDecided: "equality of hash values as such (go-ethereum's abi packer and keccak, and solc's abi.encode, are trusted to implement the same ABI); that signatures recover to their signers (the signing and the \\x19Ethereum prefix live in keep-common's EthereumSigner; the per-signature verification during result signing is a different property); uniqueness and range of indices beyond what sorting a duplicate-free key set gives (map keys are unique by construction; member indices come from the protocol).",
		Fn: func(r *Run) {
			r.Rule("C40.layout", "Go ABI type lists, argument roles, size constants and binding structs agree with the Solidity sources", 40)
			r.Rule("C40.sorted", "indices sorted ascending before use; signatures in signer order and 65 bytes each; members hash over operating members in order", 18)
			r.Rule("C40.gate", "submission only of the assembled result the contract validated; signed hash from the same inputs; inactivity claim only with at least groupThreshold signatures", 8)
			load := func(rel string) *solFile {
				f, err := LoadSol(r.W, solDir+rel)
				if err != nil {
					r.Undecided("C40.layout", solDir+rel, "cannot read Solidity source: "+err.Error())
					return nil
				}
				return f
			}
			val := load("EcdsaDkgValidator.sol")
			ina := load("libraries/EcdsaInactivity.sol")
			wal := load("libraries/Wallets.sol")
			dkg := load("libraries/EcdsaDkg.sol")
			if val == nil || ina == nil || wal == nil || dkg == nil {
				return
			}
			all := []*solFile{val, ina, wal, dkg}
			solFn := func(f *solFile, name string) *solFunc {
				fn := f.Funcs[name]
				if fn == nil || fn.Body == "" {
					r.Undecided("C40.layout", f.Path+"#"+name, "Solidity function not found")
					return nil
				}
				fn.resolve(all)
				return fn
			}
			// ---- hash layouts
			type hashPair struct {
				goFn   string
				sol    *solFile
				solFn  string
				roles  []string // Solidity argument expressions, by position, matched to the Go parameter of the same position
				params []string // Go parameter names by position
				prefix bool
			}
			pairs := []hashPair{
				{"calculateDKGResultSignatureHash", val, "validateSignatures",
					[]string{"block.chainid", "result.groupPubKey", "result.misbehavedMembersIndices", "startBlock"},
					[]string{"chainID", "groupPublicKey", "misbehavedMembersIndexes", "startBlock"}, true},
				{"calculateInactivityClaimHash", ina, "verifyClaim",
					[]string{"block.chainid", "nonce", "walletPubKey", "claim.inactiveMembersIndices", "claim.heartbeatFailed"},
					[]string{"chainID", "nonce", "walletPublicKey", "inactiveMembersIndexes", "heartbeatFailed"}, true},
			}
			for _, hp := range pairs {
				gf := r.MustFn("C40.layout", ep, hp.goFn)
				sf := solFn(hp.sol, hp.solFn)
				if gf == nil || sf == nil {
					continue
				}
				name := FnName(gf)
				packs := abiPacks(gf)
				if len(packs) != 1 || len(sf.Hashes) != 1 {
					r.Undecided("C40.layout", name+"#pack", fmt.Sprintf("expected one Pack site and one Solidity hash; got %d and %d", len(packs), len(sf.Hashes)))
					continue
				}
				p, h := packs[0], sf.Hashes[0]
				where := fmt.Sprintf("%s:%d %s", hp.sol.Path, h.Line, hp.solFn)
				var solTypes []string
				for _, t := range h.Types {
					solTypes = append(solTypes, solNormType(t))
				}
				r.Cond(h.Encoder == "abi.encode" && seqEq(p.Types, solTypes), "C40.layout", name+"#types", p.Call.Pos(),
					fmt.Sprintf("ABI type list %v equals the contract's abi.encode list %v (%s)", p.Types, solTypes, where))
				r.Cond(seqEq(h.Args, hp.roles), "C40.layout", name+"#contract-args", p.Call.Pos(),
					fmt.Sprintf("the contract hashes %v (%s)", h.Args, where))
				okRoles := len(p.Vals) == len(hp.params) && len(gf.Params) == len(hp.params)
				if okRoles {
					for i, v := range p.Vals {
						if v == nil || Desc(v) != fmt.Sprintf("P%d", i) || gf.Params[i].Name() != hp.params[i] {
							okRoles = false
						}
					}
				}
				r.Cond(okRoles, "C40.layout", name+"#roles", p.Call.Pos(), fmt.Sprintf("the packed values are the parameters %v in this order", hp.params))
				okCompat := len(p.Vals) == len(p.Types)
				if okCompat {
					for i, v := range p.Vals {
						if v == nil || !abiCompatible(p.Types[i], v.Type()) {
							okCompat = false
						}
					}
				}
				r.Cond(okCompat, "C40.layout", name+"#go-types", p.Call.Pos(), "each packed value has the Go type the packer needs for its ABI type")
				r.Cond(h.Prefix == hp.prefix, "C40.layout", name+"#prefix", p.Call.Pos(), "the contract applies toEthSignedMessageHash to this hash (the client signs through the Ethereum signer)")
				for _, rp := range SuccessReturns(gf) {
					d := Desc(RetResults(rp.Ret)[0])
					r.Cond(strings.Contains(d, "crypto.Keccak256Hash(") && HasFact(rp.Facts, okOf(`github\.com/ethereum/go-ethereum/accounts/abi\.Arguments\.Pack`)), "C40.layout", name+"#keccak", rp.Ret.Pos(), "result is keccak256 of the successfully packed bytes")
					kc := Sites(gf, `crypto\.Keccak256Hash$`, false)
					okArg := len(kc) == 1
					if okArg {
						es := litElems(kc[0].Common().Args[0])
						okArg = len(es) == 1 && len(es[0]) == 1 && es[0][0].Val == ssa.Value(packExtract(p.Call, 0))
					}
					r.Cond(okArg, "C40.layout", name+"#keccak-input", rp.Ret.Pos(), "keccak256 input is exactly the packed bytes")
				}
				// public key length guard
				want := val.Consts["publicKeyByteSize"]
				okLen := false
				for _, rp := range SuccessReturns(gf) {
					okLen = HasFact(rp.Facts, `^\+\(const:`+q(want)+` == len\(P\d\)\)$`)
				}
				r.Cond(want != "" && okLen, "C40.layout", name+"#key-size", gf.Pos(), "public key length is checked against the contract's publicKeyByteSize = "+want)
			}
			// ---- members hash
			if gf, sf := r.MustFn("C40.layout", ep, "computeOperatorsIDsHash"), solFn(val, "validateMembersHash"); gf != nil && sf != nil {
				name := FnName(gf)
				packs := abiPacks(gf)
				if len(packs) != 1 || len(sf.Hashes) != 2 {
					r.Undecided("C40.layout", name+"#pack", fmt.Sprintf("expected one Pack site and two Solidity hashes; got %d and %d", len(packs), len(sf.Hashes)))
				} else {
					p := packs[0]
					for i, h := range sf.Hashes {
						ok := h.Encoder == "abi.encode" && len(h.Types) == 1 && seqEq(p.Types, []string{solNormType(h.Types[0])}) && !h.Prefix
						r.Cond(ok, "C40.layout", fmt.Sprintf("%s#types/%d", name, i), p.Call.Pos(), fmt.Sprintf("ABI type list %v equals the contract's abi.encode(%s) of type %v (%s:%d)", p.Types, strings.Join(h.Args, ","), h.Types, val.Path, h.Line))
					}
					r.Cond(len(p.Vals) == 1 && p.Vals[0] != nil && Desc(p.Vals[0]) == "P0" && abiCompatible(p.Types[0], p.Vals[0].Type()), "C40.layout", name+"#roles", p.Call.Pos(), "the packed value is the operator ID list, of a Go type the packer accepts for uint32[]")
					// the contract hashes result.members minus the misbehaved ones, in member order
					ok := false
					for _, h := range sf.Hashes {
						if len(h.Args) == 1 && h.Args[0] == "result.members" {
							ok = true
						}
					}
					r.Cond(ok && strings.Contains(solNorm(sf.Body), "groupMembers[j] = result.members[i]"), "C40.layout", name+"#contract-args", p.Call.Pos(), "the contract hashes result.members (without the misbehaved ones, in member order)")
				}
			}
			// ---- wallet ID
			if gf := r.MustFn("C40.layout", ep, "calculateWalletID"); gf != nil {
				name := FnName(gf)
				kc := Sites(gf, `crypto\.Keccak256Hash$`, false)
				ok := len(kc) == 1 && len(abiPacks(gf)) == 0
				if ok {
					es := litElems(kc[0].Common().Args[0])
					ok = len(es) == 1 && len(es[0]) == 1 && Desc(es[0][0].Val) == "&{call:pkg/chain/ethereum.convertPubKeyToChainFormat(P0)#0}[:]"
				}
				r.Cond(ok, "C40.layout", name+"#raw-keccak", gf.Pos(), "wallet ID is keccak256 of the raw serialized public key (no ABI encoding)")
				for _, sn := range []string{"validatePublicKey", "addWallet"} {
					sf := solFn(wal, sn)
					if sf == nil {
						continue
					}
					okS := len(sf.Hashes) == 1 && sf.Hashes[0].Encoder == "" && seqEq(sf.Hashes[0].Args, []string{"publicKey"}) && seqEq(sf.Hashes[0].Types, []string{"bytes"})
					r.Cond(okS, "C40.layout", name+"#contract/"+sn, gf.Pos(), "Wallets."+sn+" derives the wallet ID as keccak256(publicKey) of the raw bytes")
				}
				if sf := wal.Funcs["validatePublicKey"]; sf != nil {
					m := regexp.MustCompile(`publicKey\.length == (\d+)`).FindStringSubmatch(solNorm(sf.Body))
					cf := r.W.Fn(ep, "convertPubKeyToChainFormat")
					okN := false
					if m != nil && cf != nil {
						if a, isA := cf.Signature.Results().At(0).Type().Underlying().(*types.Array); isA {
							okN = strconv.FormatInt(a.Len(), 10) == m[1] && m[1] == val.Consts["publicKeyByteSize"]
						}
					}
					r.Cond(okN, "C40.layout", name+"#key-size", gf.Pos(), "the serialized key is a fixed 64-byte array, the length Wallets.validatePublicKey and EcdsaDkgValidator require")
				}
			}
			// ---- public key serialization: X‖Y, each left-padded to 32 bytes
			if cf := r.MustFn("C40.sorted", ep, "convertPubKeyToChainFormat"); cf != nil {
				name := FnName(cf)
				cps := Sites(cf, `^builtin:copy$`, false)
				got := []string{}
				for _, c := range cps {
					got = append(got, Desc(c.Common().Args[0])+" <- "+Desc(c.Common().Args[1]))
				}
				sort.Strings(got)
				pad := func(c string) string {
					return "call:pkg/internal/byteutils.LeftPadTo32Bytes(call:math/big.Int.Bytes(P0." + c + "))#0"
				}
				want := []string{"&local:serialized[:] <- append(" + pad("X") + ", " + pad("Y") + ")"}
				okPad := false
				for _, rp := range SuccessReturns(cf) {
					okPad = HasFact(rp.Facts, okOf(`pkg/internal/byteutils\.LeftPadTo32Bytes`))
				}
				r.Cond(seqEq(got, want) && okPad, "C40.sorted", name, cf.Pos(), fmt.Sprintf("serialization is pad32(X) ‖ pad32(Y); got %v", got))
			}
			// ---- constants
			if cs := r.MustFn("C40.layout", ep, "convertSignaturesToChainFormat"); cs != nil {
				name := FnName(cs)
				a, b := val.Consts["signatureByteSize"], ina.Consts["signatureByteSize"]
				ok := a != "" && a == b
				for _, ap := range appendsIn(cs) {
					e := appendedElem(ap)
					if e == nil {
						e = ap.Call.Args[1]
					}
					if strings.HasPrefix(Desc(e), "P0[") {
						ok = ok && HasFact(Facts(ap.Block()), `^\+\(const:`+q(a)+` == len\(P0\[`)
					}
				}
				r.Cond(ok, "C40.layout", name+"#signature-size", cs.Pos(), "every concatenated signature has exactly signatureByteSize = "+a+" bytes (EcdsaDkgValidator and EcdsaInactivity agree)")
			}
			for _, kv := range [][3]string{{"GroupSize", "groupSize", "EcdsaDkgValidator"}, {"GroupQuorum", "activeThreshold", "EcdsaDkgValidator"}, {"HonestThreshold", "groupThreshold", "EcdsaDkgValidator"}} {
				gf := r.W.Fn("pkg/tbtc", "Initialize")
				if gf == nil {
					r.Undecided("C40.layout", "pkg/tbtc.Initialize#"+kv[0], "function not found")
					continue
				}
				got := ""
				for _, f := range append([]*ssa.Function{gf}, gf.AnonFuncs...) {
					m, _ := complitFields(f, "pkg/tbtc.GroupParameters")
					if v, ok := m[kv[0]]; ok {
						got = strings.TrimPrefix(Desc(v), "const:")
					}
				}
				want := val.Consts[kv[1]]
				ok := got != "" && got == want
				if kv[1] == "groupThreshold" {
					ok = ok && ina.Consts["groupThreshold"] == want
				}
				r.Cond(ok, "C40.layout", "pkg/tbtc.Initialize#"+kv[0], gf.Pos(), fmt.Sprintf("client %s = %s equals the contract's %s = %s", kv[0], got, kv[1], want))
			}
			// ---- binding structs vs Solidity structs
			for _, sp := range [][3]string{{"EcdsaDkgResult", "Result", "libraries/EcdsaDkg.sol"}, {"EcdsaInactivityClaim", "Claim", "libraries/EcdsaInactivity.sol"}} {
				var sfile *solFile
				for _, f := range all {
					if strings.HasSuffix(f.Path, sp[2]) {
						sfile = f
					}
				}
				pkg := r.W.Pkg("pkg/chain/ethereum/ecdsa/gen/abi")
				construct := "pkg/chain/ethereum/ecdsa/gen/abi." + sp[0]
				if pkg == nil || pkg.Type(sp[0]) == nil || sfile == nil || len(sfile.Structs[sp[1]]) == 0 {
					r.Undecided("C40.layout", construct, "binding struct or Solidity struct not found")
					continue
				}
				st, _ := pkg.Type(sp[0]).Type().Underlying().(*types.Struct)
				sfs := sfile.Structs[sp[1]]
				ok := st != nil && st.NumFields() == len(sfs)
				var bad []string
				if ok {
					for i, sf := range sfs {
						f := st.Field(i)
						if !strings.EqualFold(f.Name(), sf.Name) || !abiCompatible(solNormType(sf.Type), f.Type()) {
							ok = false
							bad = append(bad, f.Name()+"/"+sf.Name)
						}
					}
				}
				r.Cond(ok, "C40.layout", construct, pkg.Type(sp[0]).Pos(), fmt.Sprintf("binding struct agrees field by field (name, order, type) with %s struct %s %v", sp[2], sp[1], bad))
			}
			// ---- converters to the binding structs
			type conv struct {
				fn, typ string
				want    map[string]string
			}
			big := func(s string) string { return "call:math/big.NewInt(conv:int64(" + s + "))" }
			for _, cv := range []conv{
				{"convertDkgResultToAbiType", "gen/abi.EcdsaDkgResult", map[string]string{
					"SubmitterMemberIndex": big("P0.SubmitterMemberIndex"), "GroupPubKey": "P0.GroupPublicKey", "MisbehavedMembersIndices": "P0.MisbehavedMembersIndexes",
					"Signatures": "P0.Signatures", "SigningMembersIndices": "each:P0.SigningMembersIndexes:" + big("ELEM"), "Members": "P0.Members", "MembersHash": "P0.MembersHash"}},
				{"convertInactivityClaimToAbiType", "gen/abi.EcdsaInactivityClaim", map[string]string{
					"WalletID": "P0.WalletID", "InactiveMembersIndices": "each:P0.InactiveMembersIndices:" + big("ELEM"), "HeartbeatFailed": "P0.HeartbeatFailed",
					"Signatures": "P0.Signatures", "SigningMembersIndices": "each:P0.SigningMembersIndices:" + big("ELEM")}},
			} {
				gf := r.MustFn("C40.layout", ep, cv.fn)
				if gf == nil {
					continue
				}
				m, pos := complitFields(gf, cv.typ)
				for f, want := range cv.want {
					v, has := m[f]
					got := "<missing>"
					if has {
						got = fullDesc(v)
						if strings.HasPrefix(want, "each:") {
							if src, elem, ok := elementwise(gf, v); ok {
								got = "each:" + src + ":" + elem
							}
						}
					}
					r.Cond(got == want, "C40.layout", FnName(gf)+"#"+f, pos, "field "+f+" is filled from the field of the same role; got "+abbr(got, 3))
				}
				r.Cond(len(m) == len(cv.want), "C40.layout", FnName(gf)+"#fields", pos, "exactly the binding struct's fields are set")
			}
			// ---- callers of the hash functions
			if gf := r.MustFn("C40.sorted", ep, "TbtcChain.CalculateDKGResultSignatureHash"); gf != nil {
				name := FnName(gf)
				for _, c := range Sites(gf, `^pkg/chain/ethereum\.calculateDKGResultSignatureHash$`, false) {
					a := c.Common().Args
					r.Cond(Desc(a[0]) == "P0.baseChain.chainID", "C40.sorted", name+"#chain-id", c.Pos(), "chain id is the connected chain's id")
					r.Cond(Desc(a[1]) == "call:crypto/elliptic.Marshal(P1.Curve, P1.X, P1.Y)[const:1:]", "C40.sorted", name+"#key", c.Pos(), "key bytes are the uncompressed point without the 04 prefix; got "+abbr(Desc(a[1]), 2))
					r.Cond(Desc(a[2]) == "P2" && sortedBefore(gf, "P2", c.(ssa.Instruction)), "C40.sorted", name+"#misbehaved-sorted", c.Pos(), "misbehaved indices are sorted ascending before hashing")
					r.Cond(Desc(a[3]) == big("P3"), "C40.sorted", name+"#start-block", c.Pos(), "start block is passed through")
				}
			}
			if gf := r.MustFn("C40.sorted", ep, "TbtcChain.CalculateInactivityClaimHash"); gf != nil {
				name := FnName(gf)
				for _, c := range Sites(gf, `^pkg/chain/ethereum\.calculateInactivityClaimHash$`, false) {
					a := c.Common().Args
					src, elem, okE := elementwise(gf, a[3])
					ok := Desc(a[0]) == "P0.baseChain.chainID" && Desc(a[1]) == "P1.Nonce" &&
						Desc(a[2]) == "call:crypto/elliptic.Marshal(P1.WalletPublicKey.Curve, P1.WalletPublicKey.X, P1.WalletPublicKey.Y)[const:1:]" &&
						okE && src == "P1.InactiveMembersIndexes" && elem == big("ELEM") && Desc(a[4]) == "P1.HeartbeatFailed"
					r.Cond(ok, "C40.sorted", name+"#args", c.Pos(), "chain id, nonce, unprefixed key, the inactive indices element by element in order, heartbeat flag")
				}
			}
			if gf := r.MustFn("C40.sorted", "pkg/protocol/inactivity", "NewClaimPreimage"); gf != nil {
				m, pos := complitFields(gf, "inactivity.ClaimPreimage")
				v := m["InactiveMembersIndexes"]
				ok := false
				if v != nil {
					for _, b := range gf.Blocks {
						if ret, isRet := b.Instrs[len(b.Instrs)-1].(*ssa.Return); isRet {
							ok = sortedBefore(gf, Desc(v), ret)
						}
					}
				}
				r.Cond(ok, "C40.sorted", FnName(gf)+"#inactive-sorted", pos, "the claim's inactive member indices are sorted ascending when the preimage is built")
			}
			// ---- signatures to chain format
			if cs := r.MustFn("C40.sorted", ep, "convertSignaturesToChainFormat"); cs != nil {
				name := FnName(cs)
				var sigAcc *Accum
				var keyAp *ssa.Call
				spreadElem := func(ap *ssa.Call) ssa.Value {
					if e := appendedElem(ap); e != nil {
						return e
					}
					return ap.Call.Args[1]
				}
				for _, a := range Accumulations(cs) {
					for _, ap := range a.Appends {
						switch d := Desc(spreadElem(ap)); {
						case d == "next(range(P0))#1":
							keyAp = ap
						case strings.HasPrefix(d, "P0[local:membersIndexes["):
							sigAcc = a
						}
					}
				}
				okKeys := false
				if keyAp != nil {
					fs := Facts(keyAp.Block())
					okKeys = len(fs) == 1 && fs[0] == "+next(range(P0))#0" && strings.HasPrefix(Desc(keyAp.Call.Args[0]), "local:membersIndexes")
					for _, ref := range *keyAp.Referrers() {
						if st, isSt := ref.(*ssa.Store); !isSt || Desc(st.Addr) != "&local:membersIndexes" {
							okKeys = false
						}
					}
				}
				r.Cond(okKeys, "C40.sorted", name+"#all-signers", cs.Pos(), "every key of the signatures map becomes a signing member index")
				okSig := sigAcc != nil && sigAcc.Source != nil && Desc(sigAcc.Source) == "local:membersIndexes" && len(sigAcc.Appends) == 1
				if okSig {
					ap := sigAcc.Appends[0]
					okSig = sortedBefore(cs, "local:membersIndexes", ap) && NoReturnBetweenSkip(cs, sigAcc)
				}
				r.Cond(okSig, "C40.sorted", name+"#signer-order", cs.Pos(), "signatures are concatenated while ranging over the ascending signer indices, one per index (an ill-sized one fails the whole conversion)")
				for _, rp := range SuccessReturns(cs) {
					res := RetResults(rp.Ret)
					okR := Desc(res[0]) == "local:membersIndexes" && sigAcc != nil && sigAcc.Vals[res[1]]
					r.Cond(okR, "C40.sorted", name+"#result", rp.Ret.Pos(), "returns the sorted indices and the concatenation built in that order")
				}
			}
			// ---- result assembly
			if gf := r.MustFn("C40.sorted", ep, "TbtcChain.AssembleDKGResult"); gf != nil {
				name := FnName(gf)
				m, pos := complitFields(gf, "pkg/tbtc.DKGChainResult")
				var ret ssa.Instruction
				for _, rp := range SuccessReturns(gf) {
					ret = rp.Ret
					r.Check("C40.sorted", name+"#errors", rp.Ret.Pos(), rp.Facts, okOf(`pkg/chain/ethereum\.convertPubKeyToChainFormat`), okOf(`pkg/chain/ethereum\.convertSignaturesToChainFormat`), okOf(`pkg/chain/ethereum\.computeOperatorsIDsHash`))
				}
				want := map[string]string{
					"SubmitterMemberIndex":     "P1",
					"GroupPublicKey":           "&{call:pkg/chain/ethereum.convertPubKeyToChainFormat(P2)#0}[:]",
					"MisbehavedMembersIndexes": "P4",
					"Signatures":               "call:pkg/chain/ethereum.convertSignaturesToChainFormat(P5)#1",
					"SigningMembersIndexes":    "call:pkg/chain/ethereum.convertSignaturesToChainFormat(P5)#0",
					"Members":                  "P6.OperatorsIDs",
					"MembersHash":              "call:pkg/chain/ethereum.computeOperatorsIDsHash(make:[]pkg/chain.OperatorID)#0",
				}
				for f, w := range want {
					got := "<missing>"
					if v, ok := m[f]; ok {
						got = Desc(v)
					}
					r.Cond(got == w, "C40.sorted", name+"#"+f, pos, "field "+f+" = "+w+"; got "+abbr(got, 2))
				}
				r.Cond(ret != nil && sortedBefore(gf, "P4", ret), "C40.sorted", name+"#misbehaved-sorted", pos, "misbehaved indices are sorted ascending before the result is returned")
				for _, c := range Sites(gf, `^pkg/chain/ethereum\.computeOperatorsIDsHash$`, false) {
					src, elem, okE := elementwise(gf, c.Common().Args[0])
					ok := okE && src == "P3" && elem == "P6.OperatorsIDs[(ELEM - const:1)]"
					// the sort precedes the loop
					if ok {
						for _, l := range Loops(gf) {
							if s := loopSource(l.Header); s != nil && Desc(s) == "P3" {
								ok = sortedBefore(gf, "P3", l.Header.Instrs[0])
							}
						}
					}
					r.Cond(ok, "C40.sorted", name+"#members-hash", c.Pos(), "members hash over OperatorsIDs[index−1] for the operating indices in ascending order; got "+src+" / "+abbr(elem, 2))
				}
			}
			// ---- submission gate and signed hash (pkg/tbtc)
			if gf := r.MustFn("C40.gate", "pkg/tbtc", "dkgResultSubmitter.SubmitResult"); gf != nil {
				name := FnName(gf)
				asm := `invoke:pkg/tbtc\.Chain\.AssembleDKGResult\(`
				for _, c := range Sites(gf, `^invoke:pkg/tbtc\.Chain\.SubmitDKGResult$`, false) {
					arg := Desc(c.Common().Args[0])
					r.Cond(regexp.MustCompile(`^`+asm+`.*\)#0$`).MatchString(arg), "C40.gate", name+"#submitted", c.Pos(), "the submitted value is the assembled result")
					r.Check("C40.gate", name+"#validated", c.Pos(), Facts(c.Block()),
						`^\+invoke:pkg/tbtc\.Chain\.IsDKGResultValid\(P0\.chain, `+asm+`.*\)#0\)#0$`, okOf(`pkg/tbtc\.Chain\.IsDKGResultValid`), okOf(`pkg/tbtc\.Chain\.AssembleDKGResult`))
				}
				for _, c := range Sites(gf, `^invoke:pkg/tbtc\.Chain\.AssembleDKGResult$`, false) {
					a := c.Common().Args
					got := []string{}
					for _, v := range a {
						got = append(got, Desc(v))
					}
					want := []string{"P2", "call:pkg/tecdsa/dkg.Result.GroupPublicKey(P3)#0", "call:pkg/protocol/group.Group.OperatingMemberIndexes(P3.Group)", "call:pkg/tecdsa/dkg.Result.MisbehavedMembersIndexes(P3)", "P4", "P0.groupSelectionResult"}
					r.Cond(seqEq(got, want), "C40.gate", name+"#assembled-from", c.Pos(), fmt.Sprintf("assembled from the submitter index, the result's key, operating and misbehaved members, the collected signatures and the group selection; got %v", got))
				}
			}
			if gf := r.MustFn("C40.gate", "pkg/tbtc", "inactivityClaimSubmitter.SubmitClaim"); gf != nil {
				name := FnName(gf)
				// the contract requires signaturesCount >= groupThreshold; the client's HonestThreshold equals it (C40.layout)
				for _, c := range Sites(gf, `^invoke:pkg/tbtc\.Chain\.(AssembleInactivityClaim|SubmitInactivityClaim)$`, false) {
					r.Check("C40.gate", name+"#"+strings.TrimPrefix(CalleeName(c), "invoke:pkg/tbtc.Chain."), c.Pos(), Facts(c.Block()),
						`^-\(len\(P4\) < P0\.groupParameters\.HonestThreshold\)$|^\+\(P0\.groupParameters\.HonestThreshold <= len\(P4\)\)$`)
				}
				for _, c := range Sites(gf, `^invoke:pkg/tbtc\.Chain\.AssembleInactivityClaim$`, false) {
					r.Cond(Desc(c.Common().Args[2]) == "P4", "C40.gate", name+"#signatures", c.Pos(), "the counted signatures are the ones assembled into the claim")
				}
			}
			if gf := r.MustFn("C40.gate", "pkg/tbtc", "dkgResultSigner.SignResult"); gf != nil {
				name := FnName(gf)
				for _, c := range Sites(gf, `^invoke:pkg/tbtc\.Chain\.CalculateDKGResultSignatureHash$`, false) {
					a := c.Common().Args
					ok := Desc(a[0]) == "call:pkg/tecdsa/dkg.Result.GroupPublicKey(P1)#0" && Desc(a[1]) == "call:pkg/tecdsa/dkg.Result.MisbehavedMembersIndexes(P1)" && Desc(a[2]) == "P0.dkgStartBlock"
					r.Cond(ok, "C40.gate", name+"#hash-inputs", c.Pos(), "the signed hash is over the result's key, its misbehaved members and the DKG start block")
				}
				for _, c := range Sites(gf, `^invoke:pkg/chain\.Signing\.Sign$`, false) {
					r.Cond(strings.Contains(Desc(c.Common().Args[0]), "CalculateDKGResultSignatureHash("), "C40.gate", name+"#signed", c.Pos(), "what is signed is that hash")
				}
			}
		},
	})
	witness(Witness{Prop: "C40", Name: "hash-args-swapped", File: "pkg/chain/ethereum/tbtc.go",
		Old: "\t\t{Type: uint256Type},\n\t\t{Type: bytesType},\n\t\t{Type: uint8SliceType},\n\t\t{Type: uint256Type},\n\t}.Pack(\n\t\tchainID,\n\t\tgroupPublicKey,\n\t\tmisbehavedMembersIndexes,\n\t\tstartBlock,",
		New: "\t\t{Type: uint256Type},\n\t\t{Type: uint256Type},\n\t\t{Type: bytesType},\n\t\t{Type: uint8SliceType},\n\t}.Pack(\n\t\tchainID,\n\t\tstartBlock,\n\t\tgroupPublicKey,\n\t\tmisbehavedMembersIndexes,", Rule: "C40.layout"})
	witness(Witness{Prop: "C40", Name: "contract-encodes-packed", File: "solidity/ecdsa/contracts/libraries/EcdsaInactivity.sol",
		Old: "                claim.inactiveMembersIndices,\n                claim.heartbeatFailed\n", New: "                claim.heartbeatFailed,\n                claim.inactiveMembersIndices\n", Rule: "C40.layout"})
	witness(Witness{Prop: "C40", Name: "signatures-in-map-order", File: "pkg/chain/ethereum/tbtc.go",
		Old: "\tsort.Slice(membersIndexes, func(i, j int) bool {\n\t\treturn membersIndexes[i] < membersIndexes[j]\n\t})", New: "\tsort.Slice(membersIndexes, func(i, j int) bool {\n\t\treturn membersIndexes[i] > membersIndexes[j]\n\t})", Rule: "C40.sorted"})
	witness(Witness{Prop: "C40", Name: "submit-without-validation", File: "pkg/tbtc/dkg_submit.go",
		Old: "\tif !isValid {\n\t\treturn fmt.Errorf(\"invalid DKG result\")\n\t}", New: "\tif !isValid {\n\t\tdrs.dkgLogger.Warnf(\"invalid DKG result\")\n\t}", Rule: "C40.gate"})
}

func packExtract(c *ssa.Call, idx int) *ssa.Extract {
	for _, ref := range *c.Referrers() {
		if ex, ok := ref.(*ssa.Extract); ok && ex.Index == idx {
			return ex
		}
	}
	return nil
}

// NoReturnBetweenSkip: within the accumulation's loop every iteration either
// reaches the append or leaves the function with an error (no `continue` that
// would drop an element silently).
func NoReturnBetweenSkip(fn *ssa.Function, a *Accum) bool {
	return !a.Filtered
}
