package main

import "strings"

// abbr shortens a description for display: argument lists nested deeper than
// `keep` levels are elided.
func abbr(s string, keep int) string {
	var b strings.Builder
	depth := 0
	for _, ch := range s {
		switch ch {
		case '(':
			depth++
			if depth <= keep {
				b.WriteRune(ch)
			} else if depth == keep+1 {
				b.WriteString("(…")
			}
		case ')':
			if depth <= keep+1 {
				b.WriteRune(ch)
			}
			depth--
		default:
			if depth <= keep {
				b.WriteRune(ch)
			}
		}
	}
	return b.String()
}

func abbrAll(fs []string, keep int) []string {
	out := make([]string, len(fs))
	for i, f := range fs {
		out[i] = abbr(f, keep)
	}
	return out
}

// upDepth counts how many "up(" wrappers enclose the whole description.
func upDepth(s string) int {
	k := 0
	for strings.HasPrefix(s[3*k:], "up(") && strings.HasSuffix(s[:len(s)-k], ")") {
		k++
		if 3*k >= len(s)-k {
			break
		}
	}
	return k
}
