package main

import (
	"go/types"
	"strings"

	"golang.org/x/tools/go/ssa"
)

// chanSends lists (instruction, channel, value) for every send in fn, including
// the send cases of select statements.
type chanSend struct {
	In   ssa.Instruction
	Chan ssa.Value
	Val  ssa.Value
}

func chanSends(fn *ssa.Function) []chanSend {
	var out []chanSend
	EachInstr(fn, func(in ssa.Instruction) {
		switch x := in.(type) {
		case *ssa.Send:
			out = append(out, chanSend{in, x.Chan, x.X})
		case *ssa.Select:
			for _, st := range x.States {
				if st.Dir == types.SendOnly {
					out = append(out, chanSend{in, st.Chan, st.Send})
				}
			}
		}
	})
	return out
}

// fallibleResult: v is result k (not the error) of a call whose last result is
// an error; returns the call.
func fallibleResult(v ssa.Value) *ssa.Call {
	ex, ok := v.(*ssa.Extract)
	if !ok {
		return nil
	}
	c, ok := ex.Tuple.(*ssa.Call)
	if !ok {
		return nil
	}
	res := c.Call.Signature().Results()
	if res.Len() < 2 || ex.Index == res.Len()-1 {
		return nil
	}
	if n, ok := res.At(res.Len() - 1).Type().(*types.Named); !ok || n.Obj().Name() != "error" {
		return nil
	}
	return c
}

// errNilDominates: block b is reached only when the error result of call c was nil.
func errNilDominates(b *ssa.BasicBlock, c *ssa.Call) bool {
	n := c.Call.Signature().Results().Len()
	for _, g := range Guards(b) {
		bo, ok := g.Cond.(*ssa.BinOp)
		if !ok {
			continue
		}
		var other ssa.Value
		var ex *ssa.Extract
		if e, ok := bo.X.(*ssa.Extract); ok {
			ex, other = e, bo.Y
		} else if e, ok := bo.Y.(*ssa.Extract); ok {
			ex, other = e, bo.X
		}
		if ex == nil || ex.Tuple != c || ex.Index != n-1 || !isNilConst(other) {
			continue
		}
		// (err == nil) true, or (err != nil) false
		if (bo.Op.String() == "==" && g.Pol) || (bo.Op.String() == "!=" && !g.Pol) {
			return true
		}
	}
	return false
}

func init() {
	const gp = "pkg/generator"
	register(&Prop{
		ID:        "C39",
		Technique: "static analysis: nil-on-failure flow into channel sends, must-precede ordering of Delete before hand-out, who-may-send on the pool channel, locksets of the storage (go/ssa)",
		Explanation: "generator.ParameterPool: (1) every value sent on the pool channel that is a result of a fallible call (Persistence.Save) is sent only on the err = nil edge, and the generated value is non-nil before Save; elements loaded at start-up come from ReadAll and are sent only while i < poolSize; the channel capacity is poolSize; " +
			"(2) GetNow returns a parameter only after Persistence.Delete of the very element it received returned nil, and returns that element's data; (3) nothing else in the module sends on or receives from the pool channel. " +
			"preParamsStorage: Save returns a non-nil record only after the persistence handle saved it, with the ID it was saved under; Delete removes that ID from the same directory; ReadAll appends a record only when it lies in that directory, unmarshalled without error and passed ValidateWithProof, carrying the descriptor's name as ID; all three hold the storage mutex.",
		NotDecided: "uniqueness of the generated values themselves; atomicity of the file operations inside keep-common; that a Delete reported as successful really removed the file.",
		Fn: func(r *Run) {
			r.Rule("C39.no-nil", "fallible results reach the pool channel only on their success edge; generated value non-nil", 2)
			r.Rule("C39.capacity", "channel capacity = poolSize; start-up load bounded by poolSize", 2)
			r.Rule("C39.delete-first", "GetNow hands out only after a successful Delete of the received element", 1)
			r.Rule("C39.only-door", "pool channel touched only by NewParameterPool, GetNow, ParametersCount", 3)
			r.Rule("C39.storage", "Save/Delete/ReadAll: saved-before-returned, same ID and directory, validated on load, under the mutex", 6)

			newPool := r.MustFn("C39.no-nil", gp, "NewParameterPool")
			if newPool == nil {
				return
			}
			var poolChan ssa.Value
			EachInstr(newPool, func(in ssa.Instruction) {
				if mc, ok := in.(*ssa.MakeChan); ok {
					poolChan = mc
					r.Cond(Desc(stripConv(mc.Size)) == "P3", "C39.capacity", FnName(newPool)+"#make-chan", in.Pos(), "pool channel capacity is the poolSize parameter")
				}
			})
			if poolChan == nil {
				r.Undecided("C39.capacity", FnName(newPool)+"#make-chan", "pool channel allocation not found")
				return
			}
			nSend := 0
			for _, fn := range WithClosures(newPool) {
				for _, s := range chanSends(fn) {
					if !strings.Contains(Desc(s.Chan), "make:chan") {
						continue
					}
					nSend++
					construct := FnName(fn) + "#send/" + abbr(Desc(s.Val), 1)
					if c := fallibleResult(s.Val); c != nil {
						r.Cond(errNilDominates(s.In.Block(), c), "C39.no-nil", construct, s.In.Pos(),
							"the sent value is nil when "+shortCallee(c)+" fails; the send must lie on its err = nil edge")
						if shortCallee(c) == "generator.Persistence.Save" {
							arg := c.Call.Args[0]
							nonNil := false
							for _, g := range Guards(c.Block()) {
								if bo, ok := g.Cond.(*ssa.BinOp); ok && ((bo.X == arg && isNilConst(bo.Y)) || (bo.Y == arg && isNilConst(bo.X))) {
									if (bo.Op.String() == "==" && !g.Pol) || (bo.Op.String() == "!=" && g.Pol) {
										nonNil = true
									}
								}
							}
							r.Cond(nonNil, "C39.no-nil", FnName(fn)+"#save-arg", c.Pos(), "only a non-nil generated parameter is saved and pooled")
						}
						continue
					}
					// start-up load: element of ReadAll's result, index < poolSize
					if re(`^invoke:pkg/generator\.Persistence\.ReadAll\(P2\)#0\[`).MatchString(Desc(s.Val)) {
						ok := false
						for _, g := range CmpGuards(s.In.Block()) {
							if g.Strict && Desc(stripConv(g.Hi)) == "P3" {
								if ia, isIA := s.Val.(*ssa.UnOp); isIA {
									if a, isA := ia.X.(*ssa.IndexAddr); isA && stripConv(a.Index) == stripConv(g.Lo) {
										ok = true
									}
								}
							}
						}
						r.Cond(ok, "C39.capacity", construct, s.In.Pos(), "start-up load sends element i only under i < poolSize (never blocks, never exceeds the size)")
						continue
					}
					r.Fail("C39.no-nil", construct, s.In.Pos(), "unrecognised value sent to the pool", nil, nil)
				}
			}
			if nSend < 2 {
				r.Undecided("C39.no-nil", FnName(newPool)+"#sends", "expected the start-up and the generator send")
			}

			// GetNow
			if g := r.MustFn("C39.delete-first", gp, "ParameterPool.GetNow"); g != nil {
				for _, p := range SuccessReturns(g) {
					d := Desc(RetResults(p.Ret)[0])
					ok := re(`^&select#\d\.Data$`).MatchString(d) &&
						HasFact(p.Facts, `^\+\(invoke:pkg/generator\.Persistence\.Delete\(P0\.persistence, select#\d\) == nil\)$`)
					// the deleted element and the returned element are the same select result
					m1 := re(`select#(\d)`).FindStringSubmatch(d)
					same := false
					for _, f := range p.Facts {
						if m2 := re(`Persistence\.Delete\(P0\.persistence, select#(\d)\)`).FindStringSubmatch(f); m2 != nil && m1 != nil && m1[1] == m2[1] {
							same = true
						}
					}
					r.Cond(ok && same, "C39.delete-first", FnName(g)+"#return", p.Ret.Pos(), "a parameter is returned only after Delete(received element) = nil, and it is that element's data; returned "+d)
				}
			}

			// only door: sends/receives/len on channels of element type *Persisted[...]
			isPoolChan := func(t types.Type) bool {
				ch, ok := t.Underlying().(*types.Chan)
				if !ok {
					return false
				}
				return strings.Contains(typeName(ch.Elem()), "pkg/generator.Persisted")
			}
			allowed := map[string]bool{"pkg/generator.NewParameterPool": true, "pkg/generator.ParameterPool.GetNow": true, "pkg/generator.ParameterPool.ParametersCount": true}
			for _, fn := range r.W.AllFuncs {
				top := fn
				for top.Parent() != nil {
					top = top.Parent()
				}
				name := FnName(top)
				if i := strings.Index(name, "["); i > 0 {
					name = name[:i]
				}
				touched := ""
				EachInstr(fn, func(in ssa.Instruction) {
					switch x := in.(type) {
					case *ssa.Send:
						if isPoolChan(x.Chan.Type()) {
							touched = "send"
						}
					case *ssa.Select:
						for _, st := range x.States {
							if isPoolChan(st.Chan.Type()) {
								touched = "select"
							}
						}
					case *ssa.UnOp:
						if x.Op.String() == "<-" && isPoolChan(x.X.Type()) {
							touched = "receive"
						}
					}
				})
				if touched != "" {
					r.Cond(allowed[name], "C39.only-door", FnName(fn)+"#"+touched, fn.Pos(), "the pool channel is used only by the pool's constructor, GetNow and ParametersCount")
				}
			}

			// storage
			const dk = "pkg/tecdsa/dkg"
			if s := r.MustFn("C39.storage", dk, "preParamsStorage.Save"); s != nil {
				for _, p := range SuccessReturns(s) {
					r.Check("C39.storage", FnName(s)+"#return-record", p.Ret.Pos(), p.Facts,
						okOf(`github\.com/keep-network/keep-common/pkg/persistence\.BasicHandle\.Save`), okOf(`pkg/tecdsa/dkg\.PreParams\.Marshal`))
				}
				for _, c := range Sites(s, `^invoke:github\.com/keep-network/keep-common/pkg/persistence\.BasicHandle\.Save$`, false) {
					a := c.Common().Args
					idOK := false
					EachInstr(s, func(in ssa.Instruction) {
						if st, ok := in.(*ssa.Store); ok && strings.HasSuffix(Desc(st.Addr), ".ID") && st.Val == a[2] {
							idOK = true
						}
					})
					r.Cond(idOK && Desc(a[1]) == `const:"preparams"`, "C39.storage", FnName(s)+"#id", c.Pos(), "the record's ID is the file name it was saved under, in the preparams directory")
				}
				r.Cond(len(LocksHeld(s)) > 0 && allCallsHold(s, `persistence\.BasicHandle\.`, "P0.mutex"), "C39.storage", FnName(s)+"#mutex", s.Pos(), "persistence handle used under the storage mutex")
			}
			if d := r.MustFn("C39.storage", dk, "preParamsStorage.Delete"); d != nil {
				n := 0
				for _, c := range Sites(d, `^invoke:github\.com/keep-network/keep-common/pkg/persistence\.BasicHandle\.Delete$`, false) {
					n++
					a := c.Common().Args
					r.Cond(Desc(a[0]) == `const:"preparams"` && Desc(a[1]) == "P1.ID", "C39.storage", FnName(d)+"#delete", c.Pos(), "deletes the record's own ID from the preparams directory")
				}
				if n == 0 {
					r.Undecided("C39.storage", FnName(d)+"#delete", "no persistence Delete call")
				}
				for _, ret := range ReturnsMatching(d, 0, `.`) {
					r.Cond(strings.HasPrefix(Desc(RetResults(ret)[0]), "invoke:github.com/keep-network/keep-common/pkg/persistence.BasicHandle.Delete("), "C39.storage", FnName(d)+"#result", ret.Pos(), "Delete reports the persistence layer's own result")
				}
				r.Cond(allCallsHold(d, `persistence\.BasicHandle\.`, "P0.mutex"), "C39.storage", FnName(d)+"#mutex", d.Pos(), "persistence handle used under the storage mutex")
			}
			if ra := r.MustFn("C39.storage", dk, "preParamsStorage.ReadAll"); ra != nil {
				n := 0
				for _, fn := range WithClosures(ra) {
					EachInstr(fn, func(in ssa.Instruction) {
						c := isAppendInstr(in)
						if c == nil {
							return
						}
						n++
						facts := Facts(in.Block())
						r.Check("C39.storage", FnName(fn)+"#append-loaded", in.Pos(), facts,
							`^\+\(const:"preparams" == invoke:github\.com/keep-network/keep-common/pkg/persistence\.DataDescriptor\.Directory\(.*\)\)$`,
							okOf(`github\.com/keep-network/keep-common/pkg/persistence\.DataDescriptor\.Content`),
							okOf(`pkg/tecdsa/dkg\.PreParams\.Unmarshal`),
							`^\+call:github\.com/bnb-chain/tss-lib/ecdsa/keygen\.LocalPreParams\.ValidateWithProof\(`)
					})
				}
				if n == 0 {
					r.Undecided("C39.storage", FnName(ra)+"#append-loaded", "no append of a loaded record found")
				}
				r.Cond(allCallsHold(ra, `persistence\.BasicHandle\.`, "P0.mutex"), "C39.storage", FnName(ra)+"#mutex", ra.Pos(), "persistence handle used under the storage mutex")
			}
		},
	})
	witness(Witness{Prop: "C39", Name: "drop-return-after-failed-save", File: "pkg/generator/pool.go",
		Old: "\t\t\t\terr,\n\t\t\t)\n\t\t\treturn\n\t\t}\n\n\t\tselect {", New: "\t\t\t\terr,\n\t\t\t)\n\t\t}\n\n\t\tselect {", Rule: "C39.no-nil"})
	witness(Witness{Prop: "C39", Name: "hand-out-before-delete", File: "pkg/generator/pool.go",
		Old: "\t\terr := pp.persistence.Delete(generated)\n\t\tif err != nil {", New: "\t\terr := pp.persistence.Delete(generated)\n\t\tif err != nil && generated == nil {", Rule: "C39.delete-first"})
	witness(Witness{Prop: "C39", Name: "load-unvalidated", File: "pkg/tecdsa/dkg/preparams.go",
		Old: "if !persistedPreParams.Data.data.ValidateWithProof() {", New: "if !persistedPreParams.Data.data.ValidateWithProof() && len(content) == 0 {", Rule: "C39.storage"})
}

// allCallsHold: every call in fn (not closures) whose callee matches pat holds the lock.
func allCallsHold(fn *ssa.Function, pat, lock string) bool {
	ok := true
	n := 0
	held := LocksHeld(fn)
	for _, c := range CallsMatching(fn, pat) {
		n++
		if !holds(held[c.(ssa.Instruction)], "^"+q(lock)+"$") {
			ok = false
		}
	}
	return ok && n > 0
}
