package main

import (
	"go/types"
	"sort"
	"strings"

	"golang.org/x/tools/go/ssa"
)

// structLits finds composite literals of the named struct type allocated in
// fn: for each Alloc, the values stored to its fields by name.
type structLit struct {
	Alloc  *ssa.Alloc
	Fields map[string]ssa.Value
	Block  *ssa.BasicBlock
}

func structLits(fn *ssa.Function, rel, typ string) []structLit {
	var out []structLit
	EachInstr(fn, func(in ssa.Instruction) {
		a, ok := in.(*ssa.Alloc)
		if !ok {
			return
		}
		n := namedOf(a.Type())
		if n == nil || n.Obj().Pkg() == nil || n.Obj().Name() != typ || short(n.Obj().Pkg().Path()) != rel {
			return
		}
		sl := structLit{Alloc: a, Fields: map[string]ssa.Value{}, Block: a.Block()}
		for _, r := range *a.Referrers() {
			if fa, ok := r.(*ssa.FieldAddr); ok {
				for _, r2 := range *fa.Referrers() {
					if st, ok := r2.(*ssa.Store); ok && st.Addr == fa {
						sl.Fields[fieldName(fa.X.Type().Underlying().(*types.Pointer).Elem(), fa.Field)] = st.Val
					}
				}
			}
		}
		out = append(out, sl)
	})
	return out
}

func structFieldNames(w *World, rel, typ string) []string {
	p := w.ByPath[modPath+"/"+rel]
	if p == nil {
		return nil
	}
	obj := p.Types.Scope().Lookup(typ)
	if obj == nil {
		return nil
	}
	s, ok := obj.Type().Underlying().(*types.Struct)
	if !ok {
		return nil
	}
	var out []string
	for i := 0; i < s.NumFields(); i++ {
		out = append(out, s.Field(i).Name())
	}
	sort.Strings(out)
	return out
}

func init() {
	register(&Prop{
		ID:        "C23",
		Technique: "static analysis: dominator guard facts on the goroutine launch, phi provenance of the last-window register, wrapper summaries of index()/isAfter() (go/ssa)",
		Explanation: "watchCoordinationWindows: the only launch of onWindowFn is dominated by window.index() > 0 and window.isAfter(lastWindow) = true for the window built from the received block; lastWindow is a function-local SSA register (no other goroutine can see it) whose only non-nil source is the launched window itself, assigned on the launching path; " +
			"index() returns a non-zero value only under block % coordinationFrequencyBlocks == 0 and that value is block / frequency (so index>0 ⇒ block is a positive multiple); isAfter returns true only for a nil predecessor or a strictly greater coordination block.",
		NotDecided: "the block stream itself (chain library); what onWindowFn does.",
		Fn: func(r *Run) {
			r.Rule("C23.gate", "go onWindowFn(w) ⇐ w.index()>0 ∧ w.isAfter(last); last updated only with launched windows", 3)
			r.Rule("C23.index", "index()≠0 ⇒ block % freq == 0, value block/freq", 1)
			r.Rule("C23.after", "isAfter ⇒ other==nil ∨ block > other.block", 1)
			fn := r.MustFn("C23.gate", "pkg/tbtc", "watchCoordinationWindows")
			freq := r.PkgConst("C23.index", "pkg/tbtc", "coordinationFrequencyBlocks")
			if fn != nil {
				var gos []*ssa.Go
				EachInstr(fn, func(in ssa.Instruction) {
					if g, ok := in.(*ssa.Go); ok {
						gos = append(gos, g)
					}
				})
				if len(gos) != 1 {
					r.Undecided("C23.gate", FnName(fn)+"#go", "expected exactly one goroutine launch")
				}
				for _, g := range gos {
					ok := Desc(g.Call.Value) == "P2" && len(g.Call.Args) == 1
					r.Cond(ok, "C23.gate", FnName(fn)+"#go/callee", g.Pos(), "the launched function must be onWindowFn with the window")
					if !ok {
						continue
					}
					w := g.Call.Args[0]
					wd := Desc(w)
					r.Cond(re(`^call:pkg/tbtc\.newCoordinationWindow\(select#\d\)$`).MatchString(wd), "C23.gate", FnName(fn)+"#go/window", g.Pos(), "window must be built from the received block; got "+wd)
					facts := Facts(g.Block())
					r.Check("C23.gate", FnName(fn)+"#go/guards", g.Pos(), facts,
						`^\+\(const:0 < call:pkg/tbtc\.coordinationWindow\.index\(`+q(wd)+`\)\)$`,
						`^\+call:pkg/tbtc\.coordinationWindow\.isAfter\(`+q(wd)+`, phi\{.*\}\)$`)
					// the isAfter argument: phi of {nil, w, itself}, w only from the launching path
					for _, gd := range Guards(g.Block()) {
						c, isCall := gd.Cond.(*ssa.Call)
						if !isCall || CalleeName(c) != "pkg/tbtc.coordinationWindow.isAfter" {
							continue
						}
						phi, isPhi := c.Call.Args[1].(*ssa.Phi)
						if !isPhi {
							r.Fail("C23.gate", FnName(fn)+"#last-window", c.Pos(), "last window must be a loop-carried local register", nil, nil)
							continue
						}
						good, hasW, hasNil := true, false, false
						for i, e := range phi.Edges {
							switch {
							case e == w:
								hasW = true
								if !dominates(g.Block(), phi.Block().Preds[i]) {
									good = false
								}
							case isNilConst(e):
								hasNil = true
							case e == phi:
							default:
								if p2, ok := e.(*ssa.Phi); ok {
									// nested loop-carried phi of the same variable
									for _, e2 := range p2.Edges {
										if e2 != phi && e2 != w && e2 != p2 && !isNilConst(e2) {
											good = false
										}
									}
								} else {
									good = false
								}
							}
						}
						r.Cond(good && hasW && hasNil, "C23.gate", FnName(fn)+"#last-window", c.Pos(),
							"lastWindow must start nil and be assigned only the launched window on the launching path; got "+Desc(phi))
					}
				}
			}
			if ix := r.MustFn("C23.index", "pkg/tbtc", "coordinationWindow.index"); ix != nil {
				n := 0
				for _, p := range ReturnPaths(ix, 0, func(v ssa.Value) bool { return Desc(v) != "const:0" }) {
					n++
					r.Cond(Desc(p.Val) == "(P0.coordinationBlock / const:"+freq+")", "C23.index", FnName(ix)+"#value", p.Ret.Pos(), "index must be block / frequency; got "+Desc(p.Val))
					r.Check("C23.index", FnName(ix)+"#guard", p.Ret.Pos(), p.Facts, `^\+\(\(P0\.coordinationBlock % const:`+freq+`\) == const:0\)$|^\+\(const:0 == \(P0\.coordinationBlock % const:`+freq+`\)\)$`)
				}
				if n == 0 {
					r.Undecided("C23.index", FnName(ix), "no non-zero return found")
				}
			}
			if ia := r.MustFn("C23.after", "pkg/tbtc", "coordinationWindow.isAfter"); ia != nil {
				for _, p := range ReturnPaths(ia, 0, func(v ssa.Value) bool { cb, isc := constBool(v); return !isc || cb }) {
					if _, isc := constBool(p.Val); isc {
						r.Check("C23.after", FnName(ia)+"#true", p.Ret.Pos(), p.Facts, `^\+\(P1 == nil\)$`)
					} else {
						d := Desc(p.Val)
						r.Cond(d == "(P0.coordinationBlock > P1.coordinationBlock)" || d == "(P1.coordinationBlock < P0.coordinationBlock)", "C23.after", FnName(ia)+"#cmp", p.Ret.Pos(), "must compare strictly greater; got "+d)
					}
				}
			}
			if nw := r.MustFn("C23.gate", "pkg/tbtc", "newCoordinationWindow"); nw != nil {
				ok := false
				for _, sl := range structLits(nw, "pkg/tbtc", "coordinationWindow") {
					if v := sl.Fields["coordinationBlock"]; v != nil && Desc(v) == "P0" {
						ok = true
					}
				}
				r.Cond(ok, "C23.gate", FnName(nw), nw.Pos(), "window's coordinationBlock must be the given block")
			}
		},
	})

	register(&Prop{
		ID:        "C24",
		Technique: "static analysis: dominator guard facts on the follower's accepting return, message-field coverage, provenance of fault culprits (go/ssa)",
		Explanation: "executeFollowerRoutine: the only non-error return is dominated by: sender not one of this node's own members, IsValidMembership(message.senderID, netMessage.SenderPublicKey()), message.coordinationBlock = this window's block, message.walletPublicKeyHash = this wallet's hash, " +
			"message.senderID = membersByOperator(leader)[0] (membersByOperator returns ascending positions+1 of exactly the operator's seats), and the proposal's action ∈ allowed actions; it returns that message's proposal; every field of coordinationMessage takes part in these guards (field list compared with the struct). " +
			"Fault records: impersonation ⇒ culprit is the address of netMessage.SenderPublicKey() and it is recorded only for a valid member whose index ≠ leader's; mistake ⇒ culprit leader, only for the leader's own message with a disallowed action; idleness ⇒ culprit leader, recorded on the path that ends in the error return and never on the accepting path.",
		NotDecided: "that messages arrive during the active phase (ctx deadline set by the caller); liveness.",
		Fn: func(r *Run) {
			r.Rule("C24.accept", "accepting return ⇐ not-self ∧ membership ∧ window ∧ wallet ∧ sender==leader's lowest index ∧ allowed action", 1)
			r.Rule("C24.coverage", "every coordinationMessage field is guarded", 1)
			r.Rule("C24.faults", "culprit/type/condition of each fault record", 3)
			r.Rule("C24.leader-id", "membersByOperator: ascending i+1 of the operator's own seats", 3)
			fn := r.MustFn("C24.accept", "pkg/tbtc", "coordinationExecutor.executeFollowerRoutine")
			if fn == nil {
				return
			}
			tas := payloadAsserts(fn)
			if len(tas) != 1 {
				r.Undecided("C24.accept", FnName(fn), "expected one payload type assertion")
				return
			}
			var msg ssa.Value
			for _, ref := range *tas[0].Referrers() {
				if e, ok := ref.(*ssa.Extract); ok && e.Index == 0 {
					msg = e
				}
			}
			net := tas[0].X.(*ssa.Call).Call.Value
			al := map[string]string{Desc(msg): "MSG", Desc(net): "NET"}
			leaderID := `call:pkg/tbtc\.wallet\.membersByOperator\(&?P0\.coordinatedWallet, P2\)\[const:0\]`
			sr := SuccessReturns(fn)
			if len(sr) != 1 {
				r.Undecided("C24.accept", FnName(fn)+"#return", "expected exactly one accepting return")
			}
			var accept *ssa.Return
			for _, p := range sr {
				accept = p.Ret
				facts := aliasAll(p.Facts, al)
				r.Check("C24.accept", FnName(fn)+"#accept", p.Ret.Pos(), facts,
					`^-call:(?:golang\.org/x/exp/)?slices\.Contains\[.*\]\(P0\.membersIndexes, MSG\.senderID\)$`,
					membershipRe,
					eitherOrder(`MSG\.coordinationBlock`, `P3`),
					eitherOrder(`MSG\.walletPublicKeyHash`, `call:pkg/tbtc\.coordinationExecutor\.walletPublicKeyHash\(P0\)`),
					eitherOrder(`MSG\.senderID`, leaderID),
					`^\+call:(?:golang\.org/x/exp/)?slices\.Contains\[.*\]\(P4, invoke:pkg/tbtc\.CoordinationProposal\.ActionType\(MSG\.proposal\)\)$`)
				r.Cond(alias(Desc(RetResults(p.Ret)[0]), al) == "MSG.proposal", "C24.accept", FnName(fn)+"#accept/value", p.Ret.Pos(), "must return the accepted message's proposal")
			}
			got := strings.Join(structFieldNames(r.W, "pkg/tbtc", "coordinationMessage"), ",")
			r.Cond(got == "coordinationBlock,proposal,senderID,walletPublicKeyHash", "C24.coverage", "pkg/tbtc.coordinationMessage", 0,
				"guards cover senderID, coordinationBlock, walletPublicKeyHash, proposal; struct has: "+got)
			// faults
			imp := r.PkgConst("C24.faults", "pkg/tbtc", "FaultLeaderImpersonation")
			mis := r.PkgConst("C24.faults", "pkg/tbtc", "FaultLeaderMistake")
			idle := r.PkgConst("C24.faults", "pkg/tbtc", "FaultLeaderIdleness")
			seen := map[string]bool{}
			for _, sl := range structLits(fn, "pkg/tbtc", "coordinationFault") {
				ft, cu := "", ""
				if v := sl.Fields["faultType"]; v != nil {
					ft = strings.TrimPrefix(Desc(v), "const:")
				}
				if v := sl.Fields["culprit"]; v != nil {
					cu = alias(Desc(v), al)
				}
				facts := aliasAll(ImpliedFacts(sl.Block, 0), al)
				switch ft {
				case imp:
					seen["imp"] = true
					r.Cond(re(`^invoke:pkg/chain\.Signing\.PublicKeyBytesToAddress\(invoke:pkg/tbtc\.Chain\.Signing\(P0\.chain\), invoke:pkg/net\.Message\.SenderPublicKey\(NET\)\)$`).MatchString(cu),
						"C24.faults", FnName(fn)+"#impersonation/culprit", sl.Alloc.Pos(), "impersonation culprit must be the actual sender's address; got "+abbr(cu, 2))
					r.Check("C24.faults", FnName(fn)+"#impersonation/guards", sl.Alloc.Pos(), facts, membershipRe,
						`^-\((?:MSG\.senderID == `+leaderID+`|`+leaderID+` == MSG\.senderID)\)$`)
				case mis:
					seen["mis"] = true
					r.Cond(cu == "P2", "C24.faults", FnName(fn)+"#mistake/culprit", sl.Alloc.Pos(), "mistake culprit must be the leader; got "+cu)
					r.Check("C24.faults", FnName(fn)+"#mistake/guards", sl.Alloc.Pos(), facts, membershipRe, eitherOrder(`MSG\.senderID`, leaderID),
						`^-call:(?:golang\.org/x/exp/)?slices\.Contains\[.*\]\(P4, invoke:pkg/tbtc\.CoordinationProposal\.ActionType\(MSG\.proposal\)\)$`)
				case idle:
					seen["idle"] = true
					r.Cond(cu == "P2", "C24.faults", FnName(fn)+"#idleness/culprit", sl.Alloc.Pos(), "idleness culprit must be the leader; got "+cu)
					if accept != nil {
						r.Cond(!Reaches(sl.Block, accept.Block()) && sl.Block != accept.Block(), "C24.faults", FnName(fn)+"#idleness/not-on-accept", sl.Alloc.Pos(), "idleness must not be recorded on the accepting path")
					}
					// every error return is reached through the idleness record
					for _, b := range fn.Blocks {
						if ret, ok := b.Instrs[len(b.Instrs)-1].(*ssa.Return); ok && ret != accept {
							r.Cond(dominates(sl.Block, b), "C24.faults", FnName(fn)+"#idleness/on-failure", ret.Pos(), "leaving without a valid proposal must record leader idleness")
						}
					}
				default:
					r.Fail("C24.faults", FnName(fn)+"#fault", sl.Alloc.Pos(), "unrecognised fault type "+ft, nil, nil)
				}
			}
			for _, k := range []string{"imp", "mis", "idle"} {
				if !seen[k] {
					r.Undecided("C24.faults", FnName(fn)+"#"+k, "fault record not found")
				}
			}
			if mb := r.MustFn("C24.leader-id", "pkg/tbtc", "wallet.membersByOperator"); mb != nil {
				sorts := Sites(mb, `^(?:golang\.org/x/exp/)?slices\.Sort\[`, false)
				for _, p := range ReturnPaths(mb, 0, func(ssa.Value) bool { return true }) {
					ok := false
					for _, s := range sorts {
						if InstrBefore(s, p.Ret) && Desc(s.Common().Args[0]) == Desc(p.Val) {
							ok = true
						}
					}
					r.Cond(ok, "C24.leader-id", FnName(mb)+"#sorted", p.Ret.Pos(), "result must be sorted ascending before it is returned")
				}
				for _, c := range Sites(mb, `^builtin:append$`, false) {
					el := appendedElems(c.Common().Args[1])
					if len(el) != 1 {
						r.Fail("C24.leader-id", FnName(mb)+"#append", c.Pos(), "cannot identify appended element", nil, nil)
						continue
					}
					// the guard compares signingGroupOperators[IDX] with the operator; the element must be IDX+1
					var idxV ssa.Value
					for _, g := range Guards(c.Block()) {
						bo, ok := g.Cond.(*ssa.BinOp)
						if !ok || !g.Pol || bo.Op.String() != "==" {
							continue
						}
						for _, pair := range [][2]ssa.Value{{bo.X, bo.Y}, {bo.Y, bo.X}} {
							if Desc(pair[1]) != "P1" {
								continue
							}
							if ld, ok := pair[0].(*ssa.UnOp); ok {
								if ia, ok := ld.X.(*ssa.IndexAddr); ok && Desc(ia.X) == "P0.signingGroupOperators" {
									idxV = ia.Index
								}
							}
						}
					}
					if idxV == nil {
						r.Fail("C24.leader-id", FnName(mb)+"#filter", c.Pos(), "append must be dominated by signingGroupOperators[i] == operator", nil, Facts(c.Block()))
						continue
					}
					r.Ok("C24.leader-id", FnName(mb)+"#filter", c.Pos(), "")
					want := affAdd(Affine(idxV), Aff{C: 1}, 1).String()
					r.Cond(Affine(el[0]).String() == want, "C24.leader-id", FnName(mb)+"#index", c.Pos(), "appended index must be position+1 = "+want+"; got "+Affine(el[0]).String())
				}
			}
		},
	})
}
