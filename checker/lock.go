package main

import (
	"go/types"
	"sort"
	"strings"

	"golang.org/x/tools/go/ssa"
)

type lockset map[string]bool

func (l lockset) clone() lockset {
	n := lockset{}
	for k := range l {
		n[k] = true
	}
	return n
}

func (l lockset) list() []string {
	out := make([]string, 0, len(l))
	for k := range l {
		out = append(out, k)
	}
	sort.Strings(out)
	return out
}

var lockAcquire = map[string]bool{"sync.Mutex.Lock": true, "sync.RWMutex.Lock": true, "sync.RWMutex.RLock": true}
var lockRelease = map[string]bool{"sync.Mutex.Unlock": true, "sync.RWMutex.Unlock": true, "sync.RWMutex.RUnlock": true}

func lockOp(in ssa.Instruction) (name string, acquire, release bool) {
	c, ok := in.(*ssa.Call)
	if !ok {
		return "", false, false
	}
	cn := CalleeName(c)
	if lockAcquire[cn] || lockRelease[cn] {
		if len(c.Call.Args) == 0 {
			return "", false, false
		}
		d := strings.TrimPrefix(Desc(c.Call.Args[0]), "&")
		return d, lockAcquire[cn], lockRelease[cn]
	}
	return "", false, false
}

// sharedSuffix marks a lock that is held through RLock: readers may overlap,
// so a write under it is not protected.
const sharedSuffix = "|shared"

var locksCache = map[*ssa.Function]map[ssa.Instruction][]string{}

// LocksHeld computes, for every instruction of fn, the locks that are held on
// every path reaching it (must-hold; deferred unlocks keep the lock held until
// return). Lock identity is the canonical description of the mutex address.
func LocksHeld(fn *ssa.Function) map[ssa.Instruction][]string {
	if r, ok := locksCache[fn]; ok {
		return r
	}
	in := make([]lockset, len(fn.Blocks))
	out := make([]lockset, len(fn.Blocks))
	visited := make([]bool, len(fn.Blocks))
	transfer := func(b *ssa.BasicBlock, s lockset, rec map[ssa.Instruction][]string) lockset {
		s = s.clone()
		for _, ins := range b.Instrs {
			if rec != nil {
				rec[ins] = s.list()
			}
			if name, acq, rel := lockOp(ins); name != "" {
				if acq {
					s[name] = true
					// a read lock of a RWMutex is held in shared mode only
					if c, ok := ins.(*ssa.Call); ok && CalleeName(c) == "sync.RWMutex.RLock" {
						s[name+sharedSuffix] = true
					} else {
						delete(s, name+sharedSuffix)
					}
				} else if rel {
					delete(s, name)
					delete(s, name+sharedSuffix)
				}
			}
		}
		return s
	}
	if len(fn.Blocks) == 0 {
		return nil
	}
	work := []*ssa.BasicBlock{fn.Blocks[0]}
	in[0] = lockset{}
	visited[0] = true
	// Recover block (if any) starts empty.
	if fn.Recover != nil {
		in[fn.Recover.Index] = lockset{}
		visited[fn.Recover.Index] = true
		work = append(work, fn.Recover)
	}
	for len(work) > 0 {
		b := work[len(work)-1]
		work = work[:len(work)-1]
		o := transfer(b, in[b.Index], nil)
		out[b.Index] = o
		for _, s := range b.Succs {
			if !visited[s.Index] {
				visited[s.Index] = true
				in[s.Index] = o.clone()
				work = append(work, s)
				continue
			}
			changed := false
			for k := range in[s.Index] {
				if !o[k] {
					delete(in[s.Index], k)
					changed = true
				}
			}
			if changed {
				work = append(work, s)
			}
		}
	}
	rec := map[ssa.Instruction][]string{}
	for _, b := range fn.Blocks {
		if visited[b.Index] {
			transfer(b, in[b.Index], rec)
		}
	}
	locksCache[fn] = rec
	return rec
}

func holds(held []string, pattern string) bool {
	r := re(pattern)
	for _, h := range held {
		if r.MatchString(h) {
			return true
		}
	}
	return false
}

// ---------------------------------------------------------------- field accesses

type FieldAccess struct {
	Fn    *ssa.Function
	Instr ssa.Instruction
	Write bool
	Kind  string // store, load, mapupdate, delete, append-store, range, len, lookup, addr
	Base  ssa.Value // the struct (pointer) whose field is accessed
}

func namedOf(t types.Type) *types.Named {
	for {
		switch x := t.(type) {
		case *types.Pointer:
			t = x.Elem()
			continue
		case *types.Named:
			return x
		}
		return nil
	}
}

// FieldAccesses finds every access to field `field` of named struct type
// rel.typeName in repository functions. Loads of map/slice-typed fields that
// flow into MapUpdate / delete are classified as writes of the content.
func (w *World) FieldAccesses(rel, typeName, field string) []FieldAccess {
	var out []FieldAccess
	match := func(t types.Type, idx int) bool {
		n := namedOf(t)
		if n == nil || n.Obj().Pkg() == nil || n.Obj().Name() != typeName || short(n.Obj().Pkg().Path()) != rel {
			return false
		}
		return fieldName(n, idx) == field
	}
	for _, fn := range w.AllFuncs {
		EachInstr(fn, func(in ssa.Instruction) {
			n0 := len(out)
			defer func() {
				var base ssa.Value
				switch x := in.(type) {
				case *ssa.FieldAddr:
					base = x.X
				case *ssa.Field:
					base = x.X
				}
				for i := n0; i < len(out); i++ {
					out[i].Base = base
				}
			}()
			switch x := in.(type) {
			case *ssa.FieldAddr:
				if !match(x.X.Type(), x.Field) {
					return
				}
				for _, ref := range *x.Referrers() {
					switch u := ref.(type) {
					case *ssa.Store:
						if u.Addr == x {
							out = append(out, FieldAccess{Fn: fn, Instr: u, Write: true, Kind: "store"})
						} else {
							out = append(out, FieldAccess{Fn: fn, Instr: u, Write: false, Kind: "addr"})
						}
					case *ssa.UnOp:
						out = append(out, classifyLoad(fn, u)...)
					default:
						// address passed elsewhere (e.g. atomic.AddUint64(&x.f, 1), mutex ops)
						out = append(out, FieldAccess{Fn: fn, Instr: ref, Write: false, Kind: "addr"})
					}
				}
			case *ssa.Field:
				if match(x.X.Type(), x.Field) {
					out = append(out, FieldAccess{Fn: fn, Instr: x, Write: false, Kind: "load"})
				}
			}
		})
	}
	return out
}

func classifyLoad(fn *ssa.Function, ld *ssa.UnOp) []FieldAccess {
	var out []FieldAccess
	refs := ld.Referrers()
	if refs == nil || len(*refs) == 0 {
		return []FieldAccess{{Fn: fn, Instr: ld, Kind: "load"}}
	}
	for _, ref := range *refs {
		switch u := ref.(type) {
		case *ssa.MapUpdate:
			if u.Map == ld {
				out = append(out, FieldAccess{Fn: fn, Instr: u, Write: true, Kind: "mapupdate"})
				continue
			}
		case *ssa.Call:
			if b, ok := u.Call.Value.(*ssa.Builtin); ok {
				switch b.Name() {
				case "delete":
					out = append(out, FieldAccess{Fn: fn, Instr: u, Write: true, Kind: "delete"})
					continue
				case "len":
					out = append(out, FieldAccess{Fn: fn, Instr: u, Write: false, Kind: "len"})
					continue
				}
			}
		case *ssa.Lookup:
			out = append(out, FieldAccess{Fn: fn, Instr: u, Write: false, Kind: "lookup"})
			continue
		case *ssa.Range:
			out = append(out, FieldAccess{Fn: fn, Instr: u, Write: false, Kind: "range"})
			continue
		}
		out = append(out, FieldAccess{Fn: fn, Instr: ld, Write: false, Kind: "load"})
	}
	return out
}

// allocatesReceiverType reports whether fn allocates a value of the named
// type itself (constructor): accesses inside are to an unshared object.
func allocatesType(fn *ssa.Function, rel, typeName string) bool {
	found := false
	EachInstr(fn, func(in ssa.Instruction) {
		if a, ok := in.(*ssa.Alloc); ok {
			if n := namedOf(a.Type()); n != nil && n.Obj().Pkg() != nil && n.Obj().Name() == typeName && short(n.Obj().Pkg().Path()) == rel {
				found = true
			}
		}
	})
	return found
}

type ssaFunc = ssa.Function
type ssaInstr = ssa.Instruction
