package main

import (
	"fmt"
	"strings"

	"golang.org/x/tools/go/ssa"
)

// Added after round-2 seeds C23-4, C24-4, C24-6.
func init() {
	extend("C23", func(r *Run) {
		r.Rule("C23.one-watcher", "the window watcher keeps its memory for the life of the coordination layer: it returns only when its context is done, and it is started once", 2)
		if fn := r.MustFn("C23.one-watcher", "pkg/tbtc", "watchCoordinationWindows"); fn != nil {
			ok, n := true, 0
			for _, b := range fn.Blocks {
				if _, isRet := b.Instrs[len(b.Instrs)-1].(*ssa.Return); !isRet {
					continue
				}
				n++
				// the returning block is the select case that received from ctx.Done()
				done := false
				for _, f := range Facts(b) {
					if strings.Contains(f, "select") && strings.Contains(f, "== const:") {
						done = true
					}
				}
				// identify the select state index of ctx.Done()
				doneIdx := -1
				EachInstr(fn, func(in ssa.Instruction) {
					if sel, isSel := in.(*ssa.Select); isSel {
						for i, st := range sel.States {
							if strings.Contains(Desc(st.Chan), "context.Context.Done(P0)") {
								doneIdx = i
							}
						}
					}
				})
				okHere := false
				for _, f := range Facts(b) {
					if doneIdx >= 0 && strings.HasPrefix(f, "+(") && strings.Contains(f, fmt.Sprintf("const:%d", doneIdx)) && strings.Contains(f, "#0") {
						okHere = true
					}
				}
				_ = done
				if !okHere {
					ok = false
				}
			}
			r.Cond(ok && n >= 1, "C23.one-watcher", FnName(fn)+"#returns", fn.Pos(), "the watcher returns only on the ctx.Done() case of its select")
			sites := r.W.Callers(fn)
			okSite := len(sites) == 1
			if okSite {
				c := sites[0]
				_, isGo := c.(*ssa.Go)
				inLoop := false
				for _, l := range Loops(c.Parent()) {
					if l.Blocks[c.Block()] {
						inLoop = true
					}
				}
				// a go statement directly in a non-closure function, outside loops
				okSite = isGo && !inLoop && c.Parent().Parent() == nil
			}
			r.Cond(okSite, "C23.one-watcher", FnName(fn)+"#started-once", fn.Pos(), fmt.Sprintf("started by a single go statement outside any loop (%d call site(s))", len(sites)))
		}
	})
	extend("C24", func(r *Run) {
		r.Rule("C24.every-fault", "every fault record is appended to the reported list (no de-duplication that could drop another culprit)", 3)
		r.Rule("C24.window-bound", "the follower's context is cancelled at the end of the active phase on every path, also when waiting for the block fails", 1)
		if fn := r.MustFn("C24.every-fault", "pkg/tbtc", "coordinationExecutor.executeFollowerRoutine"); fn != nil {
			for _, sl := range structLits(fn, "pkg/tbtc", "coordinationFault") {
				// the literal's address goes (through the varargs slot) into a builtin append on the faults accumulation
				ok := false
				for _, ap := range appendsIn(fn) {
					if e := appendedElem(ap); e != nil && e == ssa.Value(sl.Alloc) {
						ok = true
					}
				}
				ft := ""
				if v := sl.Fields["faultType"]; v != nil {
					ft = Desc(v)
				}
				r.Cond(ok, "C24.every-fault", FnName(fn)+"#"+ft, sl.Alloc.Pos(), "the fault record is the appended element of a plain append")
			}
		}
		if fn := r.MustFn("C24.window-bound", "pkg/tbtc", "withCancelOnBlock"); fn != nil {
			ok := false
			for _, a := range fn.AnonFuncs {
				// deferred cancel registered before anything can fail, or a cancel call dominating every return
				if len(a.Blocks) == 0 {
					continue
				}
				for _, in := range a.Blocks[0].Instrs {
					if d, isD := in.(*ssa.Defer); isD && typeName(d.Call.Value.Type()) == "context.CancelFunc" {
						ok = true
					}
					if c, isC := in.(*ssa.Call); isC && strings.HasPrefix(CalleeName(c), "dyn") && typeName(c.Call.Value.Type()) != "context.CancelFunc" {
						break // the wait itself: a defer after it would be too late only if it could panic; stop scanning
					}
				}
				if !ok {
					all := true
					n := 0
					for _, b := range a.Blocks {
						if _, isRet := b.Instrs[len(b.Instrs)-1].(*ssa.Return); !isRet {
							continue
						}
						n++
						found := false
						for _, c := range Sites(a, `^dyn`, false) {
							if typeName(c.Common().Value.Type()) == "context.CancelFunc" && (dominates(c.Block(), b)) {
								found = true
							}
						}
						if !found {
							all = false
						}
					}
					ok = all && n > 0
				}
			}
			r.Cond(ok, "C24.window-bound", FnName(fn), fn.Pos(), "the goroutine cancels the derived context on every exit (deferred, or called before each return)")
		}
	})
	witness(Witness{Prop: "C24", Name: "no-cancel-when-wait-fails", File: "pkg/tbtc/node.go",
		Old: "\t\tdefer cancelBlockCtx()\n\n\t\terr := waitForBlockFn(ctx, block)\n\t\tif err != nil {", New: "\t\terr := waitForBlockFn(ctx, block)\n\t\tif err == nil {\n\t\t\tcancelBlockCtx()\n\t\t}\n\t\tif err != nil {", Rule: "C24.window-bound"})
}
