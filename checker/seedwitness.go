package main

import (
	"encoding/json"
	"fmt"
	"os"
	"path/filepath"
	"sort"
	"strings"
	"time"
)

// Seed witnesses: the confirmed seeded changes kept under seeded/<id>-<n>/ are
// replayed against the checker in memory (the unified diff is applied to the
// current file contents and handed to the loader as an overlay; /repo is not
// touched). A seed recorded as detected must still be reported by some rule of
// its property; like the hand-written witnesses this tests the checker, not
// keep-core, and a stale or missed one is shown in the evidence without turning
// into a violation of the property.

type seedMeta struct {
	Property string   `json:"property"`
	Detected bool     `json:"detected"`
	Rules    []string `json:"reporting_rules"`
}

// applyUnifiedDiff applies a `git diff` to in-memory file contents. Hunks are
// located by their old text (context and removed lines), not by line number,
// so the patch keeps applying when unrelated lines move.
func applyUnifiedDiff(repo string, diff string) (map[string][]byte, error) {
	out := map[string][]byte{}
	var file string
	var content string
	flush := func() {
		if file != "" {
			out[filepath.Join(repo, file)] = []byte(content)
		}
	}
	lines := strings.Split(diff, "\n")
	for i := 0; i < len(lines); {
		l := lines[i]
		switch {
		case strings.HasPrefix(l, "+++ "):
			flush()
			file = strings.TrimPrefix(strings.TrimPrefix(l, "+++ "), "b/")
			if file == "/dev/null" {
				return nil, fmt.Errorf("file deletion not supported")
			}
			raw, err := os.ReadFile(filepath.Join(repo, file))
			if err != nil {
				if i > 0 && strings.HasPrefix(lines[i-1], "--- /dev/null") {
					raw = nil
				} else {
					return nil, err
				}
			}
			content = string(raw)
			i++
		case strings.HasPrefix(l, "@@"):
			i++
			var oldB, newB strings.Builder
			for i < len(lines) && !strings.HasPrefix(lines[i], "@@") && !strings.HasPrefix(lines[i], "diff --git") && !strings.HasPrefix(lines[i], "--- ") {
				h := lines[i]
				switch {
				case strings.HasPrefix(h, "+"):
					newB.WriteString(h[1:] + "\n")
				case strings.HasPrefix(h, "-"):
					oldB.WriteString(h[1:] + "\n")
				case strings.HasPrefix(h, " "):
					oldB.WriteString(h[1:] + "\n")
					newB.WriteString(h[1:] + "\n")
				case h == "" && i == len(lines)-1:
				case strings.HasPrefix(h, "\\"):
				default:
					oldB.WriteString(h + "\n")
					newB.WriteString(h + "\n")
				}
				i++
			}
			if file == "" {
				return nil, fmt.Errorf("hunk before file header")
			}
			o := oldB.String()
			if o == "" {
				content += newB.String()
				continue
			}
			if strings.Count(content, o) < 1 {
				return nil, fmt.Errorf("%s: hunk does not apply", file)
			}
			content = strings.Replace(content, o, newB.String(), 1)
		default:
			i++
		}
	}
	flush()
	if len(out) == 0 {
		return nil, fmt.Errorf("no file in patch")
	}
	return out, nil
}

func seedDirs(id string) []string {
	ds, _ := filepath.Glob(filepath.Join(verifRoot(), "seeded", id+"-*"))
	sort.Strings(ds)
	return ds
}

func runSeedWitness(p *Prop, dir string) witnessResult {
	res := witnessResult{Name: "seed:" + filepath.Base(dir), File: "seeded/" + filepath.Base(dir) + "/patch.diff"}
	var meta seedMeta
	raw0, err0 := os.ReadFile(filepath.Join(dir, "meta.json"))
	if err0 != nil {
		// confirmed but not yet run through tools/seeds.py: replay it anyway
		meta.Detected = true
	} else {
		_ = json.Unmarshal(raw0, &meta)
	}
	if !meta.Detected {
		res.Status, res.Detail = "skipped", "recorded as reported by another property's check (see meta.json)"
		return res
	}
	res.Rule = strings.Join(meta.Rules, ",")
	raw, err := os.ReadFile(filepath.Join(dir, "patch.diff"))
	if err != nil {
		res.Status, res.Detail = "stale", err.Error()
		return res
	}
	overlay, err := applyUnifiedDiff(repoDir(), string(raw))
	if err != nil {
		res.Status, res.Detail = "stale", err.Error()
		return res
	}
	w, err := LoadWorld("quick", false, overlay)
	if err != nil {
		res.Status, res.Detail = "load-error", err.Error()
		return res
	}
	r := &Run{ID: p.ID, Tier: "witness", start: time.Now(), W: w}
	runRules(p, r)
	var hit []string
	seen := map[string]bool{}
	for _, o := range unknownReports(r) {
		if !seen[o.Rule] {
			seen[o.Rule] = true
			hit = append(hit, o.Rule)
		}
	}
	if len(hit) > 0 {
		sort.Strings(hit)
		res.Status, res.Detail = "fired", strings.Join(hit, ",")
	} else {
		res.Status, res.Detail = "missed", "no rule reported the seeded change"
	}
	return res
}

func tryPatch(id, patch string) int {
	p := props[id]
	if p == nil {
		fmt.Println("unknown property", id)
		return 2
	}
	raw, err := os.ReadFile(patch)
	if err != nil {
		fmt.Println(err)
		return 2
	}
	overlay, err := applyUnifiedDiff(repoDir(), string(raw))
	if err != nil {
		fmt.Println("patch:", err)
		return 2
	}
	w, err := LoadWorld("quick", false, overlay)
	if err != nil {
		fmt.Println("load:", err)
		return 2
	}
	r := &Run{ID: p.ID, Tier: "witness", start: time.Now(), W: w}
	runRules(p, r)
	n := 0
	for _, o := range unknownReports(r) {
		n++
		fmt.Printf("  %s %s %s at %s: %s\n", o.Status, o.Rule, o.Construct, o.Pos, abbr(o.Note, 2))
	}
	if n == 0 {
		fmt.Println("  MISSED: no rule of", id, "reports this patch")
		return 1
	}
	return 0
}

// unknownReports: the undischarged obligations of a run that are not listed
// known findings (those are reported on the unchanged tree as well and say
// nothing about a seeded change).
func unknownReports(r *Run) []*Obligation {
	known := loadKnownFindings()
	var out []*Obligation
	for _, o := range r.Obl {
		if o.Status == "discharged" {
			continue
		}
		isKnown := false
		for _, k := range known {
			if k.Property == r.ID && k.Rule == o.Rule && k.Construct == o.Construct {
				isKnown = true
			}
		}
		if !isKnown {
			out = append(out, o)
		}
	}
	return out
}
