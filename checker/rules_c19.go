package main

import (
	"fmt"
	"go/token"
	"go/types"
	"strings"

	"golang.org/x/tools/go/ssa"
)

func isPbPtr(t types.Type) bool {
	p, ok := t.Underlying().(*types.Pointer)
	return ok && isPbStruct(p.Elem())
}

// nilablePbValue: v is a pointer to a protobuf message that may be nil after
// decoding: loaded from a field of another message, returned by a generated
// getter, an element of a map of messages, or a parameter of a helper.
func nilablePbValue(v ssa.Value) (bool, string) {
	if !isPbPtr(v.Type()) {
		return false, ""
	}
	switch x := v.(type) {
	case *ssa.UnOp:
		if x.Op != token.MUL {
			return false, ""
		}
		switch a := x.X.(type) {
		case *ssa.FieldAddr:
			if isPbStruct(a.X.Type()) {
				return true, "field " + fieldName(a.X.Type().Underlying().(*types.Pointer).Elem(), a.Field)
			}
		case *ssa.IndexAddr:
			return false, "" // elements of repeated fields are non-nil by protobuf-go's decoding contract
		}
	case *ssa.Call:
		if f := staticCallee(x); f != nil && f.Signature.Recv() != nil && isPbStruct(f.Signature.Recv().Type()) {
			return true, "getter " + f.Name()
		}
	case *ssa.Lookup:
		return true, "map element"
	case *ssa.Extract:
		if _, ok := x.Tuple.(*ssa.Next); ok {
			return false, "" // map values of message type: protobuf-go never stores nil for a present key
		}
	case *ssa.Parameter:
		return true, "parameter " + x.Name()
	}
	return false, ""
}

func init() {
	witness(Witness{Prop: "C19", Name: "drop-wallet-nil-check", File: "pkg/tbtc/marshaling.go",
		Old: "if pbSigner.Wallet == nil {", New: "if pbSigner.Wallet == nil && len(bytes) == 0 {", Rule: "C19.submessage"})
	witness(Witness{Prop: "C19", Name: "drop-index-validation-gjkr", File: "pkg/beacon/gjkr/marshaling.go",
		Old: "func validateMemberIndex(protoIndex uint32) error {\n\t// Protobuf does not have uint8 type so we are using uint32. When\n\t// unmarshalling message, we need to make sure we do not overflow.\n\tif protoIndex > group.MaxMemberIndex {",
		New: "func validateMemberIndex(protoIndex uint32) error {\n\t// Protobuf does not have uint8 type so we are using uint32. When\n\t// unmarshalling message, we need to make sure we do not overflow.\n\tif protoIndex > group.MaxMemberIndex && protoIndex == 0 {",
		Rule: "C19.narrowing"})
	witness(Witness{Prop: "C19", Name: "ignore-setstring-ok", File: "pkg/beacon/dkg/marshalling.go",
		Old: "if !ok {\n\t\treturn fmt.Errorf(\"error occurred while converting a private key share to string\")", New: "if !ok && len(bytes) == 0 {\n\t\treturn fmt.Errorf(\"error occurred while converting a private key share to string\")",
		Rule: "C19.failure-results"})
}

func init() {
	register(&Prop{
		ID:        "C19",
		Technique: "static analysis: nil-flow through protobuf sub-messages, deviance rule on narrowing conversions of decoded integers (guarded by a constant bound or a validator whose nil result implies one), failure-result checks, slice-bound guards (go/ssa)",
		Explanation: "Scope: every method Unmarshal([]byte) error of a repository type outside generated code, and the repository helpers they call. (1) No field is selected through a singular message-typed protobuf field, a generated getter's result or a message-typed helper parameter unless a dominating branch established that it is not nil (generated getters themselves are nil-receiver-safe and are accepted as callees). " +
			"(2) Every integer narrowing conversion (to fewer bits) of a value computed from a decoded field is dominated by an upper-bound check on that value: a comparison with a constant, or a validator call whose nil-error summary implies `arg ≤ const`. " +
			"(3) Results that signal failure by nil / ok=false (elliptic.Unmarshal, big.Int.SetString) are checked before the decoder returns success. " +
			"(4) Fixed-position slicing or array conversion of decoded byte strings is dominated by a length check.",
		NotDecided: "round-trip equality; semantic validity of the decoded value beyond what the decoder checks (curve membership, lengths accepted by libraries); panics inside third-party decoders (tss-lib, btcec) on malformed input.",
		Fn: func(r *Run) {
			r.Rule("C19.submessage", "no dereference of a possibly-absent sub-message without a nil guard", 3)
			r.Rule("C19.narrowing", "narrowing of a decoded integer is range-checked", 40)
			r.Rule("C19.failure-results", "nil/ok failure results are checked before success", 2)
			r.Rule("C19.bounds", "fixed-position slicing of decoded bytes is length-checked", 0)
			r.Rule("C19.error-propagation", "a failed helper fails the decoder (no `return nil` on an err != nil branch)", 40)
			r.Rule("C19.fresh-target", "decoders fill the receiver or fresh objects, never an object held in a package-level variable", 40)
			roots, scope := DecoderScope(r.W)
			if len(roots) < 40 {
				r.Undecided("C19.narrowing", "scope", fmt.Sprintf("expected at least 40 Unmarshal methods, found %d", len(roots)))
			}
			if r.Extra == nil {
				r.Extra = map[string]interface{}{}
			}
			r.Extra["unmarshal_methods"] = len(roots)
			r.Extra["functions_in_scope"] = len(scope)
			isRoot := map[*ssa.Function]bool{}
			for _, f := range roots {
				isRoot[f] = true
			}
			inScope := map[*ssa.Function]bool{}
			for _, f := range scope {
				inScope[f] = true
			}
			busy := map[*ssa.Parameter]bool{}
			decodedParam = func(p *ssa.Parameter) bool {
				fn := p.Parent()
				if isRoot[fn] || !inScope[fn] || busy[p] {
					return false
				}
				busy[p] = true
				defer delete(busy, p)
				pi := paramIndex(p)
				for _, s := range r.W.Callers(fn) {
					if !inScope[s.Parent()] {
						continue
					}
					args := s.Common().Args
					if pi < len(args) && decodedFrom(args[pi]) {
						return true
					}
				}
				return false
			}
			defer func() { decodedParam = nil }()
			for _, fn := range scope {
				name := FnName(fn)
				EachInstr(fn, func(in ssa.Instruction) {
					switch x := in.(type) {
					case *ssa.FieldAddr:
						nilable, why := nilablePbValue(x.X)
						if !nilable {
							return
						}
						fld := fieldName(x.X.Type().Underlying().(*types.Pointer).Elem(), x.Field)
						construct := name + "#" + abbr(strings.TrimPrefix(Desc(x.X), "&"), 1) + "." + fld
						if nonNilGuarded(in.Block(), x.X) {
							r.Ok("C19.submessage", construct, in.Pos(), "nil-guarded ("+why+")")
							return
						}
						if p, isParam := x.X.(*ssa.Parameter); isParam {
							// helper: every call site must pass a non-nil message
							sites := r.W.Callers(fn)
							ok := len(sites) > 0
							for _, s := range sites {
								pi := paramIndex(p)
								if pi >= len(s.Common().Args) {
									ok = false
									continue
								}
								a := s.Common().Args[pi]
								if _, isAlloc := a.(*ssa.Alloc); isAlloc {
									continue
								}
								if na, _ := nilablePbValue(a); na && !nonNilGuarded(s.Block(), a) {
									ok = false
								}
							}
							if ok {
								r.Ok("C19.submessage", construct, in.Pos(), "every call site passes a fresh or nil-guarded message")
								return
							}
						}
						r.Fail("C19.submessage", construct, in.Pos(), "a sub-message that is absent in the encoded record decodes to nil; selecting "+fld+" through it ("+why+") panics", []string{"nil check or generated getter"}, nil)
					case *ssa.Convert:
						sb, ok1 := intSize(x.X.Type())
						db, ok2 := intSize(x.Type())
						if !ok1 || !ok2 || db >= sb || !decodedFrom(x.X) {
							return
						}
						if _, isConst := x.X.(*ssa.Const); isConst {
							return
						}
						construct := name + "#" + typeName(x.Type()) + "(" + abbr(Desc(x.X), 1) + ")"
						ok, how := rangeChecked(in.Block(), x.X, x.Type())
						if ok {
							r.Ok("C19.narrowing", construct, in.Pos(), how)
							return
						}
						r.Fail("C19.narrowing", construct, in.Pos(),
							fmt.Sprintf("a %d-bit decoded value is truncated to %d bits without a sufficient range check (%s): out-of-range records decode silently to a different value", sb, db, how),
							[]string{"upper-bound check (e.g. validateMemberIndex) dominating the conversion"}, nil)
					case *ssa.Slice:
						// fixed-position slicing of decoded byte strings
						if _, isSl := x.X.Type().Underlying().(*types.Slice); !isSl || !decodedFrom(x.X) {
							return
						}
						var bound ssa.Value
						if x.High != nil {
							bound = x.High
						} else if x.Low != nil {
							bound = x.Low
						}
						if bound == nil {
							return
						}
						if _, isC := bound.(*ssa.Const); !isC {
							return
						}
						construct := name + "#slice/" + abbr(Desc(x.X), 1)
						ok := false
						d := Desc(x.X)
						for _, g := range Guards(in.Block()) {
							if bo, isB := g.Cond.(*ssa.BinOp); isB {
								for _, side := range []ssa.Value{bo.X, bo.Y} {
									if s := isLenOf(side); s != nil && Desc(s) == d {
										ok = true
									}
								}
							}
						}
						r.Cond(ok, "C19.bounds", construct, in.Pos(), "fixed-position slicing of a decoded byte string must be dominated by a check of its length")
					case *ssa.SliceToArrayPointer:
						if !decodedFrom(x.X) {
							return
						}
						construct := name + "#array-conversion/" + abbr(Desc(x.X), 1)
						ok := false
						d := Desc(x.X)
						for _, g := range Guards(in.Block()) {
							if bo, isB := g.Cond.(*ssa.BinOp); isB {
								for _, side := range []ssa.Value{bo.X, bo.Y} {
									if s := isLenOf(side); s != nil && Desc(s) == d {
										ok = true
									}
								}
							}
						}
						r.Cond(ok, "C19.bounds", construct, in.Pos(), "conversion of a decoded byte string to an array panics on a short input unless its length was checked")
					}
				})
				// decoded values must not alias each other: the object a nested
				// Unmarshal fills (or a store goes to) must not come from a
				// package-level variable (a shared prototype would be overwritten by
				// the next decode)
				{
					shared := ""
					EachInstr(fn, func(in ssa.Instruction) {
						switch x := in.(type) {
						case ssa.CallInstruction:
							cc := x.Common()
							isUnm := (cc.IsInvoke() && cc.Method.Name() == "Unmarshal") || (!cc.IsInvoke() && strings.HasSuffix(CalleeName(x), ".Unmarshal") && cc.Signature().Recv() != nil)
							if !isUnm {
								return
							}
							recv := cc.Value
							if !cc.IsInvoke() && len(cc.Args) > 0 {
								recv = cc.Args[0]
							}
							if dependsOnGlobal(recv) {
								shared = "receiver of " + shortCallee(x) + " at " + r.W.Pos(in.Pos())
							}
						case *ssa.Store:
							if _, isG := addrRoot(x.Addr).(*ssa.Global); isG {
								shared = "store into a package-level variable at " + r.W.Pos(in.Pos())
							}
						}
					})
					r.Cond(shared == "", "C19.fresh-target", name, fn.Pos(), "decoded data goes into the receiver or freshly allocated objects; shared target: "+shared)
				}
				// a failed helper must fail the decoder: returning nil on the
				// err != nil branch reports a malformed record as decoded
				if res := fn.Signature.Results(); res.Len() >= 1 {
					if nt, isN := res.At(res.Len() - 1).Type().(*types.Named); isN && nt.Obj().Name() == "error" && nt.Obj().Pkg() == nil {
						for _, b := range fn.Blocks {
							ret, ok := b.Instrs[len(b.Instrs)-1].(*ssa.Return)
							if !ok || deadRecover(b) {
								continue
							}
							failed := ""
							for _, g := range Guards(b) {
								bo, ok := g.Cond.(*ssa.BinOp)
								if !ok || (bo.Op != token.EQL && bo.Op != token.NEQ) {
									continue
								}
								var ev ssa.Value
								switch {
								case isNilConst(bo.Y):
									ev = bo.X
								case isNilConst(bo.X):
									ev = bo.Y
								default:
									continue
								}
								if nt2, isN2 := ev.Type().(*types.Named); !isN2 || nt2.Obj().Name() != "error" {
									continue
								}
								if (bo.Op == token.NEQ && g.Pol) || (bo.Op == token.EQL && !g.Pol) {
									failed = abbr(Desc(ev), 1)
								}
							}
							if failed == "" {
								continue
							}
							rv := RetResults(ret)[res.Len()-1]
							r.Cond(!isNilConst(rv), "C19.error-propagation", name+"#return-after-"+failed, ret.Pos(),
								"on the branch where "+failed+" is a non-nil error the decoder must return an error, not nil (a malformed record would be reported as decoded, half-initialised)")
						}
					}
				}
				// failure results
				for _, c := range CallsMatching(fn, `^math/big\.Int\.SetString$`) {
					cv := callValue(c)
					for _, p := range SuccessReturns(fn) {
						ok := false
						for _, g := range Guards(p.Ret.Block()) {
							if ex, isEx := g.Cond.(*ssa.Extract); isEx && ex.Tuple == cv && ex.Index == 1 && g.Pol {
								ok = true
							}
						}
						if !InstrBefore(c.(ssa.Instruction), p.Ret) && !Reaches(c.Block(), p.Ret.Block()) {
							continue
						}
						r.Cond(ok, "C19.failure-results", name+"#SetString", c.Pos(), "success is returned only when SetString reported ok")
					}
				}
				for _, c := range CallsMatching(fn, `^crypto/elliptic\.Unmarshal$`) {
					cv := callValue(c)
					// (i) checked here
					checked := false
					EachInstr(fn, func(in ssa.Instruction) {
						if ifi, ok := in.(*ssa.If); ok {
							if bo, ok := ifi.Cond.(*ssa.BinOp); ok {
								for _, side := range []ssa.Value{bo.X, bo.Y} {
									if ex, ok := side.(*ssa.Extract); ok && ex.Tuple == cv {
										checked = true
									}
								}
							}
						}
					})
					if checked {
						r.Ok("C19.failure-results", name+"#elliptic.Unmarshal", c.Pos(), "result nil-checked in the decoder")
						continue
					}
					// (ii) every caller in scope checks the X coordinate of what this helper returns
					sites := r.W.Callers(fn)
					ok := len(sites) > 0
					var where []string
					for _, s := range sites {
						caller := s.Parent()
						found := false
						for _, p := range SuccessReturns(caller) {
							if HasFact(p.Facts, `^-\(.*`+q(FnName(fn))+`\(.*\)\.X == nil\)$`) {
								found = true
							}
						}
						if !found {
							ok = false
							where = append(where, FnName(caller))
						}
					}
					r.Cond(ok, "C19.failure-results", name+"#elliptic.Unmarshal", c.Pos(),
						"elliptic.Unmarshal returns nil coordinates for a malformed point; neither this helper nor its caller(s) "+strings.Join(where, ", ")+" check them before reporting success")
				}
			}
		},
	})
}
