package main

func init() {
	const tc = `github\.com/keep-network/keep-common/pkg/cache\.TimeCache\.`
	const key = `call:pkg/operator\.PublicKey\.String\(P1\)`
	const isRec = `pkg/firewall\.Application\.IsRecognized`
	register(&Prop{
		ID:        "C21",
		Technique: "static analysis: dominator guard facts and CFG reachability over anyApplicationPolicy.Validate (go/ssa)",
		Explanation: "Over all CFG paths of anyApplicationPolicy.Validate: a nil (admit) return is dominated by allowList.Contains=true, a positive-cache hit, or IsRecognized=true with a nil error; " +
			"a rejecting return is reachable only with allowList.Contains=false; negativeResultCache.Add is reached only after the application loop ran to exhaustion, is not reachable from an IsRecognized error branch (the exhausted-loop fact comes from the phi of the success flag, so the recognised branch cannot lead there), and only with both cache lookups negative; " +
			"positiveResultCache.Add only under IsRecognized=true ∧ err=nil; all cache operations use the peer key's String() as key; nothing else in pkg/firewall adds to a cache.",
		NotDecided: "cache expiry timing (keep-common TimeCache), and the 'if' direction for peers recognised by an application that is asked after an erroring one.",
		Fn: func(r *Run) {
			fn := r.MustFn("C21.admit", "pkg/firewall", "anyApplicationPolicy.Validate")
			if fn == nil {
				return
			}
			r.Rule("C21.admit", "return nil ⇐ allowlisted ∨ positive cache hit ∨ (IsRecognized ∧ err=nil)", 3)
			r.Rule("C21.allowlisted", "every rejecting (non-nil) return is dominated by allowList.Contains = false: an allowlisted peer is never rejected, whatever the applications answer", 3)
			for _, p := range ReturnPaths(fn, 0, notNilConst) {
				r.Check("C21.allowlisted", FnName(fn)+"#return-error", p.Ret.Pos(), p.Facts, falseOf(`pkg/firewall\.AllowList\.Contains`))
			}
			r.Rule("C21.negative", "negative cache Add only after an exhausted, error-free, unrecognised loop", 2)
			r.Rule("C21.positive", "positive cache Add only under IsRecognized ∧ err=nil", 1)
			r.Rule("C21.keys", "cache Has/Add keyed by the remote peer key's String()", 4)
			r.Rule("C21.only-door", "cache Add in pkg/firewall only inside Validate", 2)
			for _, p := range SuccessReturns(fn) {
				ok := HasFact(p.Facts, trueOf(`pkg/firewall\.AllowList\.Contains`)) ||
					HasFact(p.Facts, `^\+call:`+tc+`Has\(P0\.positiveResultCache, `+key+`\)$`) ||
					(HasFact(p.Facts, trueOf(isRec)) && HasFact(p.Facts, okOf(isRec)))
				if ok {
					r.Ok("C21.admit", FnName(fn)+"#return-nil", p.Ret.Pos(), "")
				} else {
					r.Fail("C21.admit", FnName(fn)+"#return-nil", p.Ret.Pos(), "admitting return not dominated by allowlist / positive cache / recognition", nil, p.Facts)
				}
			}
			for _, c := range Sites(fn, `^`+tc+`Add$`, true) {
				recv := Desc(c.Common().Args[0])
				facts := ImpliedFacts(c.Block(), 1)
				switch recv {
				case "P0.negativeResultCache":
					r.Check("C21.negative", FnName(fn)+"#negativeResultCache.Add", c.Pos(), facts,
						`^\+\(len\(P0\.applications\) <= .*\)$`,
						`^-call:`+tc+`Has\(P0\.positiveResultCache, `+key+`\)$`,
						falseOf(`pkg/firewall\.AllowList\.Contains`))
					r.NoPathFromBranch("C21.negative", fn, `^-\(invoke:`+isRec+`\(.*\)#1 == nil\)$`, 1, c, "negativeResultCache.Add/after-error")
				case "P0.positiveResultCache":
					r.Check("C21.positive", FnName(fn)+"#positiveResultCache.Add", c.Pos(), facts, trueOf(isRec), okOf(isRec))
				default:
					r.Fail("C21.keys", FnName(fn)+"#Add", c.Pos(), "Add on unexpected cache "+recv, nil, nil)
				}
			}
			for _, c := range Sites(fn, `^`+tc+`(Add|Has)$`, true) {
				k := Desc(c.Common().Args[1])
				r.Cond(re(`^`+key+`$`).MatchString(k), "C21.keys", FnName(fn)+"#"+shortCallee(c)+"("+Desc(c.Common().Args[0])+")", c.Pos(), "cache key must be the peer public key String(); got "+k)
			}
			n := 0
			for _, f := range r.W.AllFuncs {
				if fnPkgRel(f) != "pkg/firewall" {
					continue
				}
				for _, c := range CallsMatching(f, `^`+tc+`Add$`) {
					n++
					top := f
					for top.Parent() != nil {
						top = top.Parent()
					}
					r.Cond(top == fn, "C21.only-door", FnName(f)+"#Add", c.Pos(), "TimeCache.Add in pkg/firewall outside Validate")
				}
			}
		},
	})
}
