package main

import (
	"strings"

	"golang.org/x/tools/go/ssa"
)

func init() {
	const key = `call:encoding/hex\.EncodeToString\(call:pkg/tbtc\.marshalPublicKey\(call:pkg/tbtc\.heartbeatAction\.wallet\(P0\)\.publicKey\)#0\)`
	const sign = `invoke:pkg/tbtc\.heartbeatSigningExecutor\.sign\(.*\)`
	register(&Prop{
		ID:        "C36",
		Technique: "static analysis: dominator guard facts, must-precede ordering and must-hold locksets over heartbeatAction.execute and heartbeatFailureCounter (go/ssa)",
		Explanation: "Over all CFG paths of heartbeatAction.execute: claimInactivity is dominated by not-unstaking (error-free), a valid proposal, signing err=nil, active members < heartbeatSigningMinimumActiveMembers, " +
			"failureCounter.get(wallet key) ≥ heartbeatConsecutiveFailureThreshold, with increment(wallet key) executed before on every such path; its arguments are the activity report's inactiveMembers and the constant true; " +
			"reset(wallet key) lies exactly on the active ≥ minimum path after a successful signing; increment/get/reset use one and the same wallet key; the counter map is only touched under its mutex; " +
			"the failure counter is mutated nowhere else in the module.",
		NotDecided: "that three increments really are consecutive heartbeats of that wallet at run time (depends on dispatch); correctness of the activity report produced by the signing executor.",
		Fn: func(r *Run) {
			fn := r.MustFn("C36.claim", "pkg/tbtc", "heartbeatAction.execute")
			if fn == nil {
				return
			}
			r.Rule("C36.claim", "claimInactivity ⇐ ¬unstaking ∧ valid proposal ∧ sign ok ∧ active<min ∧ get≥threshold, after increment", 2)
			r.Rule("C36.args", "claim names the report's inactive members and marks a heartbeat failure (true)", 1)
			r.Rule("C36.reset", "reset only on the success path (sign ok ∧ active ≥ min)", 1)
			r.Rule("C36.increment", "increment only on the low-activity path after a successful signing", 1)
			r.Rule("C36.key", "increment/get/reset keyed by the executing wallet's public key", 3)
			r.Rule("C36.lock", "counters map only under the counter's mutex", 3)
			r.Rule("C36.only-door", "failure counter mutated only from heartbeatAction.execute", 2)
			min := r.PkgConst("C36.claim", "pkg/tbtc", "heartbeatSigningMinimumActiveMembers")
			thr := r.PkgConst("C36.claim", "pkg/tbtc", "heartbeatConsecutiveFailureThreshold")
			lowActivity := `^\+\(len\(` + sign + `#1\.activeMembers\) < const:` + min + `\)$`
			common := []string{
				falseOf(`pkg/tbtc\.heartbeatAction\.isOperatorUnstaking`), okOf(`pkg/tbtc\.heartbeatAction\.isOperatorUnstaking`),
				okOf(`pkg/tbtc\.Chain\.ValidateHeartbeatProposal`), okOf(`pkg/tbtc\.heartbeatSigningExecutor\.sign`),
			}
			claims := Sites(fn, `^invoke:pkg/tbtc\.heartbeatInactivityClaimExecutor\.claimInactivity$`, true)
			incs := Sites(fn, `^pkg/tbtc\.heartbeatFailureCounter\.increment$`, true)
			if len(claims) == 0 {
				r.Undecided("C36.claim", FnName(fn)+"#claimInactivity", "no claimInactivity call found")
			}
			for _, c := range claims {
				facts := ImpliedFacts(c.Block(), 1)
				r.Check("C36.claim", FnName(fn)+"#claimInactivity", c.Pos(), facts, append([]string{lowActivity,
					`^\+\(const:` + thr + ` <= call:pkg/tbtc\.heartbeatFailureCounter\.get\(P0\.failureCounter, ` + key + `\)\)$`}, common...)...)
				before := false
				for _, i := range incs {
					if InstrBefore(i, c) {
						before = true
					}
				}
				r.Cond(before, "C36.claim", FnName(fn)+"#increment-before-claim", c.Pos(), "failureCounter.increment must execute before claimInactivity on every path")
				args := c.Common().Args
				ok := len(args) == 4 && re(`^`+sign+`#1\.inactiveMembers$`).MatchString(Desc(args[1])) && Desc(args[2]) == "const:true"
				r.Cond(ok, "C36.args", FnName(fn)+"#claimInactivity", c.Pos(), "arguments must be (ctx, activityReport.inactiveMembers, true, message)")
			}
			r.CheckCalls("C36.reset", fn, `^pkg/tbtc\.heartbeatFailureCounter\.reset$`, 1, append([]string{
				`^\+\(const:` + min + ` <= len\(` + sign + `#1\.activeMembers\)\)$`}, common...)...)
			r.CheckCalls("C36.increment", fn, `^pkg/tbtc\.heartbeatFailureCounter\.increment$`, 1, append([]string{lowActivity}, common...)...)
			for _, c := range Sites(fn, `^pkg/tbtc\.heartbeatFailureCounter\.(increment|get|reset)$`, true) {
				a := c.Common().Args
				ok := len(a) == 2 && Desc(a[0]) == "P0.failureCounter" && re(`^`+key+`$`).MatchString(Desc(a[1]))
				r.Cond(ok, "C36.key", FnName(fn)+"#"+shortCallee(c), c.Pos(), "counter key must be hex(marshalPublicKey(executing wallet public key)); got "+abbr(Desc(a[len(a)-1]), 3))
			}
			// every nil return after a successful signing either is the low-activity path (counted) or has reset the run
			r.Rule("C36.paths", "after a successful signing: low activity ⇒ increment before returning; otherwise ⇒ reset before returning", 3)
			resets := Sites(fn, `^pkg/tbtc\.heartbeatFailureCounter\.reset$`, true)
			for _, p := range SuccessReturns(fn) {
				if !HasFact(p.Facts, okOf(`pkg/tbtc\.heartbeatSigningExecutor\.sign`)) {
					continue
				}
				var before []ssa.CallInstruction
				what := "reset"
				if HasFact(p.Facts, lowActivity) {
					before, what = incs, "increment"
				} else {
					before = resets
				}
				ok := false
				for _, c := range before {
					if InstrBefore(c, p.Ret) {
						ok = true
					}
				}
				r.Cond(ok, "C36.paths", FnName(fn)+"#return-after-sign/"+what, p.Ret.Pos(), "a completed heartbeat must "+what+" the wallet's failure run before returning")
			}
			// the inactive members named by the claim: the signing loop's activity report
			// lists the members of THIS wallet's signing group that did not announce
			r.Rule("C36.report", "activity report = (announced ready, unready among the wallet's own signing group)", 3)
			if sl := r.MustFn("C36.report", "pkg/tbtc", "signingRetryLoop.start"); sl != nil {
				const ann = `invoke:pkg/tbtc\.signingAnnouncer\.Announce\(.*\)#0`
				for _, c := range Sites(sl, `^pkg/protocol/announcer\.UnreadyMembers$`, false) {
					a := c.Common().Args
					r.Cond(re(`^`+ann+`$`).MatchString(Desc(a[0])) && Desc(a[1]) == "len(P0.signingGroupOperators)", "C36.report", FnName(sl)+"#UnreadyMembers", c.Pos(),
						"unready = members 1..len(wallet's signing group operators) missing from the announced list (a wallet can have fewer members than the nominal group size); got size "+abbr(Desc(a[1]), 1))
				}
				nA, nI := 0, 0
				EachInstr(sl, func(in ssa.Instruction) {
					st, ok := in.(*ssa.Store)
					if !ok {
						return
					}
					ad := Desc(st.Addr)
					switch {
					case strings.HasSuffix(ad, ".activeMembers"):
						nA++
						r.Cond(re(`^`+ann+`$`).MatchString(Desc(st.Val)), "C36.report", FnName(sl)+"#activeMembers", in.Pos(), "active members are the announced ready members")
					case strings.HasSuffix(ad, ".inactiveMembers"):
						nI++
						r.Cond(strings.HasPrefix(Desc(st.Val), "call:pkg/protocol/announcer.UnreadyMembers("), "C36.report", FnName(sl)+"#inactiveMembers", in.Pos(), "inactive members are the unready members")
					}
				})
				if nA != 1 || nI != 1 {
					r.Undecided("C36.report", FnName(sl), "activity report literal not found")
				}
			}
			r.FieldUnderLock("C36.lock", "pkg/tbtc", "heartbeatFailureCounter", "counters", "mutex", nil)
			r.OnlyCalledFrom("C36.only-door", `^pkg/tbtc\.heartbeatFailureCounter\.(increment|reset)$`, 2, "pkg/tbtc.heartbeatAction.execute")
			// bodies of the three counter methods
			for name, want := range map[string]string{"increment": `^\(P0\.counters\[P1\] \+ const:1\)$`, "reset": `^const:0$`} {
				m := r.MustFn("C36.lock", "pkg/tbtc", "heartbeatFailureCounter."+name)
				if m == nil {
					continue
				}
				n := 0
				EachInstr(m, func(in ssa.Instruction) {
					if mu, ok := in.(*ssa.MapUpdate); ok {
						n++
						r.Cond(Desc(mu.Map) == "P0.counters" && Desc(mu.Key) == "P1" && re(want).MatchString(Desc(mu.Value)),
							"C36.lock", FnName(m)+"#update", in.Pos(), "counter update must be counters[key] "+want+"; got "+Desc(mu.Value))
					}
				})
				r.Cond(n == 1, "C36.lock", FnName(m)+"#single-update", m.Pos(), "exactly one map update expected")
			}
			if g := r.MustFn("C36.lock", "pkg/tbtc", "heartbeatFailureCounter.get"); g != nil {
				rets := ReturnsMatching(g, 0, `^P0\.counters\[P1\]$`)
				r.Cond(len(rets) >= 1 && len(rets) == len(ReturnsMatching(g, 0, `.`)), "C36.lock", FnName(g)+"#return", g.Pos(), "get returns counters[key]")
			}
		},
	})
}
