package main

import (
	"fmt"
	"strings"

	"golang.org/x/tools/go/ssa"
)

func init() {
	const ce = "coordinationExecutor."
	register(&Prop{
		ID:        "C22",
		Technique: "static analysis: determinism effects (map-iteration order sorted before use, RNG seeded only from the seed argument, no clock/global source), provenance of the leader candidate list, dominator facts and order of the checklist appends (go/ssa)",
		Explanation: "tbtc coordination: (1) getSeed = sha256(walletPublicKeyHash ‖ hash of block (coordinationBlock − coordinationSafeBlockShift)), returned only when the chain query succeeded; (2) getLeader builds its candidate list by ranging over the *set* of the wallet's signing group operators (repetition-free, order-free), sorts it with a strict `<` comparator before any other use, shuffles it with rand.New(rand.NewSource(f(seed argument))) and returns element 0 — so the leader is one of the wallet's operators and depends only on the operator set and the seed; " +
			"(3) getActionsChecklist returns nil for window index 0, otherwise appends ActionRedemption first and unconditionally, the deposit sweep, moved funds sweep and moving funds actions — in that order — exactly under windowIndex % 4 = 0, and the heartbeat action last, exactly under rng.Float64() < coordinationHeartbeatProbability for a generator seeded from the seed argument only; none of the three functions reads a clock, the global math/rand source or crypto/rand.",
		NotDecided: "that every member obtains the same safe block hash from its chain client (reorgs deeper than the shift); equality of math/rand's stream across Go versions.",
		Fn: func(r *Run) {
			r.Rule("C22.seed", "seed = sha256(wallet key hash ‖ safe block hash)", 2)
			r.Rule("C22.leader", "leader = element 0 of sort → seeded shuffle of the operator set", 5)
			r.Rule("C22.checklist", "redemption first; sweeps/moving funds under index%4=0; heartbeat by seeded draw", 6)
			r.Rule("C22.deterministic", "no map-order leak, local seeded RNG only", 3)

			var fns []*ssa.Function
			for _, n := range []string{"getSeed", "getLeader", "getActionsChecklist"} {
				fn := r.MustFn("C22.deterministic", "pkg/tbtc", ce+n)
				if fn == nil {
					continue
				}
				fns = append(fns, fn)
				var leaks []MapOrderLeak
				nd := 0
				okSeed := true
				for _, f := range WithClosures(fn) {
					l, _ := MapOrderLeaks(f)
					leaks = append(leaks, l...)
					nd += len(NondetCalls(f))
					for _, c := range CallsMatching(f, `^math/rand\.NewSource$`) {
						d := Desc(c.Common().Args[0])
						if !re(`^conv:int64\((call|invoke):encoding/binary\.\w+\.Uint64\(.*P\d.*\)\)$`).MatchString(d) || !dependsOnParam(c.Common().Args[0], fn, "seed") {
							okSeed = false
						}
					}
				}
				r.Cond(len(leaks) == 0 && nd == 0 && okSeed, "C22.deterministic", FnName(fn), fn.Pos(),
					fmt.Sprintf("map-order leaks %d, global/clock sources %d, RNG seeded from the seed argument %v", len(leaks), nd, okSeed))
			}
			if fn := r.W.Fn("pkg/tbtc", ce+"getSeed"); fn != nil {
				for _, p := range SuccessReturns(fn) {
					d := Desc(RetResults(p.Ret)[0])
					ok := strings.HasPrefix(d, "call:crypto/sha256.Sum256(append(") && strings.Contains(d, "walletPublicKeyHash(P0)") && strings.Contains(d, "GetBlockHashByNumber(")
					r.Cond(ok, "C22.seed", FnName(fn)+"#digest", p.Ret.Pos(), "seed is the digest of wallet public key hash followed by the safe block hash; got "+abbr(d, 2))
					r.Check("C22.seed", FnName(fn)+"#query-ok", p.Ret.Pos(), p.Facts, okOf(`pkg/tbtc\.Chain\.GetBlockHashByNumber`))
				}
				for _, c := range Sites(fn, `^invoke:pkg/tbtc\.Chain\.GetBlockHashByNumber$`, false) {
					shift := r.PkgConst("C22.seed", "pkg/tbtc", "coordinationSafeBlockShift")
					r.Cond(Affine(c.Common().Args[0]).String() == "1*P1 + -"+shift, "C22.seed", FnName(fn)+"#safe-block", c.Pos(), "safe block = coordination block − coordinationSafeBlockShift")
				}
			}
			if fn := r.W.Fn("pkg/tbtc", ce+"getLeader"); fn != nil {
				// candidates: accumulation appended while ranging over Set() of the wallet's operators
				accs := Accumulations(fn)
				var cand *Accum
				for _, a := range accs {
					for _, ap := range a.Appends {
						if e := appendedElem(ap); e != nil && re(`^next\(range\(call:pkg/chain\.Addresses\.Set\(.*P0\.coordinatedWallet\.signingGroupOperators.*\)\)\)#1$`).MatchString(Desc(e)) {
							cand = a
						}
					}
				}
				// the list is captured by the sort/shuffle closures, so it may live in an alloc instead
				var candAlloc *ssa.Alloc
				if cand == nil {
					EachInstr(fn, func(in ssa.Instruction) {
						if st, ok := in.(*ssa.Store); ok {
							if ap := isAppend(st.Val); ap != nil {
								if e := appendedElem(ap); e != nil && strings.Contains(Desc(e), "Addresses.Set(") && strings.Contains(Desc(e), "P0.coordinatedWallet.signingGroupOperators") {
									candAlloc, _ = st.Addr.(*ssa.Alloc)
								}
							}
						}
					})
				}
				r.Cond(cand != nil || candAlloc != nil, "C22.leader", FnName(fn)+"#candidates", fn.Pos(), "candidates are the keys of the set of the wallet's signing group operators")
				sorts := Sites(fn, `^sort\.Slice$`, false)
				shuf := Sites(fn, `^math/rand\.Rand\.Shuffle$`, false)
				if len(sorts) != 1 || len(shuf) != 1 {
					r.Undecided("C22.leader", FnName(fn)+"#sort-shuffle", "expected one sort.Slice and one Shuffle")
				} else {
					r.Cond(InstrBefore(sorts[0].(ssa.Instruction), shuf[0].(ssa.Instruction)), "C22.leader", FnName(fn)+"#sort-before-shuffle", sorts[0].Pos(), "sorted before the seeded shuffle")
					if cl := closureOf(sorts[0].Common().Args[1]); cl != nil {
						rets := ReturnsMatching(cl, 0, `^\(up\(.*\)\[P0\] < up\(.*\)\[P1\]\)$`)
						r.Cond(len(rets) == 1 && len(ReturnsMatching(cl, 0, `.`)) == 1, "C22.leader", FnName(fn)+"#comparator", cl.Pos(), "strict ascending comparator on the candidates")
					}
					r.Cond(strings.HasPrefix(Desc(shuf[0].Common().Args[0]), "call:math/rand.New(call:math/rand.NewSource("), "C22.leader", FnName(fn)+"#rng", shuf[0].Pos(), "shuffle draws from the locally seeded generator")
					for _, b := range fn.Blocks {
						if ret, ok := b.Instrs[len(b.Instrs)-1].(*ssa.Return); ok {
							d := Desc(RetResults(ret)[0])
							r.Cond(strings.HasSuffix(d, "[const:0]") && InstrBefore(shuf[0].(ssa.Instruction), ret), "C22.leader", FnName(fn)+"#first-element", ret.Pos(), "the leader is element 0 of the shuffled candidates; got "+abbr(d, 1))
						}
					}
				}
			}
			if fn := r.W.Fn("pkg/tbtc", ce+"getActionsChecklist"); fn != nil {
				want := []struct {
					name string
					cond string
				}{
					{"ActionRedemption", "first"}, {"ActionDepositSweep", "mod4"}, {"ActionMovedFundsSweep", "mod4"}, {"ActionMovingFunds", "mod4"}, {"ActionHeartbeat", "draw"},
				}
				aps := appendsIn(fn)
				if len(aps) != len(want) {
					r.Undecided("C22.checklist", FnName(fn), fmt.Sprintf("expected %d appends, found %d", len(want), len(aps)))
				}
				prob := r.PkgConst("C22.checklist", "pkg/tbtc", "coordinationHeartbeatProbability")
				for i, ap := range aps {
					if i >= len(want) {
						break
					}
					e := appendedElem(ap)
					cv := r.PkgConst("C22.checklist", "pkg/tbtc", want[i].name)
					okElem := e != nil && Desc(e) == "const:"+cv
					facts := Facts(ap.Block())
					// every append happens under windowIndex != 0
					nonZero := HasFact(facts, `^-\(P1 == const:0\)$|^-\(const:0 == P1\)$`)
					var okCond bool
					extra := 0
					for _, f := range facts {
						if !re(`^-\((P1 == const:0|const:0 == P1)\)$`).MatchString(f) {
							extra++
						}
					}
					switch want[i].cond {
					case "first":
						okCond = extra == 0
					case "mod4":
						okCond = extra == 1 && HasFact(facts, `^\+\(\(P1 % const:4\) == const:0\)$|^\+\(const:0 == \(P1 % const:4\)\)$`)
					case "draw":
						okCond = extra == 1 && HasFact(facts, `^\+\(call:math/rand\.Rand\.Float64\(call:math/rand\.New\(call:math/rand\.NewSource\(.*\)\)\) < const:`+q(prob)+`\)$`)
					}
					okOrder := i == 0 || aps[i-1].Pos() < ap.Pos()
					r.Cond(okElem && nonZero && okCond && okOrder, "C22.checklist", FnName(fn)+"#"+want[i].name, ap.Pos(),
						fmt.Sprintf("append #%d is %s under condition '%s' (window index ≠ 0)", i+1, want[i].name, want[i].cond))
				}
				nilRet := 0
				for _, b := range fn.Blocks {
					if ret, ok := b.Instrs[len(b.Instrs)-1].(*ssa.Return); ok && isNilConst(RetResults(ret)[0]) {
						nilRet++
						r.Check("C22.checklist", FnName(fn)+"#window-zero", ret.Pos(), Facts(ret.Block()), `^\+\(P1 == const:0\)$|^\+\(const:0 == P1\)$`)
					}
				}
				if nilRet != 1 {
					r.Undecided("C22.checklist", FnName(fn)+"#window-zero", "expected one nil return")
				}
			}
			_ = fns
		},
	})
	witness(Witness{Prop: "C22", Name: "leader-from-unsorted-set", File: "pkg/tbtc/coordination.go",
		Old: "\tsort.Slice(\n\t\tuniqueOperators,\n\t\tfunc(i, j int) bool {\n\t\t\treturn uniqueOperators[i] < uniqueOperators[j]\n\t\t},\n\t)\n",
		New: "\tother := append([]chain.Address{}, uniqueOperators...)\n\tsort.Slice(\n\t\tother,\n\t\tfunc(i, j int) bool {\n\t\t\treturn other[i] < other[j]\n\t\t},\n\t)\n", Rule: "C22.deterministic"})
	witness(Witness{Prop: "C22", Name: "sweep-every-window", File: "pkg/tbtc/coordination.go",
		Old: "\tif windowIndex%frequencyWindows == 0 {\n\t\tactions = append(actions, ActionDepositSweep)\n\t}", New: "\tif windowIndex%frequencyWindows >= 0 {\n\t\tactions = append(actions, ActionDepositSweep)\n\t}", Rule: "C22.checklist"})
	witness(Witness{Prop: "C22", Name: "heartbeat-from-global-rand", File: "pkg/tbtc/coordination.go",
		Old: "\tif rng.Float64() < coordinationHeartbeatProbability {", New: "\tif rng.Float64()*0+rand.Float64() < coordinationHeartbeatProbability {", Rule: "C22.deterministic"})
}

// dependsOnParam: v is computed from the parameter of fn with the given name.
func dependsOnParam(v ssa.Value, fn *ssa.Function, name string) bool {
	for _, p := range fn.Params {
		if p.Name() == name && dependsOn(v, p, nil) {
			return true
		}
	}
	// the parameter may have been spilled to a local (address taken for slicing)
	found := false
	EachInstr(fn, func(in ssa.Instruction) {
		if st, ok := in.(*ssa.Store); ok {
			if p, isP := st.Val.(*ssa.Parameter); isP && p.Name() == name {
				if dependsOn(v, st.Addr, nil) {
					found = true
				}
			}
		}
	})
	return found
}
