package main

import (
	"fmt"
	"go/token"
	"go/types"
	"regexp"
	"sort"
	"strings"

	"golang.org/x/tools/go/ssa"
)

// ---------------------------------------------------------------- naming

func typeName(t types.Type) string {
	switch x := t.(type) {
	case *types.Pointer:
		return "*" + typeName(x.Elem())
	case *types.Named:
		if x.Obj().Pkg() != nil {
			return short(x.Obj().Pkg().Path()) + "." + x.Obj().Name()
		}
		return x.Obj().Name()
	case *types.Alias:
		if x.Obj().Pkg() != nil {
			return short(x.Obj().Pkg().Path()) + "." + x.Obj().Name()
		}
		return typeName(types.Unalias(x))
	case *types.Slice:
		return "[]" + typeName(x.Elem())
	case *types.Array:
		return fmt.Sprintf("[%d]%s", x.Len(), typeName(x.Elem()))
	case *types.Map:
		return "map[" + typeName(x.Key()) + "]" + typeName(x.Elem())
	}
	return t.String()
}

// CalleeName is the resolved name of what a call instruction invokes:
// "pkg.Func", "pkg.Type.Method" for static calls, "invoke:pkg.Iface.Method"
// for interface calls, "builtin:len", or "dyn" for calls of function values.
func CalleeName(c ssa.CallInstruction) string {
	cc := c.Common()
	if cc.IsInvoke() {
		return "invoke:" + typeName(cc.Value.Type()) + "." + cc.Method.Name()
	}
	switch v := cc.Value.(type) {
	case *ssa.Function:
		return FnName(v)
	case *ssa.Builtin:
		return "builtin:" + v.Name()
	case *ssa.MakeClosure:
		return FnName(v.Fn.(*ssa.Function))
	}
	return "dyn"
}

// ---------------------------------------------------------------- Desc

type descState struct {
	seen map[ssa.Value]bool
}

// Desc renders the provenance of an SSA value as a canonical, position-free
// expression over parameters (P0, P1, …), fields, resolved callees and
// constants. Local variable names never appear, except for address-taken
// locals with several stores.
func Desc(v ssa.Value) string {
	st := &descState{seen: map[ssa.Value]bool{}}
	return st.desc(v, 18)
}

func paramIndex(p *ssa.Parameter) int {
	for i, q := range p.Parent().Params {
		if q == p {
			return i
		}
	}
	return -1
}

func fieldName(t types.Type, idx int) string {
	if p, ok := t.Underlying().(*types.Pointer); ok {
		t = p.Elem()
	}
	if s, ok := t.Underlying().(*types.Struct); ok && idx < s.NumFields() {
		return s.Field(idx).Name()
	}
	return fmt.Sprintf("f%d", idx)
}

// singleStore returns the only value stored to an Alloc in its function
// (ignoring closures), or nil.
func singleStore(a *ssa.Alloc) ssa.Value {
	var val ssa.Value
	n := 0
	for _, r := range *a.Referrers() {
		switch s := r.(type) {
		case *ssa.Store:
			if s.Addr == a {
				n++
				val = s.Val
			}
		case *ssa.MakeClosure:
			// captured: closures may store; check them
			fn := s.Fn.(*ssa.Function)
			for i, b := range s.Bindings {
				if b == a && closureStores(fn, i) {
					return nil
				}
			}
		}
	}
	if n == 1 {
		return val
	}
	return nil
}

func closureStores(fn *ssa.Function, fv int) bool {
	if fv >= len(fn.FreeVars) {
		return true
	}
	f := fn.FreeVars[fv]
	for _, r := range *f.Referrers() {
		switch s := r.(type) {
		case *ssa.Store:
			if s.Addr == f {
				return true
			}
		case *ssa.MakeClosure:
			inner := s.Fn.(*ssa.Function)
			for i, b := range s.Bindings {
				if b == f && closureStores(inner, i) {
					return true
				}
			}
		}
	}
	return false
}

// freeVarBinding finds the value bound to a free variable at the MakeClosure
// in the parent function.
func freeVarBinding(f *ssa.FreeVar) ssa.Value {
	fn := f.Parent()
	par := fn.Parent()
	if par == nil {
		return nil
	}
	idx := -1
	for i, q := range fn.FreeVars {
		if q == f {
			idx = i
		}
	}
	for _, b := range par.Blocks {
		for _, in := range b.Instrs {
			if mc, ok := in.(*ssa.MakeClosure); ok && mc.Fn == fn && idx >= 0 && idx < len(mc.Bindings) {
				return mc.Bindings[idx]
			}
		}
	}
	return nil
}

func (st *descState) args(vs []ssa.Value, d int) string {
	parts := make([]string, len(vs))
	for i, a := range vs {
		parts[i] = st.desc(a, d-1)
	}
	return strings.Join(parts, ", ")
}

func (st *descState) desc(v ssa.Value, d int) string {
	if v == nil {
		return "?"
	}
	if d <= 0 {
		return "…"
	}
	switch x := v.(type) {
	case *ssa.Const:
		if x.Value == nil {
			if x.IsNil() {
				return "nil"
			}
			return "zero"
		}
		return "const:" + x.Value.ExactString()
	case *ssa.Parameter:
		return fmt.Sprintf("P%d", paramIndex(x))
	case *ssa.FreeVar:
		if b := freeVarBinding(x); b != nil {
			return "up(" + st.desc(b, d-1) + ")"
		}
		return "free:" + x.Name()
	case *ssa.Global:
		return "global:" + short(x.Pkg.Pkg.Path()) + "." + x.Name()
	case *ssa.Function:
		return "func:" + FnName(x)
	case *ssa.Builtin:
		return "builtin:" + x.Name()
	case *ssa.Alloc:
		if sv := singleStore(x); sv != nil {
			return "&{" + st.desc(sv, d-1) + "}"
		}
		return "&local:" + x.Comment
	case *ssa.FieldAddr:
		return "&" + strings.TrimPrefix(st.desc(x.X, d), "&") + "." + fieldName(x.X.Type().Underlying().(*types.Pointer).Elem(), x.Field)
	case *ssa.Field:
		return st.desc(x.X, d) + "." + fieldName(x.X.Type(), x.Field)
	case *ssa.IndexAddr:
		return "&" + strings.TrimPrefix(st.desc(x.X, d), "&") + "[" + st.desc(x.Index, d-1) + "]"
	case *ssa.Index:
		return st.desc(x.X, d) + "[" + st.desc(x.Index, d-1) + "]"
	case *ssa.Lookup:
		return st.desc(x.X, d) + "[" + st.desc(x.Index, d-1) + "]"
	case *ssa.UnOp:
		switch x.Op {
		case token.MUL:
			s := st.desc(x.X, d)
			if k := upDepth(s); k > 1 {
				inner := s[3*k : len(s)-k]
				wrap := func(x string) string { return strings.Repeat("up(", k) + x + strings.Repeat(")", k) }
				if strings.HasPrefix(inner, "&{") && strings.HasSuffix(inner, "}") {
					return wrap(inner[2 : len(inner)-1])
				}
				if strings.HasPrefix(inner, "&") {
					return wrap(inner[1:])
				}
			}
			if strings.HasPrefix(s, "&{") && strings.HasSuffix(s, "}") {
				return s[2 : len(s)-1]
			}
			if strings.HasPrefix(s, "up(&{") && strings.HasSuffix(s, "})") {
				return "up(" + s[5:len(s)-2] + ")"
			}
			if strings.HasPrefix(s, "&") {
				return s[1:]
			}
			if strings.HasPrefix(s, "up(&") {
				return "up(" + s[4:]
			}
			return "*" + s
		case token.NOT:
			return "!" + st.desc(x.X, d)
		case token.ARROW:
			return "recv(" + st.desc(x.X, d-1) + ")"
		default:
			return x.Op.String() + st.desc(x.X, d)
		}
	case *ssa.BinOp:
		return "(" + st.desc(x.X, d-1) + " " + x.Op.String() + " " + st.desc(x.Y, d-1) + ")"
	case *ssa.Call:
		cc := x.Common()
		name := CalleeName(x)
		if cc.IsInvoke() {
			return name + "(" + st.args(append([]ssa.Value{cc.Value}, cc.Args...), d) + ")"
		}
		if name == "dyn" {
			return "dyn:" + st.desc(cc.Value, d-1) + "(" + st.args(cc.Args, d) + ")"
		}
		if strings.HasPrefix(name, "builtin:") {
			return strings.TrimPrefix(name, "builtin:") + "(" + st.args(cc.Args, d) + ")"
		}
		return "call:" + name + "(" + st.args(cc.Args, d) + ")"
	case *ssa.Extract:
		return st.desc(x.Tuple, d) + "#" + fmt.Sprint(x.Index)
	case *ssa.Phi:
		if st.seen[x] {
			return "phi@"
		}
		st.seen[x] = true
		defer delete(st.seen, x)
		set := map[string]bool{}
		for _, e := range x.Edges {
			set[st.desc(e, d-1)] = true
		}
		keys := make([]string, 0, len(set))
		for k := range set {
			keys = append(keys, k)
		}
		sort.Strings(keys)
		return "phi{" + strings.Join(keys, " | ") + "}"
	case *ssa.Convert:
		return "conv:" + typeName(x.Type()) + "(" + st.desc(x.X, d) + ")"
	case *ssa.ChangeType:
		return st.desc(x.X, d)
	case *ssa.ChangeInterface:
		return st.desc(x.X, d)
	case *ssa.MakeInterface:
		return st.desc(x.X, d)
	case *ssa.SliceToArrayPointer:
		return st.desc(x.X, d)
	case *ssa.TypeAssert:
		return "assert:" + typeName(x.AssertedType) + "(" + st.desc(x.X, d-1) + ")"
	case *ssa.Slice:
		lo, hi := "", ""
		if x.Low != nil {
			lo = st.desc(x.Low, d-1)
		}
		if x.High != nil {
			hi = st.desc(x.High, d-1)
		}
		return st.desc(x.X, d) + "[" + lo + ":" + hi + "]"
	case *ssa.MakeMap:
		return "make:" + typeName(x.Type())
	case *ssa.MakeSlice:
		return "make:" + typeName(x.Type())
	case *ssa.MakeChan:
		return "make:" + typeName(x.Type())
	case *ssa.MakeClosure:
		return "closure:" + FnName(x.Fn.(*ssa.Function))
	case *ssa.Range:
		return "range(" + st.desc(x.X, d-1) + ")"
	case *ssa.Next:
		return "next(" + st.desc(x.Iter, d-1) + ")"
	case *ssa.Select:
		return "select"
	}
	return fmt.Sprintf("%T", v)
}

// ---------------------------------------------------------------- guards

// Guard is a branch condition that holds (Pol=true) or fails (Pol=false) on
// every path reaching a block.
type Guard struct {
	Cond ssa.Value
	Pol  bool
}

func dominates(a, b *ssa.BasicBlock) bool { return a == b || a.Dominates(b) }

// edgeDominates reports whether every path to b passes through the edge d→s.
func edgeDominates(d, s, b *ssa.BasicBlock) bool {
	if !dominates(s, b) {
		return false
	}
	n := 0
	for _, p := range s.Preds {
		if p == d {
			n++
			continue
		}
		if !dominates(s, p) { // another way into s that is not a back edge
			return false
		}
	}
	return n == 1
}

// RawGuards lists the branch conditions dominating block b (innermost first).
func RawGuards(b *ssa.BasicBlock) []Guard {
	var out []Guard
	for d := b.Idom(); d != nil; d = d.Idom() {
		ifi, ok := d.Instrs[len(d.Instrs)-1].(*ssa.If)
		if !ok || len(d.Succs) != 2 || d.Succs[0] == d.Succs[1] {
			continue
		}
		t := edgeDominates(d, d.Succs[0], b)
		f := edgeDominates(d, d.Succs[1], b)
		if t && !f {
			out = append(out, Guard{ifi.Cond, true})
		} else if f && !t {
			out = append(out, Guard{ifi.Cond, false})
		}
	}
	return out
}

// edgeGuards: the guards that hold when control flows along pred→blk.
func edgeGuards(pred, blk *ssa.BasicBlock) []Guard {
	gs := RawGuards(pred)
	if ifi, ok := pred.Instrs[len(pred.Instrs)-1].(*ssa.If); ok && len(pred.Succs) == 2 && pred.Succs[0] != pred.Succs[1] {
		if pred.Succs[0] == blk {
			gs = append(gs, Guard{ifi.Cond, true})
		} else if pred.Succs[1] == blk {
			gs = append(gs, Guard{ifi.Cond, false})
		}
	}
	return gs
}

func constBool(v ssa.Value) (bool, bool) {
	if c, ok := v.(*ssa.Const); ok && c.Value != nil {
		if b, ok := c.Type().Underlying().(*types.Basic); ok && b.Info()&types.IsBoolean != 0 {
			return c.Value.ExactString() == "true", true
		}
	}
	return false, false
}

// expand turns guards into atomic facts: strips negations, and looks through
// the phi lowering of && / || (a phi of constants and one live operand).
func expand(gs []Guard, depth int) []Guard {
	var out []Guard
	for _, g := range gs {
		c, pol := g.Cond, g.Pol
		for {
			if u, ok := c.(*ssa.UnOp); ok && u.Op == token.NOT {
				c, pol = u.X, !pol
				continue
			}
			break
		}
		out = append(out, Guard{c, pol})
		if phi, ok := c.(*ssa.Phi); ok && depth > 0 {
			// Which edges can yield value == pol?
			var live []int
			for i, e := range phi.Edges {
				if cb, isc := constBool(e); isc {
					if cb == pol {
						live = append(live, i)
					}
					continue
				}
				live = append(live, i)
			}
			if len(live) == 1 {
				i := live[0]
				sub := edgeGuards(phi.Block().Preds[i], phi.Block())
				if _, isc := constBool(phi.Edges[i]); !isc {
					sub = append(sub, Guard{phi.Edges[i], pol})
				}
				out = append(out, expand(sub, depth-1)...)
			}
		}
	}
	return out
}

// Guards returns the atomic facts dominating block b.
func Guards(b *ssa.BasicBlock) []Guard { return expand(RawGuards(b), 4) }

func isNilConst(v ssa.Value) bool {
	c, ok := v.(*ssa.Const)
	return ok && c.Value == nil
}

// FactString normalises one guard: "+X" / "-X" for boolean values,
// "+(A == B)" with sorted operands, ordered comparisons always positive.
func FactString(g Guard) string {
	pol := g.Pol
	if b, ok := g.Cond.(*ssa.BinOp); ok {
		x, y := Desc(b.X), Desc(b.Y)
		switch b.Op {
		case token.EQL, token.NEQ:
			if b.Op == token.NEQ {
				pol = !pol
			}
			if (y < x && y != "nil") || x == "nil" {
				x, y = y, x
			}
			return sign(pol) + "(" + x + " == " + y + ")"
		case token.LSS, token.LEQ, token.GTR, token.GEQ:
			op := b.Op
			if op == token.GTR {
				x, y, op = y, x, token.LSS
			} else if op == token.GEQ {
				x, y, op = y, x, token.LEQ
			}
			if !pol { // !(x<y) = y<=x ; !(x<=y) = y<x
				x, y = y, x
				if op == token.LSS {
					op = token.LEQ
				} else {
					op = token.LSS
				}
			}
			return "+(" + x + " " + op.String() + " " + y + ")"
		}
	}
	return sign(pol) + Desc(g.Cond)
}

func sign(p bool) string {
	if p {
		return "+"
	}
	return "-"
}

// Facts lists the normalised facts that hold whenever block b executes.
func Facts(b *ssa.BasicBlock) []string {
	gs := Guards(b)
	out := make([]string, 0, len(gs))
	seen := map[string]bool{}
	for _, g := range gs {
		s := FactString(g)
		if !seen[s] {
			seen[s] = true
			out = append(out, s)
		}
	}
	return out
}

func EdgeFacts(pred, blk *ssa.BasicBlock) []string {
	gs := expand(edgeGuards(pred, blk), 4)
	out := make([]string, 0, len(gs))
	seen := map[string]bool{}
	for _, g := range gs {
		s := FactString(g)
		if !seen[s] {
			seen[s] = true
			out = append(out, s)
		}
	}
	return out
}

var reCache = map[string]*regexp.Regexp{}

func re(p string) *regexp.Regexp {
	if r, ok := reCache[p]; ok {
		return r
	}
	r := regexp.MustCompile(p)
	reCache[p] = r
	return r
}

// HasFact reports whether some fact matches the pattern.
func HasFact(facts []string, pattern string) bool {
	r := re(pattern)
	for _, f := range facts {
		if r.MatchString(f) {
			return true
		}
	}
	return false
}

func MissingFacts(facts []string, patterns ...string) []string {
	var miss []string
	for _, p := range patterns {
		if !HasFact(facts, p) {
			miss = append(miss, p)
		}
	}
	return miss
}

// ---------------------------------------------------------------- summaries

// ReturnFacts computes, for each Return of fn whose idx-th result satisfies
// want, the facts that hold on that return path (including the returned
// value itself being true when it is a boolean expression).
func ReturnFacts(fn *ssa.Function, idx int, want func(v ssa.Value) (match bool, addSelf bool)) [][]string {
	var all [][]string
	for _, b := range fn.Blocks {
		ret, ok := b.Instrs[len(b.Instrs)-1].(*ssa.Return)
		if !ok || idx >= len(ret.Results) || deadRecover(b) {
			continue
		}
		collectReturn(RetResults(ret)[idx], b, nil, want, &all, 4)
	}
	return all
}

func collectReturn(v ssa.Value, b *ssa.BasicBlock, via *ssa.BasicBlock, want func(ssa.Value) (bool, bool), all *[][]string, depth int) {
	if phi, ok := v.(*ssa.Phi); ok && depth > 0 && phi.Block() == b {
		for i, e := range phi.Edges {
			collectReturn(e, b.Preds[i], b, want, all, depth-1)
		}
		return
	}
	m, self := want(v)
	if !m {
		return
	}
	var gs []Guard
	if via != nil {
		gs = edgeGuards(b, via)
	} else {
		gs = RawGuards(b)
	}
	if self {
		gs = append(gs, Guard{v, true})
	}
	gs = expand(gs, 4)
	seen := map[string]bool{}
	var fs []string
	for _, g := range gs {
		s := FactString(g)
		if !seen[s] {
			seen[s] = true
			fs = append(fs, s)
		}
	}
	*all = append(*all, fs)
}

func intersect(sets [][]string) []string {
	if len(sets) == 0 {
		return nil
	}
	count := map[string]int{}
	for _, s := range sets {
		for _, f := range s {
			count[f]++
		}
	}
	var out []string
	for _, f := range sets[0] {
		if count[f] == len(sets) {
			out = append(out, f)
		}
	}
	return out
}

// SummaryTrue: facts implied by a bool function returning true.
func SummaryTrue(fn *ssa.Function) []string {
	sets := ReturnFacts(fn, 0, func(v ssa.Value) (bool, bool) {
		if cb, isc := constBool(v); isc {
			return cb, false
		}
		return true, true
	})
	return intersect(sets)
}

// SummaryNilErr: facts implied by result idx (an error) being nil.
func SummaryNilErr(fn *ssa.Function, idx int) []string {
	sets := ReturnFacts(fn, idx, func(v ssa.Value) (bool, bool) {
		if isNilConst(v) {
			return true, false
		}
		if _, ok := v.(*ssa.Const); ok {
			return false, false
		}
		// a non-constant error value: may be nil only if it is a call result etc.
		switch x := v.(type) {
		case *ssa.MakeInterface:
			return false, false
		case *ssa.Call:
			// constructors that never return nil
			switch CalleeName(x) {
			case "fmt.Errorf", "errors.New":
				return false, false
			}
		}
		return true, false
	})
	return intersect(sets)
}

// ---------------------------------------------------------------- iteration helpers

func EachInstr(fn *ssa.Function, f func(ssa.Instruction)) {
	for _, b := range fn.Blocks {
		for _, in := range b.Instrs {
			f(in)
		}
	}
}

// CallsMatching returns call instructions (call, go, defer) in fn whose
// resolved callee name matches the pattern.
func CallsMatching(fn *ssa.Function, pattern string) []ssa.CallInstruction {
	r := re(pattern)
	var out []ssa.CallInstruction
	EachInstr(fn, func(in ssa.Instruction) {
		if c, ok := in.(ssa.CallInstruction); ok && r.MatchString(CalleeName(c)) {
			out = append(out, c)
		}
	})
	return out
}

// InstrBefore reports whether a is executed before b on every path to b
// (a's block strictly dominates b's, or same block and earlier).
func InstrBefore(a, b ssa.Instruction) bool {
	if a.Block() == b.Block() {
		for _, in := range a.Block().Instrs {
			if in == a {
				return true
			}
			if in == b {
				return false
			}
		}
	}
	return a.Block().Dominates(b.Block())
}

// valueOf returns the ssa.Value of a call instruction if it has one.
func callValue(c ssa.CallInstruction) ssa.Value {
	if v, ok := c.(*ssa.Call); ok {
		return v
	}
	return nil
}

// Reaches reports whether block a can reach block b in the CFG (a != b needs a path).
func Reaches(a, b *ssa.BasicBlock) bool {
	seen := map[*ssa.BasicBlock]bool{}
	var stack []*ssa.BasicBlock
	stack = append(stack, a.Succs...)
	for len(stack) > 0 {
		n := stack[len(stack)-1]
		stack = stack[:len(stack)-1]
		if n == b {
			return true
		}
		if seen[n] {
			continue
		}
		seen[n] = true
		stack = append(stack, n.Succs...)
	}
	return false
}
