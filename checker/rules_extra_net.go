package main

import (
	"fmt"
	"strings"

	"golang.org/x/tools/go/ssa"
)

// Rules added after round-2 seeds C12-4, C13-4, C13-6, C17-4.

// membershipRule: MembershipValidator.IsValidMembership(index, key) answers
// from THIS call's key: true only when the address derived from the key
// argument is a group member and the index is one of that address's seats.
func membershipRule(r *Run, rule string) {
	fn := r.MustFn(rule, "pkg/protocol/group", "MembershipValidator.IsValidMembership")
	if fn == nil {
		return
	}
	name := FnName(fn)
	addr := "call:pkg/chain.Address.String(invoke:pkg/chain.Signing.PublicKeyBytesToAddress(P0.signing, P2))"
	n := 0
	for _, b := range fn.Blocks {
		ret, ok := b.Instrs[len(b.Instrs)-1].(*ssa.Return)
		if !ok {
			continue
		}
		res := RetResults(ret)[0]
		cb, isC := constBool(res)
		if !isC {
			r.Fail(rule, name+"#verdict", ret.Pos(), "the verdict is not a per-path constant; cannot tie 'valid' to the key argument", nil, []string{Desc(res)})
			n++
			continue
		}
		if !cb {
			continue
		}
		n++
		facts := Facts(b)
		okIn, okSeat := false, false
		for _, f := range facts {
			if f == "+P0.members["+addr+"]#1" {
				okIn = true
			}
			if strings.HasPrefix(f, "+(") && strings.Contains(f, "P0.members["+addr+"]#0[") && strings.Contains(f, "conv:int((P1 - const:1))") && strings.Contains(f, " == ") {
				okSeat = true
			}
		}
		r.Cond(okIn && okSeat, rule, name+"#valid", ret.Pos(), "valid only when the address of the given public key is in the group and the index (−1) is one of that address's positions")
	}
	if n == 0 {
		r.Undecided(rule, name+"#valid", "no accepting return found")
	}
	// the validator keeps no per-call memory: nothing in the package writes its fields after construction
	for _, f := range []string{"members", "signing"} {
		for _, a := range r.W.FieldAccesses("pkg/protocol/group", "MembershipValidator", f) {
			top := a.Fn
			for top.Parent() != nil {
				top = top.Parent()
			}
			if a.Write && !allocatesType(top, "pkg/protocol/group", "MembershipValidator") {
				r.Fail(rule, FnName(a.Fn)+"#write:"+f, a.Instr.Pos(), "the membership validator is modified after construction (a verdict would depend on earlier calls)", nil, nil)
			}
		}
	}
}

// scanMembership: fn(P0 recv, P1 index) answers "P1 ∈ P0.<list>" by a complete
// scan (or slices.Contains); a search that assumes an order is accepted only
// if nothing appends to the list unsorted — which is not the case here, so it
// is reported.
func scanMembership(r *Run, rule string, fn *ssa.Function, list string) {
	name := FnName(fn)
	for _, c := range Sites(fn, `BinarySearch|^sort\.Search`, false) {
		r.Fail(rule, name+"#ordered-search", c.Pos(), "membership in "+list+" is decided by a search that assumes the list is sorted, but members are appended in the order they are marked", nil, nil)
		return
	}
	if cs := Sites(fn, `slices\.Contains(\[.*\])?$`, false); len(cs) == 1 && strings.Contains(Desc(cs[0].Common().Args[0]), "P0."+list) {
		r.Ok(rule, name, fn.Pos(), "slices.Contains over "+list)
		return
	}
	okLoop := false
	var loop *Loop
	for _, l := range Loops(fn) {
		if s := loopSource(l.Header); s != nil && Desc(s) == "P0."+list && l.Kind == "range" {
			okLoop, loop = true, l
		}
	}
	okTrue, okFalse := false, false
	for _, b := range fn.Blocks {
		ret, ok := b.Instrs[len(b.Instrs)-1].(*ssa.Return)
		if !ok {
			continue
		}
		cb, isC := constBool(RetResults(ret)[0])
		if !isC {
			continue
		}
		if cb {
			okTrue = HasFact(Facts(b), `^\+\(P1 == P0\.`+q(list)+`\[.*\]\)$|^\+\(P0\.`+q(list)+`\[.*\] == P1\)$`)
		} else {
			okFalse = loop != nil && !loop.Blocks[b] && dominates(loop.Header, b) && HasFact(Facts(b), `^\+\(len\(P0\.`+q(list)+`\) <= `)
		}
	}
	r.Cond(okLoop && okTrue && okFalse, rule, name, fn.Pos(), "true exactly on an element equal to the index while ranging over all of "+list+"; false only after the whole list was scanned")
}

func init() {
	extend("C12", func(r *Run) {
		r.Rule("C12.operating", "Group.IsOperating = not in the inactive list and not in the disqualified list, both decided by complete scans", 3)
		r.Rule("C12.membership", "IsValidMembership decides from the given key and index only", 1)
		for _, fl := range [][2]string{{"Group.isInactive", "inactiveMemberIndexes"}, {"Group.isDisqualified", "disqualifiedMemberIndexes"}} {
			if fn := r.MustFn("C12.operating", "pkg/protocol/group", fl[0]); fn != nil {
				scanMembership(r, "C12.operating", fn, fl[1])
			}
		}
		if fn := r.MustFn("C12.operating", "pkg/protocol/group", "Group.IsOperating"); fn != nil {
			ok := false
			for _, b := range fn.Blocks {
				ret, isRet := b.Instrs[len(b.Instrs)-1].(*ssa.Return)
				if !isRet {
					continue
				}
				phi, isPhi := RetResults(ret)[0].(*ssa.Phi)
				if !isPhi {
					continue
				}
				ok = true
				nTrue := 0
				for i, e := range phi.Edges {
					if cb, isC := constBool(e); isC {
						if cb {
							ok = false // an unconditional "operating"
						}
						continue
					}
					nTrue++
					fs := EdgeFacts(phi.Block().Preds[i], phi.Block())
					if Desc(e) != "!call:pkg/protocol/group.Group.isDisqualified(P0, P1)" || !HasFact(fs, `^-call:pkg/protocol/group\.Group\.isInactive\(P0, P1\)$`) {
						ok = false
					}
				}
				if nTrue != 1 {
					ok = false
				}
			}
			r.Cond(ok, "C12.operating", FnName(fn), fn.Pos(), "operating only when ¬inactive ∧ ¬disqualified")
		}
		membershipRule(r, "C12.membership")
	})
	witness(Witness{Prop: "C12", Name: "membership-ignores-index", File: "pkg/protocol/group/membership_validator.go",
		Old: "\t\tif index == position {", New: "\t\tif index == position || index >= 0 {", Rule: "C12.membership"})
	extend("C13", func(r *Run) {
		r.Rule("C13.membership", "the seat a signature is counted for is validated against the key of this very message", 1)
		r.Rule("C13.always-verified", "the verification state always runs the verifier (which registers the member's own signature) and takes its result as the signature set", 3)
		membershipRule(r, "C13.membership")
		for _, v := range [][2]string{
			{"pkg/beacon/dkg/result", "SigningMember.VerifyDKGResultSignatures"},
			{"pkg/tecdsa/dkg", "signingMember.verifyDKGResultSignatures"},
			{"pkg/protocol/inactivity", "signingMember.verifyInactivityClaimSignatures"},
		} {
			fn := r.W.Fn(v[0], v[1])
			if fn == nil {
				r.Undecided("C13.always-verified", v[0]+"."+v[1], "verifier not found")
				continue
			}
			callers := r.W.Callers(fn)
			n := 0
			for _, c := range callers {
				caller := c.Parent()
				if caller.Pkg == nil || !strings.HasSuffix(caller.Pkg.Pkg.Path(), v[0]) {
					continue
				}
				n++
				ok := true
				nRet := 0
				for _, b := range caller.Blocks {
					ret, isRet := b.Instrs[len(b.Instrs)-1].(*ssa.Return)
					if !isRet {
						continue
					}
					res := RetResults(ret)
					if len(res) > 0 && !isNilConst(res[len(res)-1]) {
						continue // failing return
					}
					nRet++
					if !(dominates(c.Block(), b)) {
						ok = false
					}
				}
				// the result is what the state keeps
				kept := false
				EachInstr(caller, func(in ssa.Instruction) {
					if st, isSt := in.(*ssa.Store); isSt {
						fromCall := st.Val == callValue(c)
						if ex, isEx := st.Val.(*ssa.Extract); isEx && ex.Tuple == callValue(c) && ex.Index == 0 {
							fromCall = true
						}
						if _, isFA := st.Addr.(*ssa.FieldAddr); isFA && fromCall {
							kept = true
						}
					}
				})
				r.Cond(ok && nRet > 0 && kept, "C13.always-verified", FnName(caller)+"#"+shortCallee(c), c.Pos(), fmt.Sprintf("every successful exit (%d) passes the verifier call, whose map is stored in the state", nRet))
			}
			if n == 0 {
				r.Undecided("C13.always-verified", v[0]+"."+v[1], "no caller in the package")
			}
		}
	})
	witness(Witness{Prop: "C13", Name: "skip-verifier-when-no-messages", File: "pkg/beacon/dkg/result/states.go",
		Old: "\tsignatures, err := svs.member.VerifyDKGResultSignatures(", New: "\tif len(svs.signatureMessages) == 0 {\n\t\treturn nil\n\t}\n\tsignatures, err := svs.member.VerifyDKGResultSignatures(", Rule: "C13.always-verified"})
	extend("C17", func(r *Run) {
		r.Rule("C17.every-tick", "every tick reaches Strategy.Tick: the tick handler launches it unconditionally", 1)
		fn := r.MustFn("C17.every-tick", "pkg/net/retransmission", "ScheduleRetransmissions")
		if fn == nil {
			return
		}
		// the closure handed to ticker.onTick
		var handler *ssa.Function
		for _, f := range allClosures(fn) {
			for _, c := range Sites(f, `^pkg/net/retransmission\.Ticker\.onTick$`, false) {
				handler = closureOf(c.Common().Args[2])
			}
		}
		if handler == nil {
			r.Undecided("C17.every-tick", FnName(fn), "tick handler closure not found")
			return
		}
		// inside it (and the goroutine it starts) Strategy.Tick is called with no condition in front
		ok, n := true, 0
		for _, f := range allClosures(handler) {
			for _, c := range Sites(f, `^invoke:pkg/net/retransmission\.Strategy\.Tick$`, false) {
				n++
				if len(Facts(c.Block())) != 0 {
					ok = false
				}
				// and the chain of launches from the handler down to f is unconditional
				for g := f; g != handler && g != nil; g = g.Parent() {
					for _, in := range allLaunches(g.Parent(), g) {
						if len(Facts(in.Block())) != 0 {
							ok = false
						}
					}
				}
			}
		}
		r.Cond(ok && n == 1, "C17.every-tick", FnName(handler), handler.Pos(), "the handler's path to Strategy.Tick has no guard (a tick is never skipped because an earlier one is still running)")
	})
	witness(Witness{Prop: "C17", Name: "tick-skipped-when-busy", File: "pkg/net/retransmission/retransmission.go",
		Old: "\t\tticker.onTick(ctx, func() {\n\t\t\tgo func() {", New: "\t\tbusy := false\n\t\tticker.onTick(ctx, func() {\n\t\t\tif busy {\n\t\t\t\treturn\n\t\t\t}\n\t\t\tgo func() {", Rule: "C17.every-tick"})
}

func allClosures(fn *ssa.Function) []*ssa.Function {
	out := []*ssa.Function{fn}
	for _, a := range fn.AnonFuncs {
		out = append(out, allClosures(a)...)
	}
	return out
}

// allLaunches: the go/call/defer instructions of parent that start closure g.
func allLaunches(parent, g *ssa.Function) []ssa.Instruction {
	var out []ssa.Instruction
	if parent == nil {
		return nil
	}
	EachInstr(parent, func(in ssa.Instruction) {
		if c, ok := in.(ssa.CallInstruction); ok && closureOf(c.Common().Value) == g {
			out = append(out, in)
		}
	})
	return out
}

// C12.group-lists-read-only (added after seed C12-9): Group.InactiveMemberIndexes
// and DisqualifiedMemberIndexes hand out the group's own slices. Anyone who
// appends to, sorts or stores into such a result rewrites the exclusion lists
// that shouldAcceptMessage consults — an excluded member could become
// operating again.
func init() {
	extend("C12", func(r *Run) {
		r.Rule("C12.group-lists-read-only", "callers never write into the slices returned by the group's exclusion-list getters", 5)
		getters := `^pkg/protocol/group\.Group\.(InactiveMemberIndexes|DisqualifiedMemberIndexes)$`
		n := 0
		for _, fn := range r.W.AllFuncs {
			for _, c := range Sites(fn, getters, false) {
				cv := callValue(c)
				if cv == nil {
					continue
				}
				n++
				var bad []string
				seen := map[ssa.Value]bool{}
				var walk func(v ssa.Value, d int)
				walk = func(v ssa.Value, d int) {
					if d == 0 || seen[v] || v.Referrers() == nil {
						return
					}
					seen[v] = true
					for _, ref := range *v.Referrers() {
						switch x := ref.(type) {
						case *ssa.Slice:
							walk(x, d-1)
						case *ssa.ChangeType:
							walk(x, d-1)
						case *ssa.Phi:
							walk(x, d-1)
						case *ssa.IndexAddr:
							for _, r2 := range *x.Referrers() {
								if st, isSt := r2.(*ssa.Store); isSt && st.Addr == ssa.Value(x) {
									bad = append(bad, "element store")
								}
							}
						case *ssa.Call:
							if b, isB := x.Call.Value.(*ssa.Builtin); isB {
								if b.Name() == "append" && x.Call.Args[0] == v {
									bad = append(bad, "append onto it")
								}
								if b.Name() == "copy" && x.Call.Args[0] == v {
									bad = append(bad, "copy into it")
								}
								continue
							}
							cn := CalleeName(x)
							if strings.HasPrefix(cn, "sort.") || strings.Contains(cn, "slices.Sort") || strings.Contains(cn, "slices.Reverse") {
								bad = append(bad, cn)
							}
							// follow the list into repository functions and local closures it is handed to
							callee := staticCallee(x)
							if callee == nil {
								callee = closureOf(x.Call.Value)
							}
							if callee != nil && callee.Blocks != nil {
								off := len(callee.Params) - len(x.Call.Args)
								for i, a := range x.Call.Args {
									if a == v && i+off >= 0 && i+off < len(callee.Params) {
										walk(callee.Params[i+off], d-1)
									}
								}
							}
						}
					}
				}
				walk(cv, 5)
				r.Cond(len(bad) == 0, "C12.group-lists-read-only", FnName(fn)+"#"+shortCallee(c), c.Pos(), "the returned list is only read; found: "+strings.Join(bad, ", "))
			}
		}
		if n == 0 {
			r.Undecided("C12.group-lists-read-only", "pkg/protocol/group", "no caller of the getters found")
		}
	})
}
