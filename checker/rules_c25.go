package main

import (
	"fmt"
	"go/types"

	"golang.org/x/tools/go/ssa"
)

func init() {
	register(&Prop{
		ID:        "C25",
		Technique: "static analysis: must-hold locksets on the busy map, single-critical-section test-and-set, defer-before-execute ordering in the action goroutine, who-may-call (go/ssa)",
		Explanation: "walletDispatcher: the actions map is touched only with the dispatcher's actionsMutex held; dispatch takes the lock once (released by defer), looks the wallet key up and inserts it in that same critical section, refuses with errWalletBusy when present, inserts only when absent, and starts the action goroutine only after the insert; " +
			"the goroutine registers — before calling execute — a deferred function that deletes that same key under the mutex, so the wallet is released on every exit of execute (return, error or panic); the executed action is the dispatched one; the key is derived from the action's wallet public key only (different wallets never share a key); " +
			"walletAction.execute is invoked nowhere else in the module.",
		NotDecided: "that every code path that should go through the dispatcher does (callers outside pkg/tbtc obtaining signing executors); fairness.",
		Fn: func(r *Run) {
			r.Rule("C25.lock", "actions map only under actionsMutex", 4)
			r.Rule("C25.dispatch", "busy test and insert in one critical section; insert ⇐ absent; busy ⇒ errWalletBusy; goroutine after insert", 5)
			r.Rule("C25.release", "deferred delete of the same key registered before execute", 3)
			r.Rule("C25.only-door", "walletAction.execute called only from the dispatcher goroutine", 1)
			r.Rule("C25.nonblocking", "nothing can block while actionsMutex is held, nor in the action goroutine around execute (wallets do not wait for each other; a wallet is free as soon as its action ends)", 3)
			r.FieldUnderLock("C25.lock", "pkg/tbtc", "walletDispatcher", "actions", "actionsMutex", nil)
			fn := r.MustFn("C25.dispatch", "pkg/tbtc", "walletDispatcher.dispatch")
			if fn == nil {
				return
			}
			locks := Sites(fn, `^sync\.Mutex\.Lock$`, false)
			plainUnlocks := 0
			for _, c := range Sites(fn, `^sync\.Mutex\.Unlock$`, false) {
				if _, isDefer := c.(*ssa.Defer); !isDefer {
					plainUnlocks++
				}
			}
			r.Cond(len(locks) == 1 && plainUnlocks == 0, "C25.dispatch", FnName(fn)+"#one-section", fn.Pos(), "lock taken once, released only by defer")
			var lookup *ssa.Lookup
			var update *ssa.MapUpdate
			var gos []*ssa.Go
			EachInstr(fn, func(in ssa.Instruction) {
				switch x := in.(type) {
				case *ssa.Lookup:
					if _, isMap := x.X.Type().Underlying().(*types.Map); isMap && Desc(x.X) == "P0.actions" {
						lookup = x
					}
				case *ssa.MapUpdate:
					if Desc(x.Map) == "P0.actions" {
						update = x
					}
				case *ssa.Go:
					gos = append(gos, x)
				}
			})
			if lookup == nil || update == nil || len(gos) != 1 {
				r.Undecided("C25.dispatch", FnName(fn), "lookup / insert / single goroutine launch not found")
				return
			}
			key := Desc(update.Key)
			r.Cond(Desc(lookup.Index) == key, "C25.dispatch", FnName(fn)+"#same-key", update.Pos(), "busy test and insert use the same key")
			r.Cond(re(`^call:encoding/hex\.EncodeToString\(call:pkg/tbtc\.marshalPublicKey\(invoke:pkg/tbtc\.walletAction\.wallet\(P1\)\.publicKey\)#0\)$`).MatchString(key),
				"C25.dispatch", FnName(fn)+"#key", update.Pos(), "key must be the hex of the action's wallet public key; got "+abbr(key, 3))
			r.Check("C25.dispatch", FnName(fn)+"#insert", update.Pos(), Facts(update.Block()), `^-`+q(Desc(lookup))+`#1$`)
			for _, p := range ReturnPaths(fn, 0, notNilConst) {
				if Desc(p.Val) == "*global:pkg/tbtc.errWalletBusy" || Desc(p.Val) == "global:pkg/tbtc.errWalletBusy" {
					r.Check("C25.dispatch", FnName(fn)+"#busy", p.Ret.Pos(), p.Facts, `^\+`+q(Desc(lookup))+`#1$`)
				}
			}
			g := gos[0]
			r.Cond(InstrBefore(update, g), "C25.dispatch", FnName(fn)+"#go-after-insert", g.Pos(), "the action goroutine starts only after the wallet was marked busy")
			gf := staticCallee(g)
			if gf == nil {
				r.Undecided("C25.release", FnName(fn)+"#go", "goroutine body not resolved")
				return
			}
			noBlock := func(f *ssa.Function, lock, what string) {
				bl := blockingUnder(f, lock, map[string]bool{"execute": lock != ""}, `\.actionsMutex$`)
				if len(bl) == 0 {
					r.Ok("C25.nonblocking", FnName(f)+"#"+what, f.Pos(), "no channel operation, wait, sleep or foreign lock "+what)
					return
				}
				for _, in := range bl {
					r.Fail("C25.nonblocking", FnName(f)+"#"+what, in.Pos(), "operation that can block "+what+": another wallet's dispatch (or this wallet's release) waits behind it", nil, []string{in.String()})
				}
			}
			noBlock(fn, "P0.actionsMutex", "while actionsMutex is held")
			noBlock(gf, "", "in the action goroutine")
			for _, a := range gf.AnonFuncs {
				noBlock(a, "", "in the goroutine's deferred release")
			}
			execs := Sites(gf, `^invoke:pkg/tbtc\.walletAction\.execute$`, false)
			var defers []*ssa.Defer
			EachInstr(gf, func(in ssa.Instruction) {
				if d, ok := in.(*ssa.Defer); ok {
					defers = append(defers, d)
				}
			})
			if len(execs) != 1 || len(defers) == 0 {
				r.Undecided("C25.release", FnName(gf), "execute call / deferred release not found")
				return
			}
			r.Cond(Desc(execs[0].Common().Value) == "up(P1)", "C25.release", FnName(gf)+"#action", execs[0].Pos(), "the executed action is the dispatched one; got "+Desc(execs[0].Common().Value))
			released := false
			for _, d := range defers {
				df := staticCallee(d)
				if df == nil || !InstrBefore(d, execs[0]) {
					continue
				}
				held := LocksHeld(df)
				EachInstr(df, func(in ssa.Instruction) {
					c, ok := in.(*ssa.Call)
					if !ok || CalleeName(c) != "builtin:delete" {
						return
					}
					m, k := Desc(c.Call.Args[0]), Desc(c.Call.Args[1])
					okKey := re(`^up\(up\(`).MatchString(k) && stripUp(k) == key
					okMap := stripUp(m) == "P0.actions"
					okLock := len(held[c]) == 1 && stripUp(held[c][0]) == "P0.actionsMutex"
					if okKey && okMap && okLock {
						released = true
					}
					r.Cond(okKey && okMap && okLock, "C25.release", FnName(df)+"#delete", c.Pos(), "deferred release must delete the dispatched key from the actions map under the mutex; got map "+stripUp(m)+" key "+abbr(stripUp(k), 1)+" want "+abbr(key, 1)+fmt.Sprint(" held ", held[c]))
				})
			}
			r.Cond(released, "C25.release", FnName(gf)+"#defer-before-execute", execs[0].Pos(), "a deferred release must be registered before execute runs")
			// no path of the goroutine body removes the key other than the defer; and nothing else calls execute
			r.OnlyCalledFrom("C25.only-door", `^(invoke:pkg/tbtc\.walletAction\.execute|pkg/tbtc\.\w+Action\.execute)$`, 1, FnName(gf))
		},
	})
}

// stripUp removes up( … ) wrappers of simple (parenthesis-free) contents repeatedly.
func stripUp(s string) string {
	for i := 0; i < 6; i++ {
		n := re(`up\(([^()]*)\)`).ReplaceAllString(s, "$1")
		if n == s {
			break
		}
		s = n
	}
	// wrappers around expressions that themselves contain calls
	for i := 0; i < 6 && len(s) > 4 && s[:3] == "up(" && s[len(s)-1] == ')'; i++ {
		s = s[3 : len(s)-1]
	}
	return s
}
