package main

import (
	"fmt"
	"strings"

	"golang.org/x/tools/go/ssa"
)

// Rules added after round-2 seeds C44-5, C45-5, C45-6, C47-6.
func init() {
	extend("C44", func(r *Run) {
		r.Rule("C44.networks-unconditional", "resolveNetworks assigns both network fields on every call (nothing left over from an earlier resolution or from the caller)", 2)
		if fn := r.MustFn("C44.networks-unconditional", "config", "Config.resolveNetworks"); fn != nil {
			for _, fld := range []string{"Ethereum.Network", "Bitcoin.Network"} {
				ok := false
				EachInstr(fn, func(in ssa.Instruction) {
					if st, isSt := in.(*ssa.Store); isSt && Desc(st.Addr) == "&P0."+fld && len(Facts(st.Block())) == 0 {
						// unconditional: the store's block is on every path to the exit
						all := true
						for _, b := range fn.Blocks {
							if _, isRet := b.Instrs[len(b.Instrs)-1].(*ssa.Return); isRet && !dominates(st.Block(), b) {
								all = false
							}
						}
						if all {
							ok = true
						}
					}
				})
				r.Cond(ok, "C44.networks-unconditional", FnName(fn)+"#"+fld, fn.Pos(), "Config."+fld+" is stored unconditionally")
			}
		}
	})
	extend("C45", func(r *Run) {
		r.Rule("C45.latch-paired", "every ProtocolLatch.Lock() is followed at once by `defer Unlock()` on the same latch (no exit can leave the count raised)", 6)
		r.Rule("C45.worker-restart", "resume restarts every worker: startWorker launches its goroutine unconditionally", 1)
		n := 0
		for _, fn := range r.W.AllFuncs {
			for _, c := range Sites(fn, `^pkg/generator\.ProtocolLatch\.Lock$`, false) {
				if strings.HasSuffix(FnName(fn), "ProtocolLatch.Lock") {
					continue
				}
				n++
				recv := Desc(c.Common().Args[0])
				ok := false
				after := false
				for _, in := range c.Block().Instrs {
					if in == c.(ssa.Instruction) {
						after = true
						continue
					}
					if !after {
						continue
					}
					if d, isD := in.(*ssa.Defer); isD && strings.HasSuffix(CalleeName(d), "pkg/generator.ProtocolLatch.Unlock") && Desc(d.Call.Args[0]) == recv {
						ok = true
						break
					}
					// anything that can leave or branch before the defer is registered spoils the pairing
					switch in.(type) {
					case *ssa.If, *ssa.Return, *ssa.Jump, *ssa.Panic:
						after = false
					}
					if cc, isC := in.(*ssa.Call); isC && !strings.HasPrefix(CalleeName(cc), "builtin:") {
						after = false // a call in between may panic or block before the unlock is registered
					}
				}
				r.Cond(ok, "C45.latch-paired", FnName(fn)+"#Lock", c.Pos(), "Lock() immediately followed by defer Unlock() on "+abbr(recv, 2))
			}
		}
		if n == 0 {
			r.Undecided("C45.latch-paired", "ProtocolLatch.Lock", "no call sites found")
		}
		if fn := r.MustFn("C45.worker-restart", "pkg/generator", "Scheduler.startWorker"); fn != nil {
			ok, k := true, 0
			EachInstr(fn, func(in ssa.Instruction) {
				if g, isGo := in.(*ssa.Go); isGo {
					k++
					if len(Facts(g.Block())) != 0 {
						ok = false
					}
				}
			})
			r.Cond(ok && k == 1, "C45.worker-restart", FnName(fn), fn.Pos(), fmt.Sprintf("one unconditional go statement (%d found)", k))
		}
	})
	extend("C47", func(r *Run) {
		r.Rule("C47.observed-cancels", "an observed inactivity claim always cancels the member's pending submission", 1)
		fn := r.MustFn("C47.observed-cancels", "pkg/tbtc", "inactivityClaimExecutor.claimInactivity")
		if fn == nil {
			return
		}
		n := 0
		for _, f := range allClosures(fn) {
			for _, c := range Sites(f, `^invoke:pkg/tbtc\.\w*Chain\.OnInactivityClaimed$`, false) {
				h := closureOf(c.Common().Args[len(c.Common().Args)-1])
				if h == nil {
					r.Undecided("C47.observed-cancels", FnName(f), "handler closure not resolved")
					continue
				}
				n++
				// the cancel is deferred or called in the entry block, before any branch
				ok := false
				for _, in := range h.Blocks[0].Instrs {
					switch x := in.(type) {
					case *ssa.Defer:
						if typeName(x.Call.Value.Type()) == "context.CancelFunc" {
							ok = true
						}
					case *ssa.Call:
						if CalleeName(x) == "dyn" && typeName(x.Call.Value.Type()) == "context.CancelFunc" {
							ok = true
						}
					}
				}
				r.Cond(ok, "C47.observed-cancels", FnName(h), h.Pos(), "the handler cancels the signer's context unconditionally (no filter can drop the event for the claim being published)")
			}
		}
		if n == 0 {
			r.Undecided("C47.observed-cancels", FnName(fn), "OnInactivityClaimed subscription not found")
		}
	})
}
