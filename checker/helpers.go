package main

import (
	"fmt"
	"regexp"
	"strings"

	"golang.org/x/tools/go/ssa"
)

func q(s string) string { return regexp.QuoteMeta(s) }

// okOf: fact "the call matching calleeRe returned a nil error (result k or the only result)".
func okOf(calleeRe string) string {
	return `^\+\((?:call:|invoke:)?` + calleeRe + `\(.*\)(?:#\d)? == nil\)$`
}

// trueOf / falseOf: fact "bool result (possibly result #0 of a tuple) of the call is true/false".
func trueOf(calleeRe string) string {
	return `^\+(?:call:|invoke:)?` + calleeRe + `\(.*\)(?:#0)?$`
}
func falseOf(calleeRe string) string {
	return `^-(?:call:|invoke:)?` + calleeRe + `\(.*\)(?:#0)?$`
}

// Sites returns call instructions in fn (and, when deep, its closures) whose
// callee name matches pattern.
func Sites(fn *ssa.Function, pattern string, deep bool) []ssa.CallInstruction {
	fns := []*ssa.Function{fn}
	if deep {
		fns = WithClosures(fn)
	}
	var out []ssa.CallInstruction
	for _, f := range fns {
		out = append(out, CallsMatching(f, pattern)...)
	}
	return out
}

func siteFn(c ssa.CallInstruction) *ssa.Function { return c.Parent() }

// CheckCalls requires every call in fn matching calleePat to be dominated by
// the needed facts; at least min such calls must exist.
func (r *Run) CheckCalls(rule string, fn *ssa.Function, calleePat string, min int, need ...string) int {
	if fn == nil {
		return 0
	}
	sites := Sites(fn, calleePat, true)
	if len(sites) < min {
		r.Undecided(rule, FnName(fn)+"#"+calleePat, fmt.Sprintf("expected at least %d call(s) matching %s in %s, found %d", min, calleePat, FnName(fn), len(sites)))
	}
	for _, c := range sites {
		facts := ImpliedFacts(c.Block(), 2)
		r.Check(rule, FnName(siteFn(c))+"#"+shortCallee(c), c.Pos(), facts, need...)
	}
	return len(sites)
}

func shortCallee(c ssa.CallInstruction) string {
	n := CalleeName(c)
	if i := strings.LastIndex(n, "/"); i >= 0 {
		n = n[i+1:]
	}
	return n
}

// OnlyCalledFrom: every repository call site of a callee matching calleePat
// lies in a function whose name has one of the allowed prefixes.
func (r *Run) OnlyCalledFrom(rule, calleePat string, min int, allowed ...string) {
	n := 0
	for _, fn := range r.W.AllFuncs {
		for _, c := range CallsMatching(fn, calleePat) {
			n++
			name := FnName(fn)
			ok := false
			for _, a := range allowed {
				if strings.HasPrefix(name, a) {
					ok = true
				}
			}
			r.Cond(ok, rule, name+"#"+shortCallee(c), c.Pos(), "call site of "+CalleeName(c)+" must lie in one of "+strings.Join(allowed, ", "))
		}
	}
	if n < min {
		r.Undecided(rule, calleePat, fmt.Sprintf("expected at least %d call site(s) of %s, found %d", min, calleePat, n))
	}
}

// ReturnsMatching: Return instructions of fn whose idx-th result description matches.
func ReturnsMatching(fn *ssa.Function, idx int, pattern string) []*ssa.Return {
	var out []*ssa.Return
	rx := re(pattern)
	for _, b := range fn.Blocks {
		if ret, ok := b.Instrs[len(b.Instrs)-1].(*ssa.Return); ok && idx < len(ret.Results) && !deadRecover(b) {
			if rx.MatchString(Desc(RetResults(ret)[idx])) {
				out = append(out, ret)
			}
		}
	}
	return out
}

// returnPathFacts gives, per (return, phi-edge) path on which result idx
// satisfies pred, the facts of that path.
type retPath struct {
	Ret   *ssa.Return
	Val   ssa.Value
	Facts []string
}

func ReturnPaths(fn *ssa.Function, idx int, pred func(v ssa.Value) bool) []retPath {
	var out []retPath
	for _, b := range fn.Blocks {
		ret, ok := b.Instrs[len(b.Instrs)-1].(*ssa.Return)
		if !ok || idx >= len(ret.Results) || deadRecover(b) {
			continue
		}
		var rec func(v ssa.Value, blk, via *ssa.BasicBlock, d int)
		rec = func(v ssa.Value, blk, via *ssa.BasicBlock, d int) {
			if phi, ok := v.(*ssa.Phi); ok && d > 0 && phi.Block() == blk {
				for i, e := range phi.Edges {
					rec(e, blk.Preds[i], blk, d-1)
				}
				return
			}
			if !pred(v) {
				return
			}
			var gs []Guard
			if via != nil {
				gs = expand(edgeGuards(blk, via), 4)
			} else {
				gs = Guards(blk)
			}
			out = append(out, retPath{ret, v, impliedFromGuards(gs, 2)})
		}
		rec(RetResults(ret)[idx], b, nil, 4)
	}
	return out
}

func isNilErr(v ssa.Value) bool { return isNilConst(v) }

func notNilConst(v ssa.Value) bool { return !isNilConst(v) }

// SuccessReturns: return paths on which the error result (last result) is the nil
// constant, or a value a dominating comparison has shown to be nil.
func SuccessReturns(fn *ssa.Function) []retPath {
	n := fn.Signature.Results().Len()
	if n == 0 {
		return nil
	}
	var out []retPath
	for _, p := range ReturnPaths(fn, n-1, func(ssa.Value) bool { return true }) {
		if isNilConst(p.Val) {
			out = append(out, p)
			continue
		}
		// `return err` where a dominating test already established err == nil is a
		// success return as well (the value is known to be nil on that path)
		if HasFact(p.Facts, `^\+\(`+q(Desc(p.Val))+` == nil\)$`) {
			out = append(out, p)
		}
	}
	return out
}

// fieldStores returns stores (and map updates / deletes through the loaded
// field) to a field named `field` anywhere in fn and its closures, matched by
// the canonical address description.
func StoresTo(fn *ssa.Function, addrPat string, deep bool) []ssa.Instruction {
	fns := []*ssa.Function{fn}
	if deep {
		fns = WithClosures(fn)
	}
	rx := re(addrPat)
	var out []ssa.Instruction
	for _, f := range fns {
		EachInstr(f, func(in ssa.Instruction) {
			switch x := in.(type) {
			case *ssa.Store:
				if rx.MatchString(Desc(x.Addr)) {
					out = append(out, in)
				}
			case *ssa.MapUpdate:
				if rx.MatchString("&" + Desc(x.Map)) {
					out = append(out, in)
				}
			}
		})
	}
	return out
}

// BranchBlocks returns the successor blocks taken when a branch condition
// matching condPat (normalised fact string, e.g. "-(… == nil)") holds.
func BranchBlocks(fn *ssa.Function, factPat string) []*ssa.BasicBlock {
	rx := re(factPat)
	var out []*ssa.BasicBlock
	for _, b := range fn.Blocks {
		ifi, ok := b.Instrs[len(b.Instrs)-1].(*ssa.If)
		if !ok || len(b.Succs) != 2 {
			continue
		}
		for i, pol := range []bool{true, false} {
			for _, g := range expand([]Guard{{ifi.Cond, pol}}, 0) {
				if rx.MatchString(FactString(g)) {
					out = append(out, b.Succs[i])
				}
			}
		}
	}
	return out
}

// NoPathFromBranch: no CFG path leads from a branch on which factPat holds to
// the instruction (the instruction's block is neither that block nor reachable from it).
func (r *Run) NoPathFromBranch(rule string, fn *ssa.Function, factPat string, min int, target ssa.Instruction, what string) {
	bs := BranchBlocks(fn, factPat)
	if len(bs) < min {
		r.Undecided(rule, FnName(fn)+"#"+what, fmt.Sprintf("expected at least %d branch(es) on %s, found %d", min, factPat, len(bs)))
		return
	}
	for _, b := range bs {
		ok := b != target.Block() && !Reaches(b, target.Block())
		r.Cond(ok, rule, FnName(fn)+"#"+what, target.Pos(), "must not be reachable from the branch where "+factPat+" holds")
	}
}
