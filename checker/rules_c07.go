package main

import (
	"strings"

	"golang.org/x/tools/go/ssa"
)

func init() {
	const dk = "pkg/tecdsa/dkg"
	register(&Prop{
		ID:        "C07",
		Technique: "static analysis: loop/dominance ordering of the exclusion marks before the machine runs, provenance of the TSS party set, admission guard facts and wrapper summaries, map-order/sort effects on the misbehaved list (go/ssa)",
		Explanation: "pkg/tecdsa/dkg: (1) Executor.Execute marks every element of excludedMembersIndexes other than the member itself as disqualified in the member's own group — the only guards of the mark are the range bound and `excluded ≠ member.id` — and the state machine is constructed and executed only after that loop has finished; " +
			"(2) the TSS party set is GenerateTssPartiesIDs(own id, group.OperatingMemberIndexes(), identityConverter), sorted with tss.SortPartyIDs, with party count len(ids) and threshold HonestThreshold()−1; the identity key is seed + memberIndex (injective) and its inverse is key − seed; " +
			"(3) every point where data of a received message is kept (ReceiveToHistory) is dominated by shouldAcceptMessage(payload sender, network key) = true and by the session equality, and shouldAcceptMessage implies valid membership ∧ not self ∧ IsOperating(sender), so messages of excluded (disqualified) members and of other sessions are not admitted; " +
			"(4) Result.Group is the member's group and MisbehavedMembersIndexes is the sorted union of its inactive and disqualified members (no map-order leak). The retention of early messages for later states is decided by C15.",
		NotDecided: "equality of the generated wallet key (inside tss-lib); that tss-lib ignores nothing it was given; liveness.",
		Fn: func(r *Run) {
			r.Rule("C07.exclusion", "excluded ≠ self are disqualified before the machine is built and run", 3)
			r.Rule("C07.parties", "TSS parties = sorted ids of the operating members; identity key = seed + index", 4)
			r.Rule("C07.admit", "kept message data ⇐ shouldAcceptMessage ∧ same session", 7)
			r.Rule("C07.admit.exempt", "named exemptions", 0)
			r.Rule("C07.wrapper", "shouldAcceptMessage ⇒ membership ∧ not self ∧ operating", 1)
			r.Rule("C07.result", "result carries the member's group; misbehaved = sorted IA ∪ DQ", 3)

			if ex := r.MustFn("C07.exclusion", dk, "Executor.Execute"); ex != nil {
				marks := Sites(ex, `^pkg/protocol/group\.Group\.MarkMemberAsDisqualified$`, false)
				if len(marks) != 1 {
					r.Fail("C07.exclusion", FnName(ex)+"#mark", ex.Pos(), "Execute itself must mark the excluded members as disqualified (exactly one MarkMemberAsDisqualified call in its body, before the machine runs)", nil, nil)
				}
				for _, m := range marks {
					a := m.Common().Args
					elem := Desc(a[1])
					r.Cond(strings.HasPrefix(elem, "P8[") && strings.HasSuffix(Desc(a[0]), ".group") && strings.Contains(Desc(a[0]), "pkg/tecdsa/dkg.newMember("),
						"C07.exclusion", FnName(ex)+"#mark-args", m.Pos(), "marks the visited element of excludedMembersIndexes in the new member's own group")
					// guards: only the range bound and excluded != member.id
					extra := ""
					n := 0
					for _, f := range Facts(m.Block()) {
						switch {
						case re(`^\+\(.* < len\(P8\)\)$`).MatchString(f):
						case re(`^-\(P8\[.*\] == call:pkg/tecdsa/dkg\.newMember\(.*\)\.id\)$`).MatchString(f):
							n++
						default:
							extra = f
						}
					}
					r.Cond(n == 1 && extra == "", "C07.exclusion", FnName(ex)+"#mark-guards", m.Pos(), "every excluded index except the member's own is marked (no other condition); extra condition: "+abbr(extra, 1))
					// the loop over P8
					var loop *Loop
					for _, l := range Loops(ex) {
						if l.Blocks[m.Block()] && sameValue(loopSource(l.Header), ex.Params[8]) {
							loop = l
						}
					}
					if loop == nil {
						r.Fail("C07.exclusion", FnName(ex)+"#loop", m.Pos(), "the mark is not inside a loop over excludedMembersIndexes", nil, nil)
						continue
					}
					for _, c := range Sites(ex, `^pkg/protocol/state\.(NewAsyncMachine|AsyncMachine\.Execute)$`, false) {
						ok := !loop.Blocks[c.Block()] && dominates(loop.Header, c.Block()) && HasFact(Facts(c.Block()), `^\+\(len\(P8\) <= .*\)$`)
						r.Cond(ok, "C07.exclusion", FnName(ex)+"#"+shortCallee(c)+"-after-exclusions", c.Pos(), "runs only after the exclusion loop completed")
					}
				}
				for _, p := range SuccessReturns(ex) {
					r.Check("C07.result", FnName(ex)+"#return", p.Ret.Pos(), p.Facts, okOf(`pkg/protocol/state\.AsyncMachine\.Execute`), `^\+assert:\*pkg/tecdsa/dkg\.finalizationState\(.*\)#1$`)
				}
			}
			if fn := r.MustFn("C07.parties", dk, "symmetricKeyGeneratingMember.initializeTssRoundOne"); fn != nil {
				for _, c := range Sites(fn, `^pkg/tecdsa/common\.GenerateTssPartiesIDs$`, false) {
					a := c.Common().Args
					r.Cond(re(`^P0(\.\w+)*\.id$`).MatchString(Desc(a[0])) && re(`^call:pkg/protocol/group\.Group\.OperatingMemberIndexes\(P0(\.\w+)*\.group\)$`).MatchString(Desc(a[1])) && re(`^P0(\.\w+)*\.identityConverter$`).MatchString(Desc(a[2])),
						"C07.parties", FnName(fn)+"#GenerateTssPartiesIDs", c.Pos(), "party ids come from the operating members of the member's group (excluded members were disqualified there)")
				}
				for _, c := range Sites(fn, `tss-lib/tss\.NewParameters$`, false) {
					a := c.Common().Args
					gen := `call:pkg/tecdsa/common.GenerateTssPartiesIDs(`
					ok := len(a) == 5 && strings.Contains(Desc(a[1]), "tss.SortPartyIDs("+gen) && strings.HasPrefix(Desc(a[2]), gen) && strings.HasSuffix(Desc(a[2]), "#0") &&
						strings.HasPrefix(Desc(a[3]), "len("+gen) && re(`^1\*call:pkg/protocol/group\.Group\.HonestThreshold\(P0(\.\w+)*\.group\) \+ -1$`).MatchString(Affine(a[4]).String())
					r.Cond(ok, "C07.parties", FnName(fn)+"#NewParameters", c.Pos(), "peer context = sorted party ids, own id, party count = len(ids), threshold = HonestThreshold()−1")
				}
			}
			if fn := r.MustFn("C07.parties", dk, "identityConverter.MemberIndexToTssPartyIDKey"); fn != nil {
				for _, ret := range ReturnsMatching(fn, 0, `.`) {
					r.Cond(re(`^call:math/big\.Int\.Add\(&?local:new, P0\.seed, call:math/big\.NewInt\(conv:int64\(P1\)\)\)$`).MatchString(Desc(ret.Results[0])),
						"C07.parties", FnName(fn), ret.Pos(), "key = seed + memberIndex; got "+abbr(Desc(ret.Results[0]), 2))
				}
			}
			if fn := r.MustFn("C07.parties", dk, "identityConverter.TssPartyIDToMemberIndex"); fn != nil {
				n := 0
				for _, ret := range ReturnsMatching(fn, 0, `.`) {
					d := Desc(ret.Results[0])
					if d == "const:0" {
						continue
					}
					n++
					r.Cond(strings.Contains(d, "math/big.Int.Sub(") && strings.Contains(d, "P0.seed"), "C07.parties", FnName(fn), ret.Pos(), "index = key − seed; got "+abbr(d, 2))
				}
				if n == 0 {
					r.Undecided("C07.parties", FnName(fn), "no non-zero return")
				}
			}
			checkAdmission(r, "C07.admit", func(rel string) bool { return rel == dk })
			checkAcceptWrappers(r, "C07.wrapper", func(rel string) bool { return rel == dk })

			if fn := r.MustFn("C07.result", dk, "finalizingMember.Result"); fn != nil {
				ok := false
				EachInstr(fn, func(in ssa.Instruction) {
					if st, isSt := in.(*ssa.Store); isSt && strings.HasSuffix(Desc(st.Addr), ".Group") && re(`^P0(\.\w+)*\.group$`).MatchString(Desc(st.Val)) {
						ok = true
					}
				})
				r.Cond(ok, "C07.result", FnName(fn)+"#Group", fn.Pos(), "the result's group is the member's own group (with the exclusions marked in it)")
			}
			if fn := r.MustFn("C07.result", dk, "Result.MisbehavedMembersIndexes"); fn != nil {
				leaks, loops := MapOrderLeaks(fn)
				r.Cond(len(leaks) == 0 && loops >= 1, "C07.result", FnName(fn)+"#sorted", fn.Pos(), "the list built by ranging over the set is sorted before it is returned")
				ia, dq := false, false
				EachInstr(fn, func(in ssa.Instruction) {
					if mu, isMu := in.(*ssa.MapUpdate); isMu {
						k := Desc(mu.Key)
						if strings.Contains(k, "Group.InactiveMemberIndexes(P0.Group)") {
							ia = true
						}
						if strings.Contains(k, "Group.DisqualifiedMemberIndexes(P0.Group)") {
							dq = true
						}
					}
				})
				r.Cond(ia && dq, "C07.result", FnName(fn)+"#union", fn.Pos(), "the set holds the group's inactive and disqualified members")
			}
		},
	})
	witness(Witness{Prop: "C07", Name: "exclusion-after-machine", File: "pkg/tecdsa/dkg/dkg.go",
		Old: "\tfor _, excludedMemberIndex := range excludedMembersIndexes {\n\t\tif excludedMemberIndex != member.id {\n\t\t\tmember.group.MarkMemberAsDisqualified(excludedMemberIndex)\n\t\t}\n\t}\n",
		New: "\tdefer func() {\n\t\tfor _, excludedMemberIndex := range excludedMembersIndexes {\n\t\t\tif excludedMemberIndex != member.id {\n\t\t\t\tmember.group.MarkMemberAsDisqualified(excludedMemberIndex)\n\t\t\t}\n\t\t}\n\t}()\n",
		Rule: "C07.exclusion"})
	witness(Witness{Prop: "C07", Name: "parties-from-all-members", File: "pkg/tecdsa/dkg/member.go",
		Old: "\t\tskgm.group.OperatingMemberIndexes(),\n\t\tskgm.identityConverter,", New: "\t\tskgm.group.MemberIndexes(),\n\t\tskgm.identityConverter,", Rule: "C07.parties"})
	witness(Witness{Prop: "C07", Name: "unsorted-misbehaved", File: "pkg/tecdsa/dkg/result.go",
		Old: "\tsort.Slice(sorted[:], func(i, j int) bool {\n\t\treturn sorted[i] < sorted[j]\n\t})\n\n\treturn sorted", New: "\tother := r.Group.InactiveMemberIndexes()\n\tsort.Slice(other, func(i, j int) bool {\n\t\treturn other[i] < other[j]\n\t})\n\n\treturn sorted", Rule: "C07.result"})
}
