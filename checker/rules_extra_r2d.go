package main

import (
	"regexp"
	"strings"

	"golang.org/x/tools/go/ssa"
)

// Rules added after seeds C28-3, C46-6, C29-2, C29-3, C41-2.

// rangeFact: the bound test of a range loop, or the exit test of an earlier one.
var rangeFact = regexp.MustCompile(`^\+\(\(phi\{.*\} \+ const:1\) < len\(.*\)\)$|^\+\(len\(.*\) <= \(phi\{.*\} \+ const:1\)\)$`)
func init() {
	extend("C28", func(r *Run) {
		r.Rule("C28.total", "Deposit.Script fails only for an undecodable depositor; no other field value can make it refuse to produce the script", 2)
		fn := r.MustFn("C28.total", "pkg/tbtc", "Deposit.Script")
		if fn == nil {
			return
		}
		allowed := regexp.MustCompile(`encoding/hex\.DecodeString\(|^[+-]\(P0\.ExtraData == nil\)$`)
		n := 0
		for _, p := range ReturnPaths(fn, 1, notNilConst) {
			n++
			var bad []string
			for _, f := range p.Facts {
				if !allowed.MatchString(f) {
					bad = append(bad, f)
				}
			}
			r.Cond(len(bad) == 0, "C28.total", FnName(fn)+"#failure", p.Ret.Pos(), "a failing return depends only on decoding the depositor / the assembled hex text; other conditions: "+strings.Join(abbrAll(bad, 2), ", "))
		}
		if n == 0 {
			r.Undecided("C28.total", FnName(fn), "no failing return found")
		}
	})
	extend("C46", func(r *Run) {
		r.Rule("C46.signing-context", "the signing loop's context derives from the caller's context (the action deadline bounds signing)", 1)
		fn := r.MustFn("C46.signing-context", "pkg/tbtc", "signingExecutor.sign")
		if fn == nil {
			return
		}
		var ctxP string
		for i, p := range fn.Params {
			if typeName(p.Type()) == "context.Context" {
				ctxP = "P" + itoa(i)
			}
		}
		n := 0
		for _, f := range allClosures(fn) {
			for _, c := range Sites(f, `^pkg/tbtc\.signingRetryLoop\.start$`, false) {
				n++
				// the loop context argument: first context-typed argument after the receiver
				var lc ssa.Value
				for _, a := range c.Common().Args[1:] {
					if typeName(a.Type()) == "context.Context" {
						lc = a
						break
					}
				}
				d := ""
				if lc != nil {
					d = Desc(lc)
				}
				ok := ctxP != "" && strings.HasPrefix(d, "call:pkg/tbtc.withCancelOnBlock(up("+ctxP+"), ")
				r.Cond(ok, "C46.signing-context", FnName(f)+"#loop-context", c.Pos(), "loop context = withCancelOnBlock(caller's ctx, loop timeout block, …); got "+abbr(d, 2))
			}
		}
		if n == 0 {
			r.Undecided("C46.signing-context", FnName(fn), "signing loop start not found")
		}
	})
	extend("C29", func(r *Run) {
		r.Rule("C29.unconditional-copies", "the converters copy every field unconditionally (a field dropped under a condition is lost in the round trip)", 2)
		for _, n := range []string{"internalTransaction.fromTransaction", "internalTransaction.toTransaction"} {
			fn := r.MustFn("C29.unconditional-copies", "pkg/bitcoin", n)
			if fn == nil {
				continue
			}
			ok := true
			cnt := 0
			for _, c := range leafCopies(fn) {
				cnt++
				// find the store's block: by position
				EachInstr(fn, func(in ssa.Instruction) {
					if st, isSt := in.(*ssa.Store); isSt && in.Pos() == c.Pos {
						for _, f := range Facts(st.Block()) {
							if !rangeFact.MatchString(f) {
								ok = false
							}
						}
					}
				})
			}
			r.Cond(ok && cnt > 0, "C29.unconditional-copies", FnName(fn), fn.Pos(), "every leaf copy is guarded by the range bound only")
		}
		// every success return of ToVarLenData has the compact-size form (the first rule looked at one)
		if fn := r.W.Fn("pkg/bitcoin", "Script.ToVarLenData"); fn != nil {
			all := true
			for _, p := range SuccessReturns(fn) {
				d := Desc(RetResults(p.Ret)[0])
				if !(strings.HasPrefix(d, "append(call:pkg/bitcoin.writeCompactSizeUint(") && strings.Contains(d, "len(P0)") && strings.HasSuffix(d, "#0, P0)")) {
					all = false
				}
			}
			r.Cond(all, "C29.var-len", FnName(fn)+"#every-return", fn.Pos(), "every successful return is writeCompactSizeUint(len) ‖ script (no hand-made prefix)")
		}
	})
	extend("C41", func(r *Run) {
		r.Rule("C41.fresh-key", "Ecdh returns the key it has just derived from its two arguments (no remembered key)", 1)
		fn := r.MustFn("C41.fresh-key", "pkg/crypto/ephemeral", "PrivateKey.Ecdh")
		if fn == nil {
			return
		}
		ok, n := true, 0
		for _, b := range fn.Blocks {
			ret, isRet := b.Instrs[len(b.Instrs)-1].(*ssa.Return)
			if !isRet {
				continue
			}
			n++
			if _, isAlloc := ret.Results[0].(*ssa.Alloc); !isAlloc {
				ok = false
			}
		}
		globals := false
		EachInstr(fn, func(in ssa.Instruction) {
			for _, op := range in.Operands(nil) {
				if _, isG := (*op).(*ssa.Global); isG {
					globals = true
				}
			}
		})
		r.Cond(ok && n == 1 && !globals, "C41.fresh-key", FnName(fn), fn.Pos(), "single return of the freshly built key; no package-level state consulted")
	})
}
