package main

import (
	"fmt"
	"go/token"
	"strings"

	"golang.org/x/tools/go/ssa"
)

// outputLiterals: every &bitcoin.TransactionOutput{…} built in fn: field → stored value.
func outputLiterals(fn *ssa.Function) []map[string]ssa.Value {
	var out []map[string]ssa.Value
	EachInstr(fn, func(in ssa.Instruction) {
		al, ok := in.(*ssa.Alloc)
		if !ok || typeName(al.Type()) != "*pkg/bitcoin.TransactionOutput" {
			return
		}
		m := map[string]ssa.Value{"@": al}
		for _, ref := range *al.Referrers() {
			if fa, ok := ref.(*ssa.FieldAddr); ok {
				for _, r2 := range *fa.Referrers() {
					if st, ok := r2.(*ssa.Store); ok && st.Addr == fa {
						m[fieldName(fa.X.Type(), fa.Field)] = st.Val
					}
				}
			}
		}
		out = append(out, m)
	})
	return out
}

// accumulatorOf: v is a loop-carried sum phi{0 | phi + x}; returns x.
func accumulatorOf(v ssa.Value) ssa.Value {
	phi, ok := v.(*ssa.Phi)
	if !ok || len(phi.Edges) != 2 {
		return nil
	}
	for i, e := range phi.Edges {
		if k, isC := constInt(e); isC && k == 0 {
			if bo, isB := phi.Edges[1-i].(*ssa.BinOp); isB && bo.Op == token.ADD && bo.X == ssa.Value(phi) {
				return bo.Y
			}
		}
	}
	return nil
}

func init() {
	const wk = `call:pkg/bitcoin.PayToWitnessPublicKeyHash(call:pkg/bitcoin.PublicKeyHash(P1))#0`
	register(&Prop{
		ID:        "C26",
		Technique: "static analysis: provenance of every input and of every output's script and value expression in the four transaction assemblers, affine/structural identities of the value expressions, who-may-call on the builder (go/ssa)",
		Explanation: "tbtc transaction assembly: (1) inputs — deposit sweep: the main UTXO (when present) and, for each deposit in order, (deposit.Utxo, deposit.Script()); redemption and moving funds: exactly the (required) main UTXO; moved funds sweep: the (required) moved funds UTXO, then the main UTXO when present; nothing else is added; " +
			"(2) outputs — deposit sweep and moved funds sweep: one output paying P2WPKH(hash of the wallet public key) the value TotalInputsValue() − fee; redemption: per request, in order, the request's own RedeemerOutputScript with (RequestedAmount − TreasuryFee) − feeShares[i] of that same request, plus — only when positive — a change output to P2WPKH(wallet key) of TotalInputsValue() − Σ redemption output values − Σ fee shares (the two sums are accumulated from exactly those per-request values); moving funds: per target wallet P2WPKH(that wallet's hash) with (total − remainder)/n, the last one additionally the remainder, total = main UTXO value − fee, remainder = total mod n; " +
			"(3) withRedemptionTotalFee gives every request (fee − fee mod n)/n and the last one additionally fee mod n, so the shares add up to the fee; (4) inputs and outputs are added to a builder only by these assemblers.",
		NotDecided: "integer overflow and negative values (a fee above the inputs); the arithmetic identity Σ shares = fee is read off the shape (n·q + r), not computed; standardness of the redeemer scripts.",
		Fn: func(r *Run) {
			r.Rule("C26.inputs", "only the intended UTXOs are spent", 5)
			r.Rule("C26.outputs", "output scripts and value expressions are the intended ones", 6)
			r.Rule("C26.fee-shares", "fee shares = (fee − r)/n each, + r on the last", 2)
			r.Rule("C26.only-door", "builder inputs/outputs added only by the assemblers", 6)

			inputsOf := func(fn *ssa.Function) (pkh, sh []ssa.CallInstruction) {
				return Sites(fn, `^pkg/bitcoin\.TransactionBuilder\.AddPublicKeyHashInput$`, false), Sites(fn, `^pkg/bitcoin\.TransactionBuilder\.AddScriptHashInput$`, false)
			}
			total := `call:pkg/bitcoin.TransactionBuilder.TotalInputsValue(call:pkg/bitcoin.NewTransactionBuilder(P0))`

			// ---- deposit sweep
			if fn := r.MustFn("C26.inputs", "pkg/tbtc", "assembleDepositSweepTransaction"); fn != nil {
				name := FnName(fn)
				pkh, sh := inputsOf(fn)
				ok := len(pkh) == 1 && Desc(pkh[0].Common().Args[1]) == "P2" && HasFact(Facts(pkh[0].Block()), `^-\(P2 == nil\)$`)
				r.Cond(ok, "C26.inputs", name+"#main-utxo", fn.Pos(), "the main UTXO is spent when present")
				ok = len(sh) == 1
				if ok {
					a := sh[0].Common().Args
					ok = re(`^P3\[.*\]\.Utxo$`).MatchString(Desc(a[1])) && re(`^call:pkg/tbtc\.Deposit\.Script\(P3\[.*\]\)#0$`).MatchString(Desc(a[2])) && HasFact(Facts(sh[0].Block()), okOf(`pkg/tbtc\.Deposit\.Script`))
				}
				r.Cond(ok, "C26.inputs", name+"#deposits", fn.Pos(), "each deposit's own UTXO with its own script")
				outs := outputLiterals(fn)
				ok = len(outs) == 1
				if ok {
					ok = Desc(outs[0]["PublicKeyScript"]) == wk && Affine(outs[0]["Value"]).String() == "-1*P4 + 1*"+total+" + 0"
				}
				r.Cond(ok, "C26.outputs", name+"#output", fn.Pos(), "single output: wallet P2WPKH, value = total inputs − fee")
			}
			// ---- moved funds sweep
			if fn := r.MustFn("C26.inputs", "pkg/tbtc", "assembleMovedFundsSweepTransaction"); fn != nil {
				name := FnName(fn)
				pkh, sh := inputsOf(fn)
				ok := len(pkh) == 2 && len(sh) == 0
				if ok {
					var moved, main bool
					for _, c := range pkh {
						switch Desc(c.Common().Args[1]) {
						case "P2":
							moved = HasFact(Facts(c.Block()), `^-\(P2 == nil\)$`)
						case "P3":
							main = HasFact(Facts(c.Block()), `^-\(P3 == nil\)$`)
						}
					}
					ok = moved && main && pkh[0].Pos() < pkh[1].Pos() && Desc(pkh[0].Common().Args[1]) == "P2"
				}
				r.Cond(ok, "C26.inputs", name+"#inputs", fn.Pos(), "moved funds UTXO first (required), then the main UTXO when present")
				outs := outputLiterals(fn)
				ok = len(outs) == 1
				if ok {
					ok = Desc(outs[0]["PublicKeyScript"]) == wk && Affine(outs[0]["Value"]).String() == "-1*P4 + 1*"+total+" + 0"
				}
				r.Cond(ok, "C26.outputs", name+"#output", fn.Pos(), "single output: wallet P2WPKH, value = total inputs − fee")
			}
			// ---- moving funds
			if fn := r.MustFn("C26.inputs", "pkg/tbtc", "assembleMovingFundsTransaction"); fn != nil {
				name := FnName(fn)
				pkh, sh := inputsOf(fn)
				ok := len(pkh) == 1 && len(sh) == 0 && Desc(pkh[0].Common().Args[1]) == "P1" && HasFact(Facts(pkh[0].Block()), `^-\(P1 == nil\)$`)
				r.Cond(ok, "C26.inputs", name+"#main-utxo", fn.Pos(), "exactly the (required) main UTXO")
				outs := outputLiterals(fn)
				ok = len(outs) == 1
				why := ""
				if ok {
					o := outs[0]
					ok = re(`^call:pkg/bitcoin\.PayToWitnessPublicKeyHash\(P2\[.*\]\)#0$`).MatchString(Desc(o["PublicKeyScript"]))
					// value: phi{single + remainder (last) | single}
					phi, isPhi := o["Value"].(*ssa.Phi)
					okV := false
					if isPhi && len(phi.Edges) == 2 {
						var single, last ssa.Value
						for _, e := range phi.Edges {
							if bo, isB := e.(*ssa.BinOp); isB && bo.Op == token.ADD {
								last = bo
							} else {
								single = e
							}
						}
						if single != nil && last != nil {
							lb := last.(*ssa.BinOp)
							sb, isS := single.(*ssa.BinOp)
							rb, isR := lb.Y.(*ssa.BinOp)
							if lb.X == single && isS && isR && sb.Op == token.QUO && rb.Op == token.REM {
								// single = (total − remainder)/n ; remainder = total % n ; total = P1.Value − P3
								num, isN := sb.X.(*ssa.BinOp)
								if isN && num.Op == token.SUB && num.Y == ssa.Value(rb) && num.X == rb.X && sb.Y == rb.Y {
									tot := Affine(rb.X)
									n := Desc(stripConv(rb.Y))
									okV = tot.C == 0 && tot.T["P1.Value"] == 1 && tot.T["P3"] == -1 && len(tot.T) == 2 && n == "len(P2)"
								}
							}
							// the remainder goes to the last target wallet only
							for i, e := range phi.Edges {
								if e == last && !HasFact(EdgeFacts(phi.Block().Preds[i], phi.Block()), `^\+\(.* == \(len\(P2\) - const:1\)\)$|^\+\(\(len\(P2\) - const:1\) == .*\)$`) {
									okV = false
									why = "remainder not tied to the last target wallet"
								}
							}
						}
					}
					ok = ok && okV
				}
				r.Cond(ok, "C26.outputs", name+"#outputs", fn.Pos(), "per target wallet: its P2WPKH, (total − r)/n, + r on the last; total = main UTXO value − fee, r = total mod n. "+why)
			}
			// ---- redemption
			if fn := r.MustFn("C26.inputs", "pkg/tbtc", "assembleRedemptionTransaction"); fn != nil {
				name := FnName(fn)
				pkh, sh := inputsOf(fn)
				ok := len(pkh) == 1 && len(sh) == 0 && Desc(pkh[0].Common().Args[1]) == "P2" && HasFact(Facts(pkh[0].Block()), `^-\(P2 == nil\)$`)
				r.Cond(ok, "C26.inputs", name+"#main-utxo", fn.Pos(), "exactly the (required) main UTXO")
				outs := outputLiterals(fn)
				var red, chg map[string]ssa.Value
				for _, o := range outs {
					if Desc(o["PublicKeyScript"]) == wk {
						chg = o
					} else {
						red = o
					}
				}
				if len(outs) != 2 || red == nil || chg == nil {
					r.Undecided("C26.outputs", name, "expected one redemption output literal and one change output literal")
				} else {
					// redemption output
					okScript := re(`^P3\[.*\]\.RedeemerOutputScript$`).MatchString(Desc(red["PublicKeyScript"]))
					vb, isB := red["Value"].(*ssa.BinOp)
					okVal := false
					var feeShare ssa.Value
					if isB && vb.Op == token.SUB {
						feeShare = vb.Y
						amt := Desc(vb.X)
						_, i1 := indexOfElem(red["PublicKeyScript"])
						_, i2 := indexOfElem(vb.Y)
						okVal = re(`^conv:int64\(\(P3\[.*\]\.RequestedAmount - P3\[.*\]\.TreasuryFee\)\)$`).MatchString(amt) && strings.HasPrefix(Desc(vb.Y), "dyn:P4(P3)[") && i1 != nil && i1 == i2
					}
					r.Cond(okScript && okVal, "C26.outputs", name+"#redemption-output", red["@"].Pos(), "request i: its own redeemer script, value = (RequestedAmount − TreasuryFee) − feeShares[i] of the same request")
					// change output
					okChange := false
					if cb, isC := chg["Value"].(*ssa.BinOp); isC && cb.Op == token.SUB {
						if inner, isI := cb.X.(*ssa.BinOp); isI && inner.Op == token.SUB && Desc(inner.X) == total {
							sumOut := accumulatorOf(inner.Y)
							sumFee := accumulatorOf(cb.Y)
							okChange = sumOut != nil && sumFee != nil && sumOut == red["Value"] && feeShare != nil && Desc(sumFee) == Desc(feeShare)
						}
					}
					al := chg["@"].(*ssa.Alloc)
					okPos := HasFact(Facts(al.Block()), `^\+\(const:0 < .*\)$`)
					r.Cond(okChange && okPos, "C26.outputs", name+"#change-output", al.Pos(), "change (only when positive) = total inputs − Σ redemption output values − Σ fee shares, to the wallet's P2WPKH")
					// every output added comes from the collected list
					for _, c := range Sites(fn, `^pkg/bitcoin\.TransactionBuilder\.AddOutput$`, false) {
						r.Cond(strings.Contains(Desc(c.Common().Args[1]), "append("), "C26.outputs", name+"#added-outputs", c.Pos(), "the outputs added are the collected redemption outputs and the change output")
					}
				}
			}
			// ---- fee shares
			if fn := r.MustFn("C26.fee-shares", "pkg/tbtc", "withRedemptionTotalFee$1"); fn != nil {
				name := FnName(fn)
				ok := false
				EachInstr(fn, func(in ssa.Instruction) {
					st, isSt := in.(*ssa.Store)
					if !isSt {
						return
					}
					ia, isIA := st.Addr.(*ssa.IndexAddr)
					if !isIA || isLocalTemp(ia.X) {
						return
					}
					phi, isPhi := st.Val.(*ssa.Phi)
					if !isPhi || len(phi.Edges) != 2 {
						return
					}
					var per, last ssa.Value
					for _, e := range phi.Edges {
						if bo, isB := e.(*ssa.BinOp); isB && bo.Op == token.ADD {
							last = bo
						} else {
							per = e
						}
					}
					if per == nil || last == nil {
						return
					}
					lb := last.(*ssa.BinOp)
					pb, isP := per.(*ssa.BinOp)
					rb, isR := lb.Y.(*ssa.BinOp)
					if lb.X != per || !isP || !isR || pb.Op != token.QUO || rb.Op != token.REM {
						return
					}
					num, isN := pb.X.(*ssa.BinOp)
					if !isN || num.Op != token.SUB || num.Y != ssa.Value(rb) || Desc(num.X) != Desc(rb.X) || Desc(pb.Y) != Desc(rb.Y) {
						return
					}
					if !strings.HasPrefix(Desc(rb.X), "up(P0)") && Desc(rb.X) != "up(P0)" {
						return
					}
					if Desc(stripConv(rb.Y)) != "len(P0)" {
						return
					}
					for i, e := range phi.Edges {
						if e == last && HasFact(EdgeFacts(phi.Block().Preds[i], phi.Block()), `^\+\(.* == \(len\(P0\) - const:1\)\)$|^\+\(\(len\(P0\) - const:1\) == .*\)$`) {
							ok = true
						}
					}
				})
				r.Cond(ok, "C26.fee-shares", name+"#shares", fn.Pos(), "share i = (fee − fee mod n)/n, the last one + fee mod n (so the shares sum to the fee)")
				for _, ret := range ReturnsMatching(fn, 0, `.`) {
					mk, isMk := ret.Results[0].(*ssa.MakeSlice)
					r.Cond(isMk && Desc(stripConv(mk.Len)) == "len(P0)", "C26.fee-shares", name+"#length", ret.Pos(), "one share per request")
				}
			}
			// ---- only door
			allowed := map[string]bool{"pkg/tbtc.assembleDepositSweepTransaction": true, "pkg/tbtc.assembleRedemptionTransaction": true, "pkg/tbtc.assembleMovingFundsTransaction": true, "pkg/tbtc.assembleMovedFundsSweepTransaction": true}
			n := 0
			for _, fn := range r.W.AllFuncs {
				for _, c := range CallsMatching(fn, `^pkg/bitcoin\.TransactionBuilder\.(AddOutput|AddPublicKeyHashInput|AddScriptHashInput)$`) {
					if strings.Contains(fnPkgRel(fn), "internal/test") {
						continue
					}
					n++
					r.Cond(allowed[FnName(fn)], "C26.only-door", FnName(fn)+"#"+shortCallee(c), c.Pos(), "builder inputs and outputs are added only by the four assemblers")
				}
			}
			if n < 6 {
				r.Undecided("C26.only-door", "builder", fmt.Sprintf("expected at least 6 builder calls, found %d", n))
			}
		},
	})
	witness(Witness{Prop: "C26", Name: "sweep-pays-legacy-script", File: "pkg/tbtc/deposit_sweep.go",
		Old: "\toutputScript, err := bitcoin.PayToWitnessPublicKeyHash(walletPublicKeyHash)\n\tif err != nil {\n\t\treturn nil, fmt.Errorf(\"cannot compute output script: [%v]\", err)\n\t}\n\n\toutputValue := builder.TotalInputsValue() - fee",
		New: "\toutputScript, err := bitcoin.PayToPublicKeyHash(walletPublicKeyHash)\n\tif err != nil {\n\t\treturn nil, fmt.Errorf(\"cannot compute output script: [%v]\", err)\n\t}\n\n\toutputValue := builder.TotalInputsValue() - fee", Rule: "C26.outputs"})
	witness(Witness{Prop: "C26", Name: "redemption-ignores-treasury-fee", File: "pkg/tbtc/redemption.go",
		Old: "\t\tredeemableAmount := int64(request.RequestedAmount - request.TreasuryFee)", New: "\t\tredeemableAmount := int64(request.RequestedAmount)", Rule: "C26.outputs"})
	witness(Witness{Prop: "C26", Name: "remainder-on-first-share", File: "pkg/tbtc/redemption.go",
		Old: "\t\t\tif i == len(requests)-1 {\n\t\t\t\tfeeShare += remainder", New: "\t\t\tif i == 0 || i == len(requests)-1 {\n\t\t\t\tfeeShare += remainder", Rule: "C26.fee-shares"})
}
