package main

import (
	"fmt"
	"strings"

	"golang.org/x/tools/go/ssa"
)

// itemClass maps a pushed stack/script item to what it stands for.
func itemClass(v ssa.Value) string {
	d := Desc(v)
	switch {
	case strings.Contains(d, "signaturePlaceholder"), strings.Contains(d, "btcec.Signature.Serialize("):
		return "sig"
	case strings.Contains(d, "publicKeyPlaceholder"), strings.Contains(d, "SerializeCompressed("):
		return "pub"
	case strings.HasPrefix(d, "make:[]byte"), strings.Contains(d, ".Witness[const:0]"), strings.HasSuffix(d, ".SignatureScript"):
		return "redeem"
	}
	return "?" + abbr(d, 1)
}

// witnessLiterals: the item sequences of wire.TxWitness composite literals in fn.
func witnessLiterals(fn *ssa.Function) [][]string {
	var out [][]string
	EachInstr(fn, func(in ssa.Instruction) {
		al, ok := in.(*ssa.Alloc)
		if !ok || al.Comment != "slicelit" || !strings.Contains(al.Type().String(), "[]byte") && !strings.Contains(al.Type().String(), "[]uint8") {
			return
		}
		items := map[int64]string{}
		n := int64(0)
		for _, ref := range *al.Referrers() {
			ia, ok := ref.(*ssa.IndexAddr)
			if !ok {
				continue
			}
			k, isC := constInt(ia.Index)
			if !isC {
				continue
			}
			for _, r2 := range *ia.Referrers() {
				if st, ok := r2.(*ssa.Store); ok {
					items[k] = itemClass(st.Val)
					if k+1 > n {
						n = k + 1
					}
				}
			}
		}
		if n == 0 {
			return
		}
		seq := make([]string, n)
		for k := int64(0); k < n; k++ {
			seq[k] = items[k]
		}
		out = append(out, seq)
	})
	return out
}

// scriptChains: AddData argument sequences of every ScriptBuilder.Script() call in fn.
func scriptChains(fn *ssa.Function) [][]string {
	var out [][]string
	for _, c := range CallsMatching(fn, `txscript\.ScriptBuilder\.Script$`) {
		var seq []string
		v := c.Common().Args[0]
		for i := 0; i < 8; i++ {
			call, ok := v.(*ssa.Call)
			if !ok {
				// a builder variable that received an optional AddData: phi / same object
				break
			}
			if strings.HasSuffix(CalleeName(call), "ScriptBuilder.AddData") {
				seq = append([]string{itemClass(call.Call.Args[1])}, seq...)
				v = call.Call.Args[0]
				continue
			}
			break
		}
		out = append(out, seq)
	}
	return out
}

func seqEq(a, b []string) bool {
	return strings.Join(a, ",") == strings.Join(b, ",")
}

func init() {
	const bp = "pkg/bitcoin"
	register(&Prop{
		ID:        "C30",
		Technique: "static analysis: constant evaluation of the size placeholders against the maximal real encodings, sibling shape agreement between the estimator's and the builder's pushed item sequences per input class (go/ssa)",
		Explanation: "bitcoin.TransactionSizeEstimator vs. TransactionBuilder.AddSignatures: the estimator's signature placeholder is at least 72 bytes — the maximal size of what the builder pushes, a canonical (low-S) DER signature of at most 71 bytes from btcec's Serialize plus exactly one appended sighash-type byte — and its public key placeholder at least 33 bytes, the size of the compressed key the builder pushes; " +
			"for every input class the estimator pushes the same sequence of items as the builder: witness stack [signature, key] for key-hash inputs and [signature, key, redeem script] for script-hash inputs; signature script AddData(signature).AddData(key)[.AddData(redeem script)] for the legacy forms, the redeem script placeholder having the length given by the caller; outputs are built with the same PayTo* constructors as real outputs; the virtual size is btcd's GetTxVirtualSize of that scratch transaction.",
		NotDecided: "the size arithmetic inside btcd (weight, varints); that callers describe the shape they really build (e.g. the redeem script length passed in).",
		Fn: func(r *Run) {
			r.Rule("C30.placeholders", "signature placeholder ≥ 71+1, key placeholder ≥ 33; builder appends exactly one sighash byte", 3)
			r.Rule("C30.shape", "estimator and builder push the same item sequence per input class", 4)
			r.Rule("C30.outputs", "placeholder outputs built by the real script constructors; vsize from btcd", 5)

			// placeholders (package initialiser)
			sizes := map[string]int64{}
			for _, fn := range r.W.AllFuncs {
				if fnPkgRel(fn) != bp || !strings.HasPrefix(fn.Name(), "init") {
					continue
				}
				EachInstr(fn, func(in ssa.Instruction) {
					st, ok := in.(*ssa.Store)
					if !ok {
						return
					}
					g, ok := st.Addr.(*ssa.Global)
					if !ok {
						return
					}
					switch x := st.Val.(type) {
					case *ssa.MakeSlice:
						if n, isC := constInt(x.Len); isC {
							sizes[g.Name()] = n
						}
					case *ssa.Slice:
						// make([]byte, N) with constant N lowers to new [N]byte + slice
						if n, why := knownLen(x); n >= 0 {
							_ = why
							sizes[g.Name()] = n
						}
					}
				})
			}
			r.Cond(sizes["signaturePlaceholder"] >= 72, "C30.placeholders", "signaturePlaceholder", 0, fmt.Sprintf("%d bytes ≥ 71 (maximal low-S DER signature) + 1 (sighash type)", sizes["signaturePlaceholder"]))
			r.Cond(sizes["publicKeyPlaceholder"] >= 33, "C30.placeholders", "publicKeyPlaceholder", 0, fmt.Sprintf("%d bytes ≥ 33 (compressed public key)", sizes["publicKeyPlaceholder"]))

			as := r.MustFn("C30.shape", bp, "TransactionBuilder.AddSignatures")
			pk := r.MustFn("C30.shape", bp, "TransactionSizeEstimator.AddPublicKeyHashInputs")
			sh := r.MustFn("C30.shape", bp, "TransactionSizeEstimator.AddScriptHashInputs")
			if as == nil || pk == nil || sh == nil {
				return
			}
			// the builder's signature bytes: Serialize() followed by one byte
			okSig := false
			for _, ap := range appendsIn(as) {
				if strings.Contains(Desc(ap.Call.Args[0]), "btcec.Signature.Serialize(") {
					if sl, ok := ap.Call.Args[1].(*ssa.Slice); ok {
						if n, _ := knownLen(sl); n == 1 {
							okSig = true
						}
					}
				}
			}
			r.Cond(okSig, "C30.placeholders", FnName(as)+"#signature-bytes", as.Pos(), "pushed signature = btcec Serialize() (canonical low-S DER, ≤ 71 bytes) + exactly one sighash byte")

			bw, bs := witnessLiterals(as), scriptChains(as)
			if len(bw) != 1 || len(bs) != 1 {
				r.Undecided("C30.shape", FnName(as), fmt.Sprintf("expected one witness literal and one script chain in the builder, found %d and %d", len(bw), len(bs)))
				return
			}
			// the optional third item of the builder
			optW, optS := false, false
			for _, ap := range appendsIn(as) {
				if e := appendedElem(ap); e != nil && itemClass(e) == "redeem" && HasFact(Facts(ap.Block()), `^\+\(const:1 == len\(.*\.Witness\)\)$`) {
					optW = true
				}
			}
			for _, c := range CallsMatching(as, `txscript\.ScriptBuilder\.AddData$`) {
				if itemClass(c.Common().Args[1]) == "redeem" && HasFact(Facts(c.Block()), `^\+\(const:0 < len\(.*\.SignatureScript\)\)$`) {
					optS = true
				}
			}
			type cls struct {
				name      string
				est       [][]string
				base      []string
				withExtra bool
			}
			for _, c := range []cls{
				{"key-hash/witness", witnessLiterals(pk), bw[0], false},
				{"key-hash/legacy", scriptChains(pk), bs[0], false},
				{"script-hash/witness", witnessLiterals(sh), bw[0], true},
				{"script-hash/legacy", scriptChains(sh), bs[0], true},
			} {
				want := append([]string{}, c.base...)
				if c.withExtra {
					want = append(want, "redeem")
				}
				ok := len(c.est) == 1 && seqEq(c.est[0], want)
				if c.withExtra && strings.HasSuffix(c.name, "witness") {
					ok = ok && optW
				}
				if c.withExtra && strings.HasSuffix(c.name, "legacy") {
					ok = ok && optS
				}
				got := "none"
				if len(c.est) == 1 {
					got = strings.Join(c.est[0], ",")
				}
				r.Cond(ok, "C30.shape", "estimator/"+c.name, as.Pos(), "estimator pushes ["+got+"], builder pushes ["+strings.Join(want, ",")+"]")
			}
			// the redeem placeholder has the caller's length
			okLen := false
			EachInstr(sh, func(in ssa.Instruction) {
				if m, ok := in.(*ssa.MakeSlice); ok && Desc(stripConv(m.Len)) == "P2" {
					okLen = true
				}
			})
			r.Cond(okLen, "C30.outputs", FnName(sh)+"#redeem-length", sh.Pos(), "redeem script placeholder has the length given by the caller")
			for name, want := range map[string][2]string{
				"TransactionSizeEstimator.AddPublicKeyHashOutputs": {"pkg/bitcoin.PayToWitnessPublicKeyHash", "pkg/bitcoin.PayToPublicKeyHash"},
				"TransactionSizeEstimator.AddScriptHashOutputs":    {"pkg/bitcoin.PayToWitnessScriptHash", "pkg/bitcoin.PayToScriptHash"},
			} {
				if fn := r.MustFn("C30.outputs", bp, name); fn != nil {
					w := Sites(fn, `^`+q(want[0])+`$`, false)
					l := Sites(fn, `^`+q(want[1])+`$`, false)
					ok := len(w) == 1 && len(l) == 1 && HasFact(Facts(w[0].Block()), `^\+P2$`) && HasFact(Facts(l[0].Block()), `^-P2$`)
					r.Cond(ok, "C30.outputs", FnName(fn), fn.Pos(), "witness outputs from "+want[0]+", legacy outputs from "+want[1])
				}
			}
			if fn := r.MustFn("C30.outputs", bp, "TransactionSizeEstimator.VirtualSize"); fn != nil {
				for _, p := range SuccessReturns(fn) {
					d := Desc(RetResults(p.Ret)[0])
					r.Cond(strings.HasPrefix(d, "call:github.com/btcsuite/btcd/mempool.GetTxVirtualSize(") && strings.Contains(d, "P0.internal.MsgTx"), "C30.outputs", FnName(fn), p.Ret.Pos(), "virtual size computed by btcd over the scratch transaction")
					r.Check("C30.outputs", FnName(fn)+"#no-error", p.Ret.Pos(), p.Facts, `^\+\(P0\.err == nil\)$`)
				}
			}
		},
	})
	witness(Witness{Prop: "C30", Name: "signature-placeholder-71", File: "pkg/bitcoin/estimator.go",
		Old: "var signaturePlaceholder = make([]byte, 72)", New: "var signaturePlaceholder = make([]byte, 71)", Rule: "C30.placeholders"})
	witness(Witness{Prop: "C30", Name: "estimator-drops-key-for-legacy-script-hash", File: "pkg/bitcoin/estimator.go",
		Old: "\t\t\tAddData(signaturePlaceholder).\n\t\t\tAddData(publicKeyPlaceholder).\n\t\t\tAddData(redeemScriptPlaceholder).", New: "\t\t\tAddData(signaturePlaceholder).\n\t\t\tAddData(redeemScriptPlaceholder).", Rule: "C30.shape"})
	witness(Witness{Prop: "C30", Name: "builder-pushes-uncompressed-key", File: "pkg/bitcoin/transaction_builder.go",
		Old: "\t\t).SerializeCompressed()", New: "\t\t).SerializeUncompressed()", Rule: "C30.shape"})
}
