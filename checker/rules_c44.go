package main

import (
	"go/types"
	"strings"

	"golang.org/x/tools/go/ssa"
)

// arrayLiteralConsts returns the constants stored into the composite literal
// that a table-lookup method indexes (e.g. []T{a,b,c}[n]).
func arrayLiteralConsts(fn *ssa.Function) []string {
	out := map[int64]string{}
	max := int64(-1)
	EachInstr(fn, func(in ssa.Instruction) {
		st, ok := in.(*ssa.Store)
		if !ok {
			return
		}
		ia, ok := st.Addr.(*ssa.IndexAddr)
		if !ok {
			return
		}
		idx, ok := ia.Index.(*ssa.Const)
		c, ok2 := st.Val.(*ssa.Const)
		if !ok || !ok2 || c.Value == nil {
			return
		}
		i := idx.Int64()
		out[i] = c.Value.ExactString()
		if i > max {
			max = i
		}
	})
	res := make([]string, max+1)
	for i := range res {
		res[i] = out[int64(i)]
	}
	return res
}

func namedConst(w *World, pkgPath, name string) string {
	var found string
	for _, p := range w.Pkgs {
		for path, imp := range p.Imports {
			if path == pkgPath && imp.Types != nil {
				if c, ok := imp.Types.Scope().Lookup(name).(*types.Const); ok {
					found = c.Val().ExactString()
				}
			}
		}
		if p.PkgPath == pkgPath && p.Types != nil {
			if c, ok := p.Types.Scope().Lookup(name).(*types.Const); ok {
				found = c.Val().ExactString()
			}
		}
	}
	return found
}

func init() {
	register(&Prop{
		ID:        "C44",
		Technique: "static analysis: dominator guard facts on every configuration store, constant tables compared by resolved constant values, call ordering (go/ssa)",
		Explanation: "Every store into the configuration made by resolvePeers, resolveElectrum and resolveContractsAddresses is dominated by the 'unset' test of that same field (len(...)==0 / ErrAddressNotConfigured for the same contract name / nil map) and those functions store into no other configuration field; " +
			"defaults are read for the selected network value; resolveNetworks assigns both network fields from one network.Type value, and the Ethereum()/Bitcoin()/String() tables are row-aligned " +
			"(unknown, mainnet, testnet→sepolia/testnet, developer→developer/regtest, compared by the resolved values of the named constants); in ReadConfig the resolvers run after a successful unmarshalConfig.",
		NotDecided: "viper's precedence between file and flags (library behaviour); the content of the embedded default files.",
		Fn: func(r *Run) {
			r.Rule("C44.guarded-defaults", "config stores in the resolvers are dominated by the unset test of the same field; no other config field is written", 4)
			r.Rule("C44.same-network", "both networks derive from one network.Type value; tables row-aligned", 5)
			r.Rule("C44.order", "resolvers run after successful unmarshalConfig", 3)
			// --- peers
			if fn := r.MustFn("C44.guarded-defaults", "config", "Config.resolvePeers"); fn != nil {
				checkConfigStores(r, fn, map[string][]string{
					"&P0.LibP2P.Peers": {`^\+\(len\(P0\.LibP2P\.Peers\) <= const:0\)$`, okOf(`config\.readPeers`)},
				}, map[string]string{"&P0.LibP2P.Peers": `^call:config\.readPeers\(P1\)#0$`})
			}
			if fn := r.MustFn("C44.guarded-defaults", "config", "Config.resolveElectrum"); fn != nil {
				checkConfigStores(r, fn, map[string][]string{
					"&P0.Bitcoin.Electrum.URL": {`^\+\(len\(P0\.Bitcoin\.Electrum\.URL\) <= const:0\)$`, okOf(`config\.readElectrumUrls`)},
				}, map[string]string{"&P0.Bitcoin.Electrum.URL": `^call:config\.readElectrumUrls\(P0\.Bitcoin\.Network\)#0\[.*\]$`})
			}
			if fn := r.MustFn("C44.guarded-defaults", "config", "Config.resolveContractsAddresses"); fn != nil {
				checkConfigStores(r, fn, map[string][]string{
					"&P0.Ethereum.ContractAddresses": {`^\+\(P0\.Ethereum\.ContractAddresses == nil\)$`},
				}, map[string]string{"&P0.Ethereum.ContractAddresses": `^make:`})
				cl := r.W.Fn("config", "Config.resolveContractsAddresses$1")
				if cl == nil {
					r.Undecided("C44.guarded-defaults", "config.Config.resolveContractsAddresses$1", "closure not found")
				} else {
					const ca = `github\.com/keep-network/keep-common/pkg/chain/ethereum\.Config\.`
					sets := Sites(cl, `^`+ca+`SetContractAddress$`, false)
					if len(sets) != 1 {
						r.Undecided("C44.guarded-defaults", FnName(cl)+"#SetContractAddress", "expected one SetContractAddress call")
					}
					for _, c := range sets {
						r.Check("C44.guarded-defaults", FnName(cl)+"#SetContractAddress", c.Pos(), ImpliedFacts(c.Block(), 0),
							`^\+call:errors\.Is\(call:`+ca+`ContractAddress\(.*, P0\)#1, \*?global:github\.com/keep-network/keep-common/pkg/chain/ethereum\.ErrAddressNotConfigured\)$`)
						a := c.Common().Args
						r.Cond(len(a) == 3 && Desc(a[1]) == "P0" && Desc(a[2]) == "P1", "C44.guarded-defaults", FnName(cl)+"#SetContractAddress/args", c.Pos(),
							"default must be set for the same contract name that was looked up")
					}
					// every call of the closure passes (XName constant, XAddress of generated bindings)
					n := 0
					for _, c := range Sites(fn, `^config\.Config\.resolveContractsAddresses\$1$`, false) {
						n++
						_ = c
					}
					r.Cond(n >= 8, "C44.guarded-defaults", FnName(fn)+"#contracts", fn.Pos(), "eight contracts resolved through the guarded closure")
				}
			}
			// --- networks
			if fn := r.MustFn("C44.same-network", "config", "Config.resolveNetworks"); fn != nil {
				var eth, btc string
				for _, f := range WithClosures(fn) {
					EachInstr(f, func(in ssa.Instruction) {
						st, ok := in.(*ssa.Store)
						if !ok {
							return
						}
						switch Desc(st.Addr) {
						case "&P0.Ethereum.Network":
							eth = Desc(st.Val)
						case "&P0.Bitcoin.Network":
							btc = Desc(st.Val)
						}
					})
				}
				me := re(`^call:config/network\.Type\.Ethereum\((.*)\)$`).FindStringSubmatch(eth)
				mb := re(`^call:config/network\.Type\.Bitcoin\((.*)\)$`).FindStringSubmatch(btc)
				r.Cond(me != nil && mb != nil && me[1] == mb[1], "C44.same-network", FnName(fn)+"#assign", fn.Pos(),
					"Ethereum.Network and Bitcoin.Network must be Type.Ethereum(x) / Type.Bitcoin(x) of the same x; got "+abbr(eth, 1)+" / "+abbr(btc, 1))
				// the returned network type is that same value
				if me != nil {
					for _, b := range fn.Blocks {
						if ret, ok := b.Instrs[len(b.Instrs)-1].(*ssa.Return); ok {
							r.Cond(Desc(ret.Results[0]) == me[1], "C44.same-network", FnName(fn)+"#return", ret.Pos(), "returned client network must be the value the networks were derived from")
						}
					}
				}
			}
			const ethPkg = "github.com/keep-network/keep-common/pkg/chain/ethereum"
			const btcPkg = modPath + "/pkg/bitcoin"
			tables := []struct {
				method string
				pkg    string
				names  []string
			}{
				{"Type.Ethereum", ethPkg, []string{"Unknown", "Mainnet", "Sepolia", "Developer"}},
				{"Type.Bitcoin", btcPkg, []string{"Unknown", "Mainnet", "Testnet", "Regtest"}},
			}
			for _, t := range tables {
				fn := r.MustFn("C44.same-network", "config/network", t.method)
				if fn == nil {
					continue
				}
				got := arrayLiteralConsts(fn)
				var want []string
				for _, n := range t.names {
					want = append(want, namedConst(r.W, t.pkg, n))
				}
				r.Cond(strings.Join(got, ",") == strings.Join(want, ",") && !strings.Contains(strings.Join(want, ","), ",,"), "C44.same-network", FnName(fn)+"#table", fn.Pos(),
					"table must be ["+strings.Join(t.names, ", ")+"] = ["+strings.Join(want, ",")+"]; got ["+strings.Join(got, ",")+"]")
			}
			if fn := r.MustFn("C44.same-network", "config/network", "Type.String"); fn != nil {
				got := strings.Join(arrayLiteralConsts(fn), ",")
				r.Cond(got == `"unknown","mainnet","testnet","developer"`, "C44.same-network", FnName(fn)+"#table", fn.Pos(), "flag names table; got "+got)
			}
			for i, n := range []string{"Unknown", "Mainnet", "Testnet", "Developer"} {
				v := namedConst(r.W, modPath+"/config/network", n)
				r.Cond(v == string(rune('0'+i)), "C44.same-network", "config/network."+n, 0, "network.Type enumeration order")
			}
			// --- order in ReadConfig
			if fn := r.MustFn("C44.order", "config", "Config.ReadConfig"); fn != nil {
				for _, name := range []string{"resolveContractsAddresses", "resolvePeers", "resolveElectrum"} {
					r.CheckCalls("C44.order", fn, `^config\.Config\.`+name+`$`, 1, okOf(`config\.unmarshalConfig`))
				}
				for _, c := range Sites(fn, `^config\.Config\.resolvePeers$`, false) {
					d := Desc(c.Common().Args[1])
					r.Cond(re(`^phi\{call:config\.Config\.resolveNetworks\(P0, P2\)#0 \| const:1\}$`).MatchString(d) || d == "call:config.Config.resolveNetworks(P0, P2)#0",
						"C44.order", FnName(fn)+"#resolvePeers/network", c.Pos(), "peers resolved for the selected client network (mainnet when no flags); got "+d)
				}
			}
		},
	})
}

// checkConfigStores: every store in fn whose address is rooted at the config
// receiver (&P0.…) must be one of the listed fields, dominated by the listed
// facts, storing a value matching the listed pattern.
func checkConfigStores(r *Run, fn *ssa.Function, need map[string][]string, val map[string]string) {
	seen := map[string]bool{}
	for _, f := range WithClosures(fn) {
		EachInstr(f, func(in ssa.Instruction) {
			st, ok := in.(*ssa.Store)
			if !ok {
				return
			}
			addr := Desc(st.Addr)
			if !strings.HasPrefix(addr, "&P0.") && !strings.HasPrefix(addr, "&up(P0).") {
				return
			}
			nd, listed := need[addr]
			if !listed {
				r.Fail("C44.guarded-defaults", FnName(f)+"#store:"+addr, st.Pos(), "resolver writes a configuration field it is not meant to default", nil, nil)
				return
			}
			seen[addr] = true
			r.Check("C44.guarded-defaults", FnName(f)+"#store:"+addr, st.Pos(), ImpliedFacts(st.Block(), 0), nd...)
			r.Cond(re(val[addr]).MatchString(Desc(st.Val)), "C44.guarded-defaults", FnName(f)+"#value:"+addr, st.Pos(), "stored default must match "+val[addr]+"; got "+abbr(Desc(st.Val), 2))
		})
	}
	for a := range need {
		if !seen[a] {
			r.Undecided("C44.guarded-defaults", FnName(fn)+"#store:"+a, "expected store not found")
		}
	}
}
