package main

import "golang.org/x/tools/go/ssa"

func init() {
	register(&Prop{
		ID:        "C06",
		Technique: "static analysis: must-hold lockset over every access of the request-tracking fields, dominator guard facts on their stores, closure summary of the update predicate (go/ssa)",
		Explanation: "Deduplicator.currentRequestStartBlock / currentRequestPreviousEntry: every read and write in the module happens with the same Deduplicator's relayEntryMutex held (closure accesses are checked at the closure's call sites); NotifyRelayEntryStarted takes the lock once and releases it only by the deferred unlock, so the deciding reads and the recording writes are one critical section; " +
			"the two fields are written only there, together, with the notified values, under shouldUpdate()=true ∧ err=nil; shouldUpdate returns true only when nothing was processed yet (start block 0) or the new start block is strictly greater, and — when the previous entry is reused — only after both chain queries succeeded and match the notification. " +
			"In beacon.go the signing call GenerateRelayEntry is dominated by NotifyRelayEntryStarted returning (true, nil) for that request.",
		NotDecided: "that 'a genuinely new request is always processed' (liveness direction) beyond the shape of shouldUpdate; chain reorganisations that reuse a start block.",
		Fn: func(r *Run) {
			r.Rule("C06.atomic", "request-tracking fields only under relayEntryMutex; one critical section", 6)
			r.Rule("C06.monotone", "fields written only under shouldUpdate()=true,nil; true ⇒ first request ∨ strictly newer (chain-confirmed when the previous entry repeats)", 4)
			r.Rule("C06.gate", "GenerateRelayEntry ⇐ NotifyRelayEntryStarted = true, nil", 1)
			n := r.FieldUnderLock("C06.atomic", "pkg/beacon/event", "Deduplicator", "currentRequestStartBlock", "relayEntryMutex", nil)
			n += r.FieldUnderLock("C06.atomic", "pkg/beacon/event", "Deduplicator", "currentRequestPreviousEntry", "relayEntryMutex", nil)
			fn := r.MustFn("C06.atomic", "pkg/beacon/event", "Deduplicator.NotifyRelayEntryStarted")
			if fn == nil {
				return
			}
			locks := Sites(fn, `^sync\.Mutex\.Lock$`, false)
			unlocks := 0
			for _, c := range Sites(fn, `^sync\.Mutex\.Unlock$`, true) {
				if _, isDefer := c.(*ssa.Defer); !isDefer {
					unlocks++
				}
			}
			r.Cond(len(locks) == 1 && unlocks == 0, "C06.atomic", FnName(fn)+"#single-critical-section", fn.Pos(), "lock taken once and released only by the deferred unlock")
			// stores
			var stores []*ssa.Store
			for _, f := range r.W.AllFuncs {
				EachInstr(f, func(in ssa.Instruction) {
					if st, ok := in.(*ssa.Store); ok && re(`\.currentRequest(StartBlock|PreviousEntry)$`).MatchString(Desc(st.Addr)) && fnPkgRel(f) == "pkg/beacon/event" {
						stores = append(stores, st)
					}
				})
			}
			for _, st := range stores {
				if st.Parent() != fn {
					r.Fail("C06.monotone", FnName(st.Parent())+"#store", st.Pos(), "request-tracking field written outside NotifyRelayEntryStarted", nil, nil)
					continue
				}
				want := "P1"
				if Desc(st.Addr) == "&P0.currentRequestPreviousEntry" {
					want = "P2"
				}
				r.Cond(Desc(st.Val) == want, "C06.monotone", FnName(fn)+"#value:"+Desc(st.Addr), st.Pos(), "must record the notified value "+want+"; got "+Desc(st.Val))
				r.Check("C06.monotone", FnName(fn)+"#store:"+Desc(st.Addr), st.Pos(), Facts(st.Block()),
					`^\+call:pkg/beacon/event\.Deduplicator\.NotifyRelayEntryStarted\$1\(\)#0$`,
					`^\+\(call:pkg/beacon/event\.Deduplicator\.NotifyRelayEntryStarted\$1\(\)#1 == nil\)$`)
			}
			if len(stores) == 2 {
				r.Cond(stores[0].Block() == stores[1].Block(), "C06.monotone", FnName(fn)+"#together", stores[0].Pos(), "start block and previous entry must be recorded together")
			} else {
				r.Undecided("C06.monotone", FnName(fn)+"#stores", "expected exactly two stores")
			}
			if cl := r.W.Fn("pkg/beacon/event", "Deduplicator.NotifyRelayEntryStarted$1"); cl != nil {
				const cur = `up\(P0\)\.currentRequestStartBlock`
				for _, p := range ReturnPaths(cl, 0, func(v ssa.Value) bool { cb, isc := constBool(v); return !isc || cb }) {
					first := HasFact(p.Facts, `^\+\((?:`+cur+` == const:0|const:0 == `+cur+`)\)$`)
					newer := HasFact(p.Facts, `^\+\(`+cur+` < up\(P1\)\)$`)
					if !first && !newer {
						r.Fail("C06.monotone", FnName(cl)+"#true", p.Ret.Pos(), "update allowed although the request is neither the first nor strictly newer", nil, p.Facts)
						continue
					}
					if first {
						r.Ok("C06.monotone", FnName(cl)+"#true/first", p.Ret.Pos(), "")
						continue
					}
					samePrev := HasFact(p.Facts, `^\+\((?:up\(P2\) == up\(P0\)\.currentRequestPreviousEntry|up\(P0\)\.currentRequestPreviousEntry == up\(P2\))\)$`)
					diffPrev := HasFact(p.Facts, `^-\((?:up\(P2\) == up\(P0\)\.currentRequestPreviousEntry|up\(P0\)\.currentRequestPreviousEntry == up\(P2\))\)$`)
					switch {
					case diffPrev:
						r.Ok("C06.monotone", FnName(cl)+"#true/new-entry", p.Ret.Pos(), "")
					case samePrev:
						r.Check("C06.monotone", FnName(cl)+"#true/reused-entry", p.Ret.Pos(), p.Facts,
							okOf(`pkg/beacon/event\.chain\.CurrentRequestPreviousEntry`), okOf(`pkg/beacon/event\.chain\.CurrentRequestStartBlock`),
							`^\+\(.*hex\.EncodeToString\(.*CurrentRequestPreviousEntry\(.*\)#0.*\) == up\(P2\)\)$|^\+\(up\(P2\) == .*hex\.EncodeToString\(.*CurrentRequestPreviousEntry\(.*\)#0.*\)\)$`,
							`^\+\(.*Uint64\(.*CurrentRequestStartBlock\(.*\)#0\) == up\(P1\)\)$|^\+\(up\(P1\) == .*Uint64\(.*CurrentRequestStartBlock\(.*\)#0\)\)$`)
					default:
						r.Fail("C06.monotone", FnName(cl)+"#true", p.Ret.Pos(), "cannot classify the previous-entry comparison on this path", nil, p.Facts)
					}
				}
			} else {
				r.Undecided("C06.monotone", "NotifyRelayEntryStarted$1", "shouldUpdate closure not found")
			}
			// gate in beacon.go
			n2 := 0
			for _, f := range r.W.AllFuncs {
				if fnPkgRel(f) != "pkg/beacon" {
					continue
				}
				for _, c := range CallsMatching(f, `\.GenerateRelayEntry$`) {
					if FnName(f) == "pkg/beacon.node.ResumeSigningIfEligible" {
						// startup resume of a pending request, not a notification; it must run before the subscription exists
						if ini := r.MustFn("C06.gate", "pkg/beacon", "Initialize"); ini != nil {
							res := Sites(ini, `^pkg/beacon\.node\.ResumeSigningIfEligible$`, false)
							sub := Sites(ini, `\.OnRelayEntryRequested$`, false)
							ok := len(res) == 1 && len(sub) == 1 && InstrBefore(res[0], sub[0])
							r.Cond(ok, "C06.gate", FnName(f)+"#startup-resume", c.Pos(), "exempt door: startup resume runs once, before the relay-entry-requested subscription is installed")
						}
						continue
					}
					n2++
					r.Check("C06.gate", FnName(f)+"#GenerateRelayEntry", c.Pos(), Facts(c.Block()),
						trueOf(`pkg/beacon/event\.Deduplicator\.NotifyRelayEntryStarted`), okOf(`pkg/beacon/event\.Deduplicator\.NotifyRelayEntryStarted`))
				}
			}
			if n2 == 0 {
				r.Undecided("C06.gate", "pkg/beacon", "no GenerateRelayEntry call found")
			}
		},
	})
}
