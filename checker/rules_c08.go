package main

import (
	"strings"

	"golang.org/x/tools/go/ssa"
)

func init() {
	const sg = "pkg/tecdsa/signing"
	register(&Prop{
		ID:        "C08",
		Technique: "static analysis: must-precede ordering of the ascending sort, index-base typing (1-based member index vs 0-based slice position) of the remapping, provenance of the stored signer index and of the signing identity keys (go/ssa)",
		Explanation: "(1) tbtc.finalSigningGroup: after checking len(selectedOperators) = GroupSize and len(operating) ≥ GroupQuorum, the operating indexes are sorted ascending (strict `<` comparator) before they are enumerated; position i (0-based) of the enumeration gets operator selectedOperators[id−1] (1-based DKG index → 0-based slice) and the map stores id ↦ i+1 (0-based position → 1-based final index); " +
			"(2) registerSigner feeds finalSigningGroup with the result's OperatingMemberIndexes and the selected operators, stores the final operators and the map entry of the member's own DKG index (failing when absent) together with the result's private key share and its public key, and returns the signer only after the registry accepted it; " +
			"(3) the signing identity converter is built from the key share's own party keys (Data().Ks); member index ↦ keys[index−1], party key ↦ position+1; the signing TSS party set is generated from the operating member indexes and sorted, and the local party gets the member's key share data; NewSignature copies R, S and the recovery byte from tss-lib's output.",
		NotDecided: "that the produced signatures are valid and low-S (inside tss-lib); that every honest-threshold subset succeeds (liveness); agreement of Ks order with the final indexes beyond the shape of the mapping (tss-lib sorts parties by key and DKG keys are seed + index, which is monotone in the index — stated, not checked).",
		Fn: func(r *Run) {
			r.Rule("C08.remap", "sort ascending, then position i ↦ (operators[id−1], id ↦ i+1)", 5)
			r.Rule("C08.register", "stored index = map entry of the member's DKG index; share and key from the same result", 4)
			r.Rule("C08.identity", "signing identity keys = key share Ks; index ↔ position consistent (−1 / +1)", 4)
			r.Rule("C08.parties", "signing party set from operating members, sorted; local party uses the member's key share", 3)
			r.Rule("C08.signature", "signature fields copied from tss-lib output", 1)

			if fn := r.MustFn("C08.remap", "pkg/tbtc", "finalSigningGroup"); fn != nil {
				sorts := Sites(fn, `^sort\.Slice$`, false)
				var loop *Loop
				for _, l := range Loops(fn) {
					if sameValue(loopSource(l.Header), fn.Params[1]) {
						loop = l
					}
				}
				if len(sorts) != 1 || loop == nil {
					r.Undecided("C08.remap", FnName(fn), "expected one sort.Slice and one loop over operatingMembersIndexes")
				} else {
					s := sorts[0]
					r.Cond(derives(s.Common().Args[0], fn.Params[1]) && dominates(s.Block(), loop.Header) && !loop.Blocks[s.Block()], "C08.remap", FnName(fn)+"#sort-first", s.Pos(), "the operating indexes are sorted before the enumeration that assigns final indexes")
					if cl := closureOf(s.Common().Args[1]); cl != nil {
						rets := ReturnsMatching(cl, 0, `^\(up\(P1\)\[P0\] < up\(P1\)\[P1\]\)$`)
						r.Cond(len(rets) == 1 && len(ReturnsMatching(cl, 0, `.`)) == 1, "C08.remap", FnName(fn)+"#comparator", cl.Pos(), "comparator is the strict ascending order of the indexes")
					} else {
						r.Undecided("C08.remap", FnName(fn)+"#comparator", "comparator closure not resolved")
					}
					r.Check("C08.remap", FnName(fn)+"#preconditions", s.Pos(), Facts(s.Block()),
						`^\+\(P2\.GroupSize == len\(P0\)\)$`, `^\+\(P2\.GroupQuorum <= len\(P1\)\)$`)
					// the two stores of the loop body
					ifi := loop.Header.Instrs[len(loop.Header.Instrs)-1].(*ssa.If)
					pos := stripConv(ifi.Cond.(*ssa.BinOp).X) // 0-based position
					nOp, nMap := 0, 0
					for b := range loop.Blocks {
						for _, in := range b.Instrs {
							switch x := in.(type) {
							case *ssa.Store:
								ia, ok := x.Addr.(*ssa.IndexAddr)
								if !ok || isLocalTemp(ia.X) {
									continue
								}
								nOp++
								// value: selectedOperators[id − 1]
								okV := false
								if ld, ok := x.Val.(*ssa.UnOp); ok {
									if src, ok := ld.X.(*ssa.IndexAddr); ok && sameValue(src.X, fn.Params[0]) {
										c, ts := AffineTerms(src.Index)
										okV = c == -1 && len(ts) == 1 && ts[0].K == 1 && strings.HasPrefix(Desc(ts[0].V), "P1[") && indexBase(src.Index, 8) == 0
									}
								}
								r.Cond(okV && stripConv(ia.Index) == pos, "C08.remap", FnName(fn)+"#final-operator", in.Pos(), "finalOperators[position] = selectedOperators[dkgIndex − 1]")
							case *ssa.MapUpdate:
								nMap++
								c, ts := AffineTerms(x.Value)
								pc, pts := AffineTerms(pos)
								okV := c-pc == 1 && len(ts) == 1 && len(pts) == 1 && ts[0].K == 1 && pts[0].K == 1 && ts[0].V == pts[0].V
								r.Cond(okV && strings.HasPrefix(Desc(x.Key), "P1["), "C08.remap", FnName(fn)+"#final-index", in.Pos(), "finalMembersIndexes[dkgIndex] = position + 1")
							}
						}
					}
					if nOp != 1 || nMap != 1 {
						r.Undecided("C08.remap", FnName(fn)+"#body", "expected one operator store and one map update in the enumeration")
					}
				}
			}
			if fn := r.MustFn("C08.register", "pkg/tbtc", "dkgExecutor.registerSigner"); fn != nil {
				fsg := `call:pkg/tbtc\.finalSigningGroup\(P3, call:pkg/protocol/group\.Group\.OperatingMemberIndexes\(P1\.Group\), P0\.groupParameters\)`
				for _, c := range Sites(fn, `^pkg/tbtc\.newSigner$`, false) {
					a := c.Common().Args
					ok := re(`^call:pkg/tecdsa\.PrivateKeyShare\.PublicKey\(P1\.PrivateKeyShare\)$`).MatchString(Desc(a[0])) &&
						re(`^`+fsg+`#0$`).MatchString(Desc(a[1])) && re(`^`+fsg+`#1\[P2\]#0$`).MatchString(Desc(a[2])) && Desc(a[3]) == "P1.PrivateKeyShare"
					r.Cond(ok, "C08.register", FnName(fn)+"#newSigner", c.Pos(), "signer = (share's public key, final operators, finalIndexes[own DKG index], share) of one DKG result")
					r.Check("C08.register", FnName(fn)+"#newSigner/guards", c.Pos(), Facts(c.Block()), okOf(`pkg/tbtc\.finalSigningGroup`), `^\+`+fsg+`#1\[P2\]#1$`)
				}
				for _, p := range SuccessReturns(fn) {
					r.Check("C08.register", FnName(fn)+"#return", p.Ret.Pos(), p.Facts, okOf(`pkg/tbtc\.walletRegistry\.registerSigner`))
					r.Cond(strings.HasPrefix(Desc(RetResults(p.Ret)[0]), "call:pkg/tbtc.newSigner("), "C08.register", FnName(fn)+"#returned-signer", p.Ret.Pos(), "returns the signer that was registered")
				}
			}
			if fn := r.MustFn("C08.identity", sg, "newMember"); fn != nil {
				ok := false
				EachInstr(fn, func(in ssa.Instruction) {
					if st, isSt := in.(*ssa.Store); isSt && strings.HasSuffix(Desc(st.Addr), ".keys") && re(`^call:pkg/tecdsa\.PrivateKeyShare\.Data\(P7\)\.Ks$`).MatchString(Desc(st.Val)) {
						ok = true
					}
				})
				r.Cond(ok, "C08.identity", FnName(fn)+"#keys", fn.Pos(), "identity keys are the party keys recorded in the member's own key share")
			}
			if fn := r.MustFn("C08.identity", sg, "identityConverter.MemberIndexToTssPartyIDKey"); fn != nil {
				for _, ret := range ReturnsMatching(fn, 0, `.`) {
					okI := false
					if ld, ok := ret.Results[0].(*ssa.UnOp); ok {
						if ia, ok := ld.X.(*ssa.IndexAddr); ok && Desc(ia.X) == "P0.keys" {
							c, ts := AffineTerms(ia.Index)
							okI = c == -1 && len(ts) == 1 && ts[0].K == 1 && Desc(ts[0].V) == "P1"
						}
					}
					r.Cond(okI, "C08.identity", FnName(fn), ret.Pos(), "key of member i is keys[i − 1]")
				}
			}
			if fn := r.MustFn("C08.identity", sg, "identityConverter.TssPartyIDToMemberIndex"); fn != nil {
				for _, ret := range ReturnsMatching(fn, 0, `.`) {
					c, ts := AffineTerms(ret.Results[0])
					ok := c == 1 && len(ts) == 1 && ts[0].K == 1 && strings.Contains(Desc(ts[0].V), "slices.IndexFunc[") && strings.Contains(Desc(ts[0].V), "(P0.keys, ")
					r.Cond(ok, "C08.identity", FnName(fn), ret.Pos(), "member index = position of the key in keys + 1; got "+abbr(Desc(ret.Results[0]), 1))
				}
				for _, cl := range fn.AnonFuncs {
					rets := ReturnsMatching(cl, 0, `^\(call:math/big\.Int\.Cmp\(P0, call:github\.com/bnb-chain/tss-lib/tss\.[\w.]*KeyInt\(up\(P1\)[\w.]*\)\) == const:0\)$`)
					r.Cond(len(rets) == 1, "C08.identity", FnName(cl), cl.Pos(), "position found by key equality with the party's key")
				}
			}
			if fn := r.MustFn("C08.parties", sg, "symmetricKeyGeneratingMember.initializeTssRoundOne"); fn != nil {
				for _, c := range Sites(fn, `^pkg/tecdsa/common\.GenerateTssPartiesIDs$`, false) {
					a := c.Common().Args
					r.Cond(re(`^P0(\.\w+)*\.id$`).MatchString(Desc(a[0])) && re(`^call:pkg/protocol/group\.Group\.OperatingMemberIndexes\(P0(\.\w+)*\.group\)$`).MatchString(Desc(a[1])) && re(`^P0(\.\w+)*\.identityConverter$`).MatchString(Desc(a[2])),
						"C08.parties", FnName(fn)+"#GenerateTssPartiesIDs", c.Pos(), "party ids from the attempt's operating members through the key-share identity converter")
				}
				for _, c := range Sites(fn, `tss-lib/tss\.NewParameters$`, false) {
					a := c.Common().Args
					gen := `call:pkg/tecdsa/common.GenerateTssPartiesIDs(`
					ok := len(a) == 5 && strings.Contains(Desc(a[1]), "tss.SortPartyIDs("+gen) && strings.HasPrefix(Desc(a[2]), gen) && strings.HasPrefix(Desc(a[3]), "len("+gen) &&
						re(`^1\*call:pkg/protocol/group\.Group\.HonestThreshold\(P0(\.\w+)*\.group\) \+ -1$`).MatchString(Affine(a[4]).String())
					r.Cond(ok, "C08.parties", FnName(fn)+"#NewParameters", c.Pos(), "peer context = sorted party ids, threshold = HonestThreshold()−1")
				}
				for _, c := range Sites(fn, `tss-lib/ecdsa/signing\.NewLocalParty$`, false) {
					a := c.Common().Args
					r.Cond(re(`^P0(\.\w+)*\.message$`).MatchString(Desc(a[0])) && re(`^call:pkg/tecdsa\.PrivateKeyShare\.Data\(P0(\.\w+)*\.privateKeyShare\)$`).MatchString(Desc(a[2])),
						"C08.parties", FnName(fn)+"#NewLocalParty", c.Pos(), "the local signing party signs the member's message with the member's key share")
				}
			}
			if fn := r.MustFn("C08.signature", "pkg/tecdsa", "NewSignature"); fn != nil {
				okR, okS, okV := false, false, false
				EachInstr(fn, func(in ssa.Instruction) {
					if st, isSt := in.(*ssa.Store); isSt {
						a, v := Desc(st.Addr), Desc(st.Val)
						switch {
						case strings.HasSuffix(a, ".R"):
							okR = re(`^call:math/big\.Int\.SetBytes\(&?local:new, call:[\w./-]+SignatureData\.GetR\(P0\)\)$`).MatchString(v)
						case strings.HasSuffix(a, ".S"):
							// S is taken over as produced by tss-lib (which already emits the
							// canonical low-S form); any local transformation of it is reported
							okS = re(`^call:math/big\.Int\.SetBytes\(&?local:new, call:[\w./-]+SignatureData\.GetS\(P0\)\)$`).MatchString(v)
						case strings.HasSuffix(a, ".RecoveryID"):
							okV = strings.Contains(v, "SignatureData.GetSignatureRecovery(P0)[const:0]") && !strings.Contains(v, "phi{")
						}
					}
				})
				// the big.Int objects holding R and S are written once (SetBytes) and not
				// mutated afterwards (x.Sub(N, x) on the same object would change the
				// stored value without changing its SSA name)
				mutated := ""
				EachInstr(fn, func(in ssa.Instruction) {
					c, ok := in.(*ssa.Call)
					if !ok || len(c.Call.Args) == 0 || c.Call.IsInvoke() {
						return
					}
					n := CalleeName(c)
					if !strings.HasPrefix(n, "math/big.Int.") || n == "math/big.Int.SetBytes" {
						return
					}
					// receiver is a value that was produced by SetBytes of tss output
					recv := c.Call.Args[0]
					if sb, isCall := recv.(*ssa.Call); isCall && CalleeName(sb) == "math/big.Int.SetBytes" {
						switch n {
						case "math/big.Int.Cmp", "math/big.Int.Sign", "math/big.Int.Bytes", "math/big.Int.String", "math/big.Int.Text", "math/big.Int.BitLen":
						default:
							mutated = n
						}
					}
				})
				r.Cond(okR && okS && okV && mutated == "", "C08.signature", FnName(fn), fn.Pos(), "R, S and the recovery byte are taken over unchanged from tss-lib's signature data (no local transformation; mutating call: "+mutated+")")
			}
		},
	})
	witness(Witness{Prop: "C08", Name: "no-sort-before-remap", File: "pkg/tbtc/dkg.go",
		Old: "\tsort.Slice(operatingMembersIndexes, func(i, j int) bool {\n\t\treturn operatingMembersIndexes[i] < operatingMembersIndexes[j]\n\t})\n\n\tfinalOperators := make(",
		New: "\tsortedCopy := append([]group.MemberIndex{}, operatingMembersIndexes...)\n\tsort.Slice(sortedCopy, func(i, j int) bool {\n\t\treturn sortedCopy[i] < sortedCopy[j]\n\t})\n\n\tfinalOperators := make(", Rule: "C08.remap"})
	witness(Witness{Prop: "C08", Name: "final-index-zero-based", File: "pkg/tbtc/dkg.go",
		Old: "finalMembersIndexes[operatingMemberID] = group.MemberIndex(i + 1)", New: "finalMembersIndexes[operatingMemberID] = group.MemberIndex(i)", Rule: "C08.remap"})
	witness(Witness{Prop: "C08", Name: "store-dkg-index", File: "pkg/tbtc/dkg.go",
		Old: "\t\tfinalSigningGroupOperators,\n\t\tfinalSigningGroupMemberIndex,\n\t\tresult.PrivateKeyShare,", New: "\t\tfinalSigningGroupOperators,\n\t\tmemberIndex+finalSigningGroupMemberIndex-finalSigningGroupMemberIndex,\n\t\tresult.PrivateKeyShare,", Rule: "C08.register"})
}
