package main

import (
	"fmt"
	"go/token"
	"os"
	"runtime/debug"
	"sort"
	"strings"
	"time"

	"golang.org/x/tools/go/ssa"
)

type Prop struct {
	ID          string
	Explanation string
	NotDecided  string
	Whole       bool // thorough tier needs the whole program (VTA)
	Technique   string
	Fn          func(r *Run)
}

var props = map[string]*Prop{}

func register(p *Prop) { props[p.ID] = p }

func main() {
	if len(os.Args) < 2 {
		usage()
	}
	switch os.Args[1] {
	case "check":
		if len(os.Args) < 3 {
			usage()
		}
		id := os.Args[2]
		tier := os.Getenv("VERIF_TIER")
		for i := 3; i < len(os.Args); i++ {
			if os.Args[i] == "--tier" && i+1 < len(os.Args) {
				tier = os.Args[i+1]
			}
		}
		if tier != "thorough" {
			tier = "quick"
		}
		os.Exit(runCheck(id, tier))
	case "list":
		ids := make([]string, 0, len(props))
		for id := range props {
			ids = append(ids, id)
		}
		sort.Strings(ids)
		fmt.Println(strings.Join(ids, " "))
	case "manifest":
		writeManifest()
	case "dbg":
		if w, err := LoadWorld("quick", false, nil); err == nil {
			debugC10(w)
		}
	case "funcs":
		if w, err := LoadWorld("quick", false, nil); err == nil && len(os.Args) > 2 {
			debugList(w, os.Args[2])
		}
	case "probe":
		probe(os.Args[2:])
	case "selftest":
		os.Exit(selftest(os.Args[2:]))
	case "trypatch":
		// trypatch <Cxx> <patch.diff>: run the property's rules on the tree with the patch applied in memory
		if len(os.Args) < 4 {
			usage()
		}
		os.Exit(tryPatch(os.Args[2], os.Args[3]))
	case "explain":
		if len(os.Args) < 3 {
			usage()
		}
		b, err := os.ReadFile(os.Args[2])
		if err != nil {
			fmt.Println(err)
			os.Exit(2)
		}
		os.Stdout.Write(b)
	default:
		usage()
	}
}

func usage() {
	fmt.Fprintln(os.Stderr, "usage: kcverif check <Cxx> [--tier quick|thorough] | list | probe <pkg> <func> | selftest [Cxx] | explain <report>")
	os.Exit(2)
}

func runCheck(id, tier string) int {
	p := props[id]
	if p == nil {
		fmt.Printf("unknown property %s\n", id)
		return 2
	}
	start := time.Now()
	whole := tier == "thorough" && p.Whole
	w, err := LoadWorld(tier, whole, nil)
	r := &Run{ID: id, Tier: tier, start: start, Explanation: p.Explanation, NotDecided: p.NotDecided}
	if err != nil {
		r.W = &World{Fset: token.NewFileSet(), Repo: repoDir()}
		r.Rule(id+".load", "the repository must load and type-check", 0)
		r.Undecided(id+".load", "load", err.Error())
		return r.Finish()
	}
	w.LoadS = time.Since(start).Seconds()
	r.W = w
	runRules(p, r)
	if tier == "thorough" {
		runWitnesses(p, r)
	}
	return r.Finish()
}

func runRules(p *Prop, r *Run) {
	defer func() {
		if e := recover(); e != nil {
			r.Undecided(p.ID+".internal", "panic", fmt.Sprintf("rule panicked: %v\n%s", e, debug.Stack()))
		}
	}()
	p.Fn(r)
	for _, f := range extraRules[p.ID] {
		f(r)
	}
}

// extraRules: rules added to a property after its first rule file was written
// (mostly after a seeded change was missed); run after the property's own Fn.
var extraRules = map[string][]func(*Run){}

func extend(id string, f func(*Run)) { extraRules[id] = append(extraRules[id], f) }

// MustFn resolves an anchor function or records an undecided obligation.
func (r *Run) MustFn(rule, rel, name string) *ssa.Function {
	fn := r.W.Fn(rel, name)
	if fn == nil || fn.Blocks == nil {
		r.Undecided(rule, rel+"."+name, "anchor function not found: "+rel+" "+name)
		return nil
	}
	return fn
}

func probe(args []string) {
	if len(args) < 2 {
		usage()
	}
	w, err := LoadWorld("quick", false, nil)
	if err != nil {
		fmt.Println(err)
		os.Exit(2)
	}
	fn := w.Fn(args[0], args[1])
	if fn == nil {
		fmt.Println("not found")
		os.Exit(2)
	}
	mode := "calls"
	if len(args) > 2 {
		mode = args[2]
	}
	keep := 2
	if mode == "full" {
		keep = 99
	}
	Desc := func(v ssa.Value) string { return abbr(Desc(v), keep) }
	Facts := func(b *ssa.BasicBlock) []string { return abbrAll(Facts(b), keep) }
	for _, f := range WithClosures(fn) {
		fmt.Printf("=== %s\n", FnName(f))
		if mode == "summary" {
			fmt.Println("  true ⇒", SummaryTrue(f))
			for i := 0; i < f.Signature.Results().Len(); i++ {
				fmt.Println("  nilerr", i, "⇒", SummaryNilErr(f, i))
			}
			continue
		}
		if mode == "locks" {
			ls := LocksHeld(f)
			for _, b := range f.Blocks {
				for _, in := range b.Instrs {
					if c, ok := in.(ssa.CallInstruction); ok {
						fmt.Printf("  %s %s held=%v\n", w.Pos(in.Pos()), CalleeName(c), ls[in])
					}
				}
			}
			continue
		}
		for _, b := range f.Blocks {
			fmt.Printf(" block %d (%s) facts=%q\n", b.Index, b.Comment, Facts(b))
			for _, in := range b.Instrs {
				switch x := in.(type) {
				case ssa.CallInstruction:
					args := []string{}
					for _, a := range x.Common().Args {
						args = append(args, Desc(a))
					}
					recv := ""
					if x.Common().IsInvoke() {
						recv = Desc(x.Common().Value) + " ; "
					}
					fmt.Printf("   %s %T %s(%s%s)\n", w.Pos(in.Pos()), in, CalleeName(x), recv, strings.Join(args, ", "))
				case *ssa.Store:
					fmt.Printf("   %s store %s <- %s\n", w.Pos(in.Pos()), Desc(x.Addr), Desc(x.Val))
				case *ssa.MapUpdate:
					fmt.Printf("   %s mapupdate %s[%s] <- %s\n", w.Pos(in.Pos()), Desc(x.Map), Desc(x.Key), Desc(x.Value))
				case *ssa.Return:
					rs := []string{}
					for _, v := range x.Results {
						rs = append(rs, Desc(v))
					}
					fmt.Printf("   %s return %s\n", w.Pos(in.Pos()), strings.Join(rs, ", "))
				case *ssa.Send:
					fmt.Printf("   %s send %s <- %s\n", w.Pos(in.Pos()), Desc(x.Chan), Desc(x.X))
				default:
					if mode == "all" {
						if v, ok := in.(ssa.Value); ok {
							fmt.Printf("   %s %s = %s\n", w.Pos(in.Pos()), v.Name(), Desc(v))
						}
					}
				}
			}
		}
	}
}
