package main

import (
	"strings"

	"golang.org/x/tools/go/ssa"
)

func init() {
	const bp = "pkg/bitcoin"
	const ch = `pkg/bitcoin\.Chain\.`
	register(&Prop{
		ID:        "C31",
		Technique: "static analysis: value identity of the block height across all proof queries, provenance of every proof field, dominator facts on the success return, loop shape of the headers chain (go/ssa)",
		Explanation: "bitcoin.AssembleSpvProof: the transaction's Merkle branch, the headers chain, the coinbase transaction hash and the coinbase Merkle branch are all requested for one and the same height value H = latest height − confirmations + 1; the proof's MerkleProof is built from the transaction's branch and TxIndexInBlock is that branch's position, BitcoinHeaders is getHeadersChain(H, requiredConfirmations), CoinbasePreimage is sha256 of the standard serialization of the transaction fetched by the coinbase hash of block H, CoinbaseProof is built from the coinbase's branch; the proof is returned only under confirmations ≥ requiredConfirmations and after every query succeeded. " +
			"getHeadersChain fetches the headers H, H+1, …, H+length−1 in order (counted loop, error ⇒ failure) and concatenates their serializations; createMerkleProof concatenates the byte-reversed nodes in branch order.",
		NotDecided: "validity of the proof as such (Merkle arithmetic, header linkage and difficulty are the servers' and the verifier's business); chain growth or a reorganisation between the confirmations query and the latest-height query, which makes H point one block too high — with an Electrum server the Merkle query for a wrong height fails, so assembly fails rather than returning a bad proof, but that is server behaviour, not decided here.",
		Fn: func(r *Run) {
			r.Rule("C31.same-block", "all block-specific queries use one height value H = latest − confirmations + 1", 4)
			r.Rule("C31.fields", "every proof field derives from the matching query", 5)
			r.Rule("C31.gate", "proof returned only with enough confirmations and error-free queries", 1)
			r.Rule("C31.helpers", "headers H..H+len−1 in order; Merkle nodes reversed in order", 4)
			if fn := r.MustFn("C31.same-block", bp, "AssembleSpvProof"); fn != nil {
				name := FnName(fn)
				var H ssa.Value
				hs := Sites(fn, `^pkg/bitcoin\.getHeadersChain$`, false)
				if len(hs) == 1 {
					H = hs[0].Common().Args[1]
				}
				if H == nil {
					r.Undecided("C31.same-block", name, "getHeadersChain call not found")
					return
				}
				af := Affine(H)
				a := af.String()
				r.Cond(af.C == 1 && len(af.T) == 2 && af.T["invoke:pkg/bitcoin.Chain.GetTransactionConfirmations(P2, P0)#0"] == -1 && af.T["invoke:pkg/bitcoin.Chain.GetLatestBlockHeight(P2)#0"] == 1,
					"C31.same-block", name+"#height", hs[0].Pos(), "H = latest − confirmations + 1; got "+a)
				r.Cond(Desc(hs[0].Common().Args[2]) == "P1", "C31.same-block", name+"#chain-length", hs[0].Pos(), "headers chain length is the required confirmations")
				mp := Sites(fn, `^invoke:`+ch+`GetTransactionMerkleProof$`, false)
				cb := Sites(fn, `^invoke:`+ch+`GetCoinbaseTxHash$`, false)
				okAll := len(mp) == 2 && len(cb) == 1
				for _, c := range mp {
					if c.Common().Args[1] != H {
						okAll = false
					}
				}
				for _, c := range cb {
					if c.Common().Args[0] != H {
						okAll = false
					}
				}
				r.Cond(okAll, "C31.same-block", name+"#queries", fn.Pos(), "both Merkle branch queries and the coinbase hash query use the very height value handed to getHeadersChain")
				// which branch is whose
				var txBranch, cbBranch string
				for _, c := range mp {
					switch d := Desc(c.Common().Args[0]); {
					case d == "P0":
						txBranch = Desc(callValue(c)) + "#0"
					case strings.Contains(d, "GetCoinbaseTxHash("):
						cbBranch = Desc(callValue(c)) + "#0"
					}
				}
				r.Cond(txBranch != "" && cbBranch != "", "C31.same-block", name+"#branches", fn.Pos(), "one branch for the transaction itself, one for the block's coinbase transaction")
				// proof fields
				want := map[string]func(v string) bool{
					"MerkleProof":      func(v string) bool { return v == "call:pkg/bitcoin.createMerkleProof("+txBranch+")#0" },
					"TxIndexInBlock":   func(v string) bool { return v == txBranch+".Position" },
					"BitcoinHeaders":   func(v string) bool { return strings.HasPrefix(v, "call:pkg/bitcoin.getHeadersChain(") && strings.HasSuffix(v, "#0") },
					"CoinbasePreimage": func(v string) bool { return strings.HasPrefix(v, "call:crypto/sha256.Sum256(call:pkg/bitcoin.Transaction.Serialize(invoke:pkg/bitcoin.Chain.GetTransaction(P2, invoke:pkg/bitcoin.Chain.GetCoinbaseTxHash(") },
					"CoinbaseProof":    func(v string) bool { return v == "call:pkg/bitcoin.createMerkleProof("+cbBranch+")#0" },
				}
				seen := map[string]bool{}
				EachInstr(fn, func(in ssa.Instruction) {
					st, ok := in.(*ssa.Store)
					if !ok {
						return
					}
					fa, ok := st.Addr.(*ssa.FieldAddr)
					if !ok || !strings.HasSuffix(typeName(fa.X.Type()), "bitcoin.SpvProof") {
						return
					}
					f := fieldName(fa.X.Type(), fa.Field)
					if chk, has := want[f]; has {
						seen[f] = true
						r.Cond(chk(Desc(st.Val)), "C31.fields", name+"#"+f, in.Pos(), "field "+f+" derives from the matching query; got "+abbr(Desc(st.Val), 2))
					}
				})
				for f := range want {
					if !seen[f] {
						r.Undecided("C31.fields", name+"#"+f, "field store not found")
					}
				}
				for _, p := range SuccessReturns(fn) {
					r.Check("C31.gate", name+"#return", p.Ret.Pos(), p.Facts,
						`^\+\(P1 <= invoke:`+ch+`GetTransactionConfirmations\(P2, P0\)#0\)$`,
						okOf(ch+"GetTransactionConfirmations"), okOf(ch+"GetTransaction"), okOf(ch+"GetLatestBlockHeight"), okOf(`pkg/bitcoin\.getHeadersChain`),
						okOf(ch+"GetTransactionMerkleProof"), okOf(`pkg/bitcoin\.createMerkleProof`), okOf(ch+"GetCoinbaseTxHash"))
					r.Cond(Desc(RetResults(p.Ret)[0]) == "invoke:pkg/bitcoin.Chain.GetTransaction(P2, P0)#0", "C31.gate", name+"#transaction", p.Ret.Pos(), "the returned transaction is the one the proof is about")
				}
			}
			if fn := r.MustFn("C31.helpers", bp, "getHeadersChain"); fn != nil {
				name := FnName(fn)
				ls := Loops(fn)
				okLoop := len(ls) == 1 && ls[0].Kind == "counted"
				r.Cond(okLoop, "C31.helpers", name+"#counted", fn.Pos(), "one counted loop over the heights")
				for _, c := range Sites(fn, `^invoke:`+ch+`GetBlockHeader$`, false) {
					h := c.Common().Args[0]
					phi, isPhi := h.(*ssa.Phi)
					okInd := false
					okBound := false
					if isPhi && len(phi.Edges) == 2 {
						for i, e := range phi.Edges {
							if Desc(e) == "P1" && Affine(phi.Edges[1-i]).String() == "1*"+Desc(phi)+" + 1" {
								okInd = true
							}
						}
						for _, g := range CmpGuards(c.Block()) {
							if g.Strict && g.Lo == h && Affine(g.Hi).String() == "1*P1 + 1*P2 + 0" {
								okBound = true
							}
						}
					}
					r.Cond(okInd && okBound, "C31.helpers", name+"#heights", c.Pos(), "heights run from blockHeight to blockHeight + chainLength − 1, step 1")
				}
				for _, p := range SuccessReturns(fn) {
					r.Cond(strings.HasPrefix(Desc(RetResults(p.Ret)[0]), "call:bytes.Buffer.Bytes("), "C31.helpers", name+"#result", p.Ret.Pos(), "result is the concatenation buffer")
				}
				// an error from the chain fails the whole chain (no partial result)
				for _, b := range fn.Blocks {
					if ret, ok := b.Instrs[len(b.Instrs)-1].(*ssa.Return); ok && !isNilConst(RetResults(ret)[1]) {
						r.Cond(isNilConst(RetResults(ret)[0]), "C31.helpers", name+"#no-partial", ret.Pos(), "a failed header query yields no headers chain")
					}
				}
			}
			if fn := r.MustFn("C31.helpers", bp, "createMerkleProof"); fn != nil {
				name := FnName(fn)
				okOrder := false
				for _, l := range Loops(fn) {
					if s := loopSource(l.Header); s != nil && Desc(s) == "P0.MerkleNodes" && l.Kind == "range" {
						okOrder = true
					}
				}
				wr := Sites(fn, `^bytes\.Buffer\.Write$`, false)
				okRev := len(wr) == 1 && strings.HasPrefix(Desc(wr[0].Common().Args[1]), "call:pkg/internal/byteutils.Reverse(call:encoding/hex.DecodeString(P0.MerkleNodes[")
				if len(wr) == 1 {
					okRev = okRev && HasFact(Facts(wr[0].Block()), okOf(`encoding/hex\.DecodeString`))
				}
				r.Cond(okOrder && okRev, "C31.helpers", name, fn.Pos(), "nodes are decoded, byte-reversed and concatenated in branch order")
			}
		},
	})
	witness(Witness{Prop: "C31", Name: "coinbase-from-latest-block", File: "pkg/bitcoin/spv_proof.go",
		Old: "\tcoinbaseTxHash, err := btcChain.GetCoinbaseTxHash(txBlockHeight)", New: "\tcoinbaseTxHash, err := btcChain.GetCoinbaseTxHash(latestBlockHeight)", Rule: "C31.same-block"})
	witness(Witness{Prop: "C31", Name: "index-from-coinbase-branch", File: "pkg/bitcoin/spv_proof.go",
		Old: "\t\tTxIndexInBlock:   merkleBranch.Position,", New: "\t\tTxIndexInBlock:   coinbaseMerkleBranch.Position,", Rule: "C31.fields"})
	witness(Witness{Prop: "C31", Name: "headers-one-short", File: "pkg/bitcoin/spv_proof.go",
		Old: "\tfor i := blockHeight; i < blockHeight+chainLength; i++ {", New: "\tfor i := blockHeight + 1; i < blockHeight+chainLength; i++ {", Rule: "C31.helpers"})
}
