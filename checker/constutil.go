package main

import "go/types"

func constOf(obj types.Object) string {
	if c, ok := obj.(*types.Const); ok {
		return c.Val().ExactString()
	}
	return ""
}
