package main

import (
	"fmt"
	"go/types"

	"golang.org/x/tools/go/ssa"
)

// Input preservation (added after seeds C03-4 and C04-5): functions whose
// result must depend on the caller's bytes / shares only may not write into
// the backing array of a slice parameter — a second call on the same data
// (or the caller's later use of it) would then see different input.

// derivesFromSliceParam: v shares its backing array with a slice parameter of
// fn (the parameter itself, a reslice of it, or a phi of such values).
func derivesFromSliceParam(v ssa.Value, depth int) *ssa.Parameter {
	if depth == 0 {
		return nil
	}
	switch x := v.(type) {
	case *ssa.Parameter:
		if isSliceType(x.Type()) {
			return x
		}
	case *ssa.Slice:
		return derivesFromSliceParam(x.X, depth-1)
	case *ssa.ChangeType:
		return derivesFromSliceParam(x.X, depth-1)
	case *ssa.Phi:
		for _, e := range x.Edges {
			if p := derivesFromSliceParam(e, depth-1); p != nil {
				return p
			}
		}
	}
	return nil
}

// paramWrites lists the instructions of fn that write into a slice
// parameter's backing array: element stores, copy into it, and append onto a
// reslice of it (append(p[:0], …) reuses p's storage).
func paramWrites(fn *ssa.Function) []ssa.Instruction {
	var out []ssa.Instruction
	EachInstr(fn, func(in ssa.Instruction) {
		switch x := in.(type) {
		case *ssa.Store:
			if ia, ok := x.Addr.(*ssa.IndexAddr); ok && derivesFromSliceParam(ia.X, 6) != nil {
				out = append(out, in)
			}
		case *ssa.Call:
			b, ok := x.Call.Value.(*ssa.Builtin)
			if !ok {
				return
			}
			switch b.Name() {
			case "copy":
				if derivesFromSliceParam(x.Call.Args[0], 6) != nil {
					out = append(out, in)
				}
			case "append":
				if sl, isSl := stripConv(x.Call.Args[0]).(*ssa.Slice); isSl && derivesFromSliceParam(sl, 6) != nil {
					out = append(out, in)
				} else if phi, isPhi := x.Call.Args[0].(*ssa.Phi); isPhi {
					// accumulation seeded with a reslice of a parameter: xs := p[:0]; xs = append(xs, …)
					for _, e := range phi.Edges {
						if sl, isSl := stripConv(e).(*ssa.Slice); isSl && derivesFromSliceParam(sl, 6) != nil {
							out = append(out, in)
						}
					}
				}
			}
		}
	})
	return out
}

func (r *Run) inputsPreserved(rule string, fns []*ssa.Function) {
	for _, fn := range fns {
		ws := paramWrites(fn)
		if len(ws) == 0 {
			r.Ok(rule, FnName(fn), fn.Pos(), "no write into a slice parameter's backing array")
			continue
		}
		for _, in := range ws {
			r.Fail(rule, FnName(fn), in.Pos(), "writes into the backing array of a slice parameter: the caller's data (and any later call on it) changes", nil, []string{in.String()})
		}
	}
}

func init() {
	extend("C03", func(r *Run) {
		r.Rule("C03.inputs-preserved", "recovery does not write into the caller's share / key slices (recovering twice from the same data gives the same result)", 4)
		var roots []*ssa.Function
		for _, name := range []string{"RecoverSignature", "RecoverPublicKey"} {
			if f := r.MustFn("C03.inputs-preserved", "pkg/bls", name); f != nil {
				roots = append(roots, f)
			}
		}
		if f := r.MustFn("C03.inputs-preserved", "pkg/beacon/dkg", "ThresholdSigner.CompleteSignature"); f != nil {
			r.inputsPreserved("C03.inputs-preserved", []*ssa.Function{f})
		}
		fns := ReachableIn(roots, 6)
		r.inputsPreserved("C03.inputs-preserved", fns)
		r.Cond(len(fns) >= 2, "C03.inputs-preserved", "scope", 0, fmt.Sprintf("%d functions of pkg/bls reachable from the recovery entry points examined", len(fns)))
	})
	witness(Witness{Prop: "C03", Name: "filter-in-place", File: "pkg/bls/bls.go",
		Old: "\tvar validShares []*SignatureShare", New: "\tvalidShares := shares[:0]", Rule: "C03.inputs-preserved"})
	extend("C04", func(r *Run) {
		r.Rule("C04.inputs-preserved", "compression, decompression and hashing do not write into the caller's byte slices (decompressing the same bytes twice gives the same point)", 15)
		var roots []*ssa.Function
		for _, name := range []string{"DecompressToG1", "DecompressToG2", "G1Point.Compress", "G2Point.Compress", "G1HashToPoint"} {
			if f := r.MustFn("C04.inputs-preserved", "pkg/altbn128", name); f != nil {
				roots = append(roots, f)
			}
		}
		r.inputsPreserved("C04.inputs-preserved", ReachableIn(roots, 8))
	})
	witness(Witness{Prop: "C04", Name: "parity-bit-cleared-in-place", File: "pkg/altbn128/altbn128.go",
		Old: "\tx := new(big.Int).SetBytes(append([]byte{m[0] & 0x7F}, m[1:]...))", New: "\tm[0] &= 0x7F\n\tx := new(big.Int).SetBytes(m)", Rule: "C04.inputs-preserved"})
}

func isSliceType(t types.Type) bool {
	_, ok := t.Underlying().(*types.Slice)
	return ok
}
