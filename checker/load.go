package main

import (
	"fmt"
	"go/token"
	"go/types"
	"os"
	"sort"
	"strings"

	"golang.org/x/tools/go/callgraph"
	"golang.org/x/tools/go/callgraph/cha"
	"golang.org/x/tools/go/callgraph/vta"
	"golang.org/x/tools/go/packages"
	"golang.org/x/tools/go/ssa"
	"golang.org/x/tools/go/ssa/ssautil"
)

const modPath = "github.com/keep-network/keep-core"

// World is the resolved program every rule inspects.
type World struct {
	Tier     string
	Repo     string
	Fset     *token.FileSet
	Pkgs     []*packages.Package // repository packages (with syntax)
	ByPath   map[string]*packages.Package
	Prog     *ssa.Program
	SSA      map[string]*ssa.Package // by import path, repository packages only
	AllFuncs []*ssa.Function         // every repository function incl. closures and methods
	callers  map[*ssa.Function][]ssa.CallInstruction
	cg       *callgraph.Graph
	whole    bool
	LoadS    float64
	Overlay  map[string][]byte // witness edits (absolute path → content); also honoured by the Solidity reader
}

func repoDir() string {
	if d := os.Getenv("KC_REPO"); d != "" {
		return d
	}
	return "/repo"
}

func loadEnv() []string {
	env := []string{}
	for _, e := range os.Environ() {
		if strings.HasPrefix(e, "GOFLAGS=") || strings.HasPrefix(e, "GOWORK=") ||
			strings.HasPrefix(e, "GOPROXY=") || strings.HasPrefix(e, "GOTOOLCHAIN=") ||
			strings.HasPrefix(e, "GOSUMDB=") || strings.HasPrefix(e, "GOARCH=") {
			continue
		}
		env = append(env, e)
	}
	env = append(env, "GOFLAGS=-mod=mod", "GOWORK=off", "GOPROXY=off", "GOTOOLCHAIN=local", "GOSUMDB=off")
	if a := os.Getenv("KC_GOARCH"); a != "" {
		env = append(env, "GOARCH="+a)
	}
	return env
}

var loadPatterns = []string{"./pkg/...", "./config/...", "./cmd/...", "./internal/...", "."}

// LoadWorld type-checks the repository at its current working tree and builds
// SSA. whole=true loads dependencies from source too (needed for VTA).
func LoadWorld(tier string, whole bool, overlay map[string][]byte) (*World, error) {
	mode := packages.LoadSyntax
	if whole {
		mode = packages.LoadAllSyntax
	}
	cfg := &packages.Config{
		Mode:    mode | packages.NeedModule,
		Dir:     repoDir(),
		Env:     loadEnv(),
		Overlay: overlay,
		Tests:   false,
	}
	pkgs, err := packages.Load(cfg, loadPatterns...)
	if err != nil {
		return nil, fmt.Errorf("packages.Load: %v", err)
	}
	if len(pkgs) == 0 {
		return nil, fmt.Errorf("no packages loaded from %s", repoDir())
	}
	var errs []string
	packages.Visit(pkgs, nil, func(p *packages.Package) {
		if !strings.HasPrefix(p.PkgPath, modPath) {
			return
		}
		for _, e := range p.Errors {
			errs = append(errs, e.Error())
		}
	})
	if len(errs) > 0 {
		sort.Strings(errs)
		if len(errs) > 8 {
			errs = errs[:8]
		}
		return nil, fmt.Errorf("type-check errors in repository packages: %s", strings.Join(errs, "; "))
	}
	w := &World{Tier: tier, Repo: repoDir(), Pkgs: pkgs, ByPath: map[string]*packages.Package{},
		SSA: map[string]*ssa.Package{}, whole: whole, Overlay: overlay}
	w.Fset = pkgs[0].Fset
	bmode := ssa.InstantiateGenerics
	var prog *ssa.Program
	var spkgs []*ssa.Package
	if whole {
		prog, spkgs = ssautil.AllPackages(pkgs, bmode)
	} else {
		prog, spkgs = ssautil.Packages(pkgs, bmode)
	}
	prog.Build()
	w.Prog = prog
	for i, p := range pkgs {
		w.ByPath[p.PkgPath] = p
		if spkgs[i] == nil {
			return nil, fmt.Errorf("no SSA for %s", p.PkgPath)
		}
		w.SSA[p.PkgPath] = spkgs[i]
	}
	all := ssautil.AllFunctions(prog)
	for f := range all {
		if f.Pkg != nil && strings.HasPrefix(f.Pkg.Pkg.Path(), modPath) && f.Blocks != nil {
			w.AllFuncs = append(w.AllFuncs, f)
		} else if f.Pkg == nil && f.Blocks != nil {
			// instantiations and wrappers: keep those whose origin is in the repo
			if o := f.Origin(); o != nil && o.Pkg != nil && strings.HasPrefix(o.Pkg.Pkg.Path(), modPath) {
				w.AllFuncs = append(w.AllFuncs, f)
			}
		}
	}
	sort.Slice(w.AllFuncs, func(i, j int) bool { return w.AllFuncs[i].String() < w.AllFuncs[j].String() })
	return w, nil
}

// CallGraph returns (and caches) a call graph: VTA when the whole program was
// loaded from source, CHA otherwise.
func (w *World) CallGraph() *callgraph.Graph {
	if w.cg != nil {
		return w.cg
	}
	c := cha.CallGraph(w.Prog)
	if w.whole {
		c = vta.CallGraph(ssautil.AllFunctions(w.Prog), c)
	}
	w.cg = c
	return c
}

// Callers returns every static or call-graph-resolved call site of fn that
// lies in a repository function.
func (w *World) Callers(fn *ssa.Function) []ssa.CallInstruction {
	if w.callers == nil {
		w.callers = map[*ssa.Function][]ssa.CallInstruction{}
		g := w.CallGraph()
		for _, f := range w.AllFuncs {
			n := g.Nodes[f]
			if n == nil {
				continue
			}
			for _, e := range n.Out {
				if e.Site == nil {
					continue
				}
				w.callers[e.Callee.Func] = append(w.callers[e.Callee.Func], e.Site)
			}
		}
	}
	return w.callers[fn]
}

func short(path string) string { return strings.TrimPrefix(path, modPath+"/") }

// Pkg resolves a repository package by its path relative to the module root.
func (w *World) Pkg(rel string) *ssa.Package {
	if rel == "" || rel == "." {
		return w.SSA[modPath]
	}
	return w.SSA[modPath+"/"+rel]
}

// Fn resolves "Func", "Type.Method" (pointer or value receiver) or "Func$1"
// (closure) in a repository package. Returns nil when absent.
func (w *World) Fn(rel, name string) *ssa.Function {
	p := w.Pkg(rel)
	if p == nil {
		return nil
	}
	closure := ""
	if i := strings.Index(name, "$"); i >= 0 {
		closure = name[i:]
		name = name[:i]
	}
	var fn *ssa.Function
	if i := strings.Index(name, "."); i >= 0 {
		tn, mn := name[:i], name[i+1:]
		m := p.Members[tn]
		t, ok := m.(*ssa.Type)
		if !ok {
			return nil
		}
		for _, typ := range []types.Type{t.Type(), types.NewPointer(t.Type())} {
			ms := w.Prog.MethodSets.MethodSet(typ)
			for i := 0; i < ms.Len(); i++ {
				sel := ms.At(i)
				if sel.Obj().Name() == mn && sel.Obj().Pkg() == p.Pkg {
					if f := w.Prog.MethodValue(sel); f != nil && f.Synthetic == "" {
						fn = f
					}
				}
			}
			if fn != nil {
				break
			}
		}
	} else {
		fn = p.Func(name)
	}
	if fn == nil {
		// methods of generic types have no entry in the method set of the
		// uninstantiated type: find the generic body by its stable name
		want := rel + "." + name
		for _, f := range w.AllFuncs {
			n := FnName(f)
			if i := strings.Index(n, "["); i > 0 {
				n = n[:i]
			}
			if f.Parent() != nil || n != want {
				continue
			}
			if o := f.Origin(); o != nil && o.Blocks != nil {
				fn = o
			} else {
				fn = f
			}
			break
		}
	}
	if fn == nil || closure == "" {
		return fn
	}
	full := fn.Name() + closure
	var find func(f *ssa.Function) *ssa.Function
	find = func(f *ssa.Function) *ssa.Function {
		for _, a := range f.AnonFuncs {
			if a.Name() == full {
				return a
			}
			if r := find(a); r != nil {
				return r
			}
		}
		return nil
	}
	return find(fn)
}

// WithClosures returns fn followed by all closures nested in it.
func WithClosures(fn *ssa.Function) []*ssa.Function {
	out := []*ssa.Function{fn}
	for _, a := range fn.AnonFuncs {
		out = append(out, WithClosures(a)...)
	}
	return out
}

func (w *World) Pos(p token.Pos) string {
	if !p.IsValid() {
		return "-"
	}
	pos := w.Fset.Position(p)
	return fmt.Sprintf("%s:%d", strings.TrimPrefix(pos.Filename, w.Repo+"/"), pos.Line)
}

// FnName gives a stable, position-free name for a function: pkg.Type.Method,
// closures as parent$N.
func FnName(f *ssa.Function) string {
	if f == nil {
		return "<nil>"
	}
	if f.Parent() != nil {
		return FnName(f.Parent()) + strings.TrimPrefix(f.Name(), f.Parent().Name())
	}
	pk := ""
	if f.Pkg != nil {
		pk = short(f.Pkg.Pkg.Path())
	} else if o := f.Origin(); o != nil && o.Pkg != nil {
		pk = short(o.Pkg.Pkg.Path())
	} else if f.Object() != nil && f.Object().Pkg() != nil {
		pk = short(f.Object().Pkg().Path())
	}
	if recv := f.Signature.Recv(); recv != nil {
		t := recv.Type()
		if p, ok := t.(*types.Pointer); ok {
			t = p.Elem()
		}
		tn := t.String()
		if n, ok := t.(*types.Named); ok {
			tn = n.Obj().Name()
		}
		return pk + "." + tn + "." + f.Name()
	}
	return pk + "." + f.Name()
}
