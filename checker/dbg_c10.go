package main

import (
	"fmt"

	"golang.org/x/tools/go/ssa"
)

func debugC10(w *World) {
	for _, n := range []string{"Announcer.Announce", "UnreadyMembers"} {
		fn := w.Fn("pkg/protocol/announcer", n)
		leaks, loops := MapOrderLeaks(fn)
		fmt.Println(n, "loops", loops)
		for _, l := range leaks {
			fmt.Println("  leak", l.Sink, w.Pos(l.Use.Pos()), l.Use)
		}
		for _, c := range CallsMatching(fn, `^sort\.Slice$`) {
			fmt.Println("  sort arg", Desc(c.Common().Args[0]))
		}
		for _, b := range fn.Blocks {
			if ret, ok := b.Instrs[len(b.Instrs)-1].(*ssa.Return); ok {
				fmt.Println("  ret", Desc(RetResults(ret)[0]))
			}
		}
	}
	fn := w.Fn("pkg/tbtc", "signingRetryLoop.start")
	for _, st := range receiverFieldStores(fn, "attemptCounter") {
		fmt.Println("counter store", Affine(st.Val).String(), Facts(st.Block()), dominatesAllLoopBlocks(fn, st.Block()), st.Block().Index)
	}
	for _, l := range Loops(fn) {
		fmt.Println(" loop header", l.Header.Index, len(l.Blocks), l.Kind)
	}
}
