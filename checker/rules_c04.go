package main

import (
	"fmt"
	"go/token"
	"go/types"
	"strings"

	"golang.org/x/tools/go/ssa"
)

// mayReturnNil computes which pointer-returning functions of a package can
// return nil for "no result": a nil constant on some return, the result of
// big.Int.ModSqrt (nil when there is no root), or the result of another such
// function.
func mayReturnNil(fns []*ssa.Function) map[*ssa.Function]string {
	out := map[*ssa.Function]string{}
	for changed := true; changed; {
		changed = false
		for _, f := range fns {
			if _, done := out[f]; done || f.Signature.Results().Len() != 1 {
				continue
			}
			if _, isPtr := f.Signature.Results().At(0).Type().Underlying().(*types.Pointer); !isPtr {
				continue
			}
			for _, b := range f.Blocks {
				ret, ok := b.Instrs[len(b.Instrs)-1].(*ssa.Return)
				if !ok {
					continue
				}
				v := RetResults(ret)[0]
				why := ""
				switch x := v.(type) {
				case *ssa.Const:
					if x.IsNil() {
						why = "returns nil"
					}
				case *ssa.Call:
					if CalleeName(x) == "math/big.Int.ModSqrt" {
						why = "returns big.Int.ModSqrt's result (nil when there is no square root)"
					} else if c := staticCallee(x); c != nil {
						if w, ok := out[c]; ok {
							why = "returns " + FnName(c) + " which " + w
						}
					}
				}
				if why != "" {
					out[f] = why
					changed = true
					break
				}
			}
		}
	}
	return out
}

func init() {
	const ap = "pkg/altbn128"
	register(&Prop{
		ID:        "C04",
		Technique: "static analysis: loop classification (range / counted / big.Int shift vs data-dependent search), index-totality guards, nil-on-failure flow, over the functions reachable from the decompression entry points (go/ssa)",
		Explanation: "pkg/altbn128, functions reachable from DecompressToG1, DecompressToG2 and the two Compress methods: (1) every loop reachable from the two decompression entry points is bounded by construction — a range loop, a counted loop against a loop-invariant bound, or a big.Int loop whose only update is a right shift by a positive constant while the value is positive; a loop that runs until a data predicate holds (the former square-root search in GF(p²), which never ends for non-residues) is reported; " +
			"(2) every index/slice expression there is on the entry point's input parameter (the property's 'well-sized' precondition), has a constant position within a value of statically known size (make with a constant, fixed-size Marshal results — assumption), is bounded by a dominating comparison, or — for the `arr[len(arr)-1]` shape on big.Int.Bytes() — is dominated by a non-empty check; " +
			"(3) the result of every helper that can return nil for 'no root' is nil-checked before it is dereferenced or returned as success.",
		NotDecided: "round-trip equality Compress/Decompress; that the decompressed point lies on the curve / in the subgroup (bn256 checks); termination of G1HashToPoint's try-and-increment search, which is number-theoretic (about half of all x have a y) and not claimed.",
		Fn: func(r *Run) {
			r.Rule("C04.bounded-loops", "loops reachable from DecompressToG1/G2 are bounded by construction", 2)
			r.Rule("C04.total-index", "index expressions cannot go out of range for well-sized inputs", 8)
			r.Rule("C04.failure-results", "nil 'no root' results are checked before use", 2)
			d1 := r.MustFn("C04.bounded-loops", ap, "DecompressToG1")
			d2 := r.MustFn("C04.bounded-loops", ap, "DecompressToG2")
			c1 := r.MustFn("C04.total-index", ap, "G1Point.Compress")
			c2 := r.MustFn("C04.total-index", ap, "G2Point.Compress")
			if d1 == nil || d2 == nil || c1 == nil || c2 == nil {
				return
			}
			dec := ReachableIn([]*ssa.Function{d1, d2}, 8)
			all := ReachableIn([]*ssa.Function{d1, d2, c1, c2}, 8)
			entry := map[*ssa.Function]bool{d1: true, d2: true}

			for _, fn := range dec {
				for _, l := range Loops(fn) {
					construct := fmt.Sprintf("%s#loop@block%d", FnName(fn), l.Header.Index)
					pos := l.Header.Instrs[len(l.Header.Instrs)-1].Pos()
					for _, in := range l.Header.Instrs {
						if in.Pos().IsValid() {
							pos = in.Pos()
							break
						}
					}
					if l.Kind == "search" {
						r.Fail("C04.bounded-loops", construct, pos, "the loop runs until a data condition holds ("+l.Why+"); nothing bounds the number of rounds, so an input for which the condition never holds makes decompression hang", []string{"counted loop with a constant bound"}, nil)
					} else {
						r.Ok("C04.bounded-loops", construct, pos, l.Kind+": "+l.Why)
					}
				}
			}

			// index totality
			for _, fn := range all {
				EachInstr(fn, func(in ssa.Instruction) {
					var base, idx ssa.Value
					kind := "index"
					switch x := in.(type) {
					case *ssa.IndexAddr:
						base, idx = x.X, x.Index
					case *ssa.Index:
						base, idx = x.X, x.Index
					case *ssa.Slice:
						if _, isSl := x.X.Type().Underlying().(*types.Slice); !isSl {
							return // slicing an array pointer: bounds are static
						}
						base = x.X
						kind = "slice"
						if x.High != nil {
							idx = x.High
						} else if x.Low != nil {
							idx = x.Low
						} else {
							return
						}
					default:
						return
					}
					if isLocalTemp(base) {
						if _, isArr := base.Type().Underlying().(*types.Pointer); isArr {
							return // compiler-made array (varargs, composite literal)
						}
					}
					if p, ok := base.Type().Underlying().(*types.Pointer); ok {
						if _, isArr := p.Elem().Underlying().(*types.Array); isArr {
							if _, isC := constInt(idx); isC {
								return // constant index into an array: checked by the compiler
							}
						}
					}
					construct := FnName(fn) + "#" + kind + "/" + abbr(Desc(base), 1) + "[" + abbr(Desc(idx), 1) + "]"
					// (a) the entry point's own input
					if p, ok := base.(*ssa.Parameter); ok && entry[fn] {
						if _, isC := constInt(idx); isC {
							r.Ok("C04.total-index", construct, in.Pos(), "constant position in the input parameter "+p.Name()+" (well-sized precondition)")
							return
						}
					}
					// (b) constant position in a value of statically known size
					if k, isC := constInt(idx); isC {
						if n, why := knownLen(base); n >= 0 && (k < n || (kind == "slice" && k <= n)) {
							r.Ok("C04.total-index", construct, in.Pos(), fmt.Sprintf("constant %d within %s", k, why))
							return
						}
					}
					// (c) bounded by a dominating comparison with a constant within the known size, or with len(base)
					for _, g := range CmpGuards(in.Block()) {
						if stripConv(g.Lo) != stripConv(idx) || !g.Strict {
							continue
						}
						if s := isLenOf(g.Hi); s != nil && sameValue(s, base) {
							r.Ok("C04.total-index", construct, in.Pos(), "index < len(base)")
							return
						}
						if k, isC := constInt(g.Hi); isC {
							if n, why := knownLen(base); n >= 0 && k <= n {
								r.Ok("C04.total-index", construct, in.Pos(), fmt.Sprintf("index < %d within %s", k, why))
								return
							}
						}
					}
					// (d) last element: len(base) − 1 under a non-empty guard
					if c, ts := AffineTerms(idx); c == -1 && len(ts) == 1 && ts[0].K == 1 {
						if s := isLenOf(ts[0].V); s != nil && sameValue(s, base) {
							nonEmpty := false
							for _, g := range Guards(in.Block()) {
								bo, ok := g.Cond.(*ssa.BinOp)
								if !ok {
									continue
								}
								for _, side := range [][2]ssa.Value{{bo.X, bo.Y}, {bo.Y, bo.X}} {
									if l := isLenOf(side[0]); l != nil && sameValue(l, base) {
										if k, isC := constInt(side[1]); isC && k == 0 {
											eqZero := bo.Op == token.EQL
											neZero := bo.Op == token.NEQ || bo.Op == token.GTR || bo.Op == token.LSS
											if (eqZero && !g.Pol) || (neZero && g.Pol) {
												nonEmpty = true
											}
										}
									}
								}
							}
							if nonEmpty {
								r.Ok("C04.total-index", construct, in.Pos(), "last element under a non-empty guard")
							} else {
								r.Fail("C04.total-index", construct, in.Pos(), "last-element access on a slice that is empty for the value zero (big.Int.Bytes() of 0 is empty): index −1 panics", []string{"len(x) != 0 guard"}, nil)
							}
							return
						}
					}
					r.Fail("C04.total-index", construct, in.Pos(), "index not shown to be in range", nil, nil)
				})
			}

			// nil 'no root' results
			var pkgFns []*ssa.Function
			for _, f := range r.W.AllFuncs {
				if f.Pkg != nil && f.Pkg == d1.Pkg {
					pkgFns = append(pkgFns, f)
				}
			}
			nilable := mayReturnNil(pkgFns)
			n := 0
			for _, fn := range pkgFns {
				// values that may be nil: results of nilable helpers, and phis fed by one on an unguarded edge
				nv := map[ssa.Value]string{}
				EachInstr(fn, func(in ssa.Instruction) {
					if c, ok := in.(*ssa.Call); ok {
						if callee := staticCallee(c); callee != nil {
							if why, isN := nilable[callee]; isN {
								nv[c] = FnName(callee) + " " + why
							}
						}
					}
				})
				for changed := true; changed; {
					changed = false
					EachInstr(fn, func(in ssa.Instruction) {
						phi, ok := in.(*ssa.Phi)
						if !ok || nv[phi] != "" {
							return
						}
						for i, e := range phi.Edges {
							if why, isN := nv[e]; isN && !nonNilGuarded(phi.Block().Preds[i], e) {
								// the edge itself may still carry the branch condition e != nil
								ok2 := false
								for _, g := range expand(edgeGuards(phi.Block().Preds[i], phi.Block()), 2) {
									if bo, isB := g.Cond.(*ssa.BinOp); isB && (bo.X == e || bo.Y == e) && (isNilConst(bo.X) || isNilConst(bo.Y)) {
										if (bo.Op == token.NEQ && g.Pol) || (bo.Op == token.EQL && !g.Pol) {
											ok2 = true
										}
									}
								}
								if !ok2 {
									nv[phi] = why
									changed = true
								}
							}
						}
					})
				}
				for v, why := range nv {
					if v.Referrers() == nil {
						continue
					}
					for _, ref := range *v.Referrers() {
						use := ""
						switch u := ref.(type) {
						case *ssa.FieldAddr:
							if u.X == v {
								use = "field access"
							}
						case ssa.CallInstruction:
							if cn := CalleeName(u); !strings.HasPrefix(cn, "builtin:") {
								for _, a := range u.Common().Args {
									if a == v {
										use = "argument of " + shortCallee(u)
									}
								}
							}
						case *ssa.Store:
							if u.Val == v {
								use = "stored for later use"
							}
						case *ssa.Return:
							if _, self := nilable[fn]; !self {
								use = "returned"
							}
						}
						if use == "" {
							continue
						}
						n++
						construct := FnName(fn) + "#" + abbr(Desc(v), 0) + "/" + use
						r.Cond(nonNilGuarded(ref.Block(), v), "C04.failure-results", construct, ref.Pos(), why+"; the value must be nil-checked before it is "+use)
					}
				}
			}
			if n == 0 {
				r.Undecided("C04.failure-results", ap, "no use of a nilable helper result found")
			}

			// errors of fallible calls on the decompression paths are not dropped:
			// "returns a valid point or an error" fails when a failed conversion is
			// reported as success
			r.Rule("C04.errors", "the error of every fallible call reachable from DecompressToG1/G2 is returned or tested", 2)
			for _, fn := range dec {
				EachInstr(fn, func(in ssa.Instruction) {
					c, ok := in.(*ssa.Call)
					if !ok {
						return
					}
					res := c.Call.Signature().Results()
					if res.Len() == 0 {
						return
					}
					last := res.At(res.Len() - 1).Type()
					if nt, isN := last.(*types.Named); !isN || nt.Obj().Name() != "error" || nt.Obj().Pkg() != nil {
						return
					}
					used := false
					var errVal ssa.Value = c
					if res.Len() > 1 {
						errVal = nil
						for _, ref := range *c.Referrers() {
							if ex, ok := ref.(*ssa.Extract); ok && ex.Index == res.Len()-1 {
								errVal = ex
							}
						}
						// returned as a whole tuple (return f(x))
						for _, ref := range *c.Referrers() {
							if _, isRet := ref.(*ssa.Return); isRet {
								used = true
							}
						}
					}
					if errVal != nil && errVal.Referrers() != nil {
						for _, ref := range *errVal.Referrers() {
							switch ref.(type) {
							case *ssa.Return, *ssa.BinOp, *ssa.Phi, *ssa.Store, *ssa.MakeInterface:
								used = true
							}
						}
					}
					if !used && errorExcludedAtSite(c) {
						r.Ok("C04.errors", FnName(fn)+"#"+shortCallee(c), in.Pos(), "dropped, but the callee's only failure condition is excluded by a dominating length check at the call site")
						return
					}
					r.Cond(used, "C04.errors", FnName(fn)+"#"+shortCallee(c), in.Pos(), "the error result must be returned or compared with nil; dropping it reports a failed conversion as success")
				})
			}

			// determinism: hashing and (de)compression depend on their arguments only
			r.Rule("C04.pure", "hash-to-point and (de)compression read no run-time-mutable package state", 3)
			written := runtimeWrittenGlobals(r.W)
			hp := r.MustFn("C04.pure", ap, "G1HashToPoint")
			for _, root := range []*ssa.Function{hp, d1, d2} {
				if root == nil {
					continue
				}
				var bad []string
				reach := ReachableIn([]*ssa.Function{root}, 8)
				for _, f := range reach {
					EachInstr(f, func(in ssa.Instruction) {
						for _, op := range in.Operands(nil) {
							if g, ok := (*op).(*ssa.Global); ok {
								if w, isW := written[g]; isW {
									bad = append(bad, g.Name()+" (written by "+w+")")
								}
							}
						}
					})
				}
				r.Cond(len(bad) == 0, "C04.pure", FnName(root)+"#globals", root.Pos(), fmt.Sprintf("%d function(s) reachable; run-time-written package variables used: %s", len(reach), strings.Join(bad, ", ")))
			}
		},
	})
}

func init() {
	witness(Witness{Prop: "C04", Name: "unbounded-root-search", File: "pkg/altbn128/altbn128.go",
		Old: "for i := 0; i < 16; i++ {\n\t\tif x2y(x, y) {\n\t\t\treturn y\n\t\t}", New: "for i := 0; i < 16 || !x2y(x, y); i++ {\n\t\tif x2y(x, y) {\n\t\t\treturn y\n\t\t}",
		Rule: "C04.bounded-loops"})
	witness(Witness{Prop: "C04", Name: "yparity-without-empty-guard", File: "pkg/altbn128/altbn128.go",
		Old: "if len(arr) == 0 {\n\t\treturn 0\n\t}", New: "if len(arr) == 0 && y == nil {\n\t\treturn 0\n\t}",
		Rule: "C04.total-index"})
	witness(Witness{Prop: "C04", Name: "g2-ignores-missing-root", File: "pkg/altbn128/altbn128.go",
		Old: "if y == nil {\n\t\treturn nil, errors.New(\"failed to decompress G2\")", New: "if y == nil && len(m) == 0 {\n\t\treturn nil, errors.New(\"failed to decompress G2\")",
		Rule: "C04.failure-results"})
}

// errorExcludedAtSite: the repository callee returns a non-nil error only on
// paths guarded by `c < len(Pk)`, and the call site is dominated by
// `len(arg_k) ≤ c'` with c' ≤ c for a value described like the actual
// argument (the "cannot happen" belief is backed by a check).
func errorExcludedAtSite(c *ssa.Call) bool {
	callee := staticCallee(c)
	if callee == nil || callee.Blocks == nil {
		return false
	}
	n := callee.Signature.Results().Len()
	paths := ReturnPaths(callee, n-1, func(v ssa.Value) bool { return !isNilConst(v) })
	if len(paths) == 0 {
		return false
	}
	for _, p := range paths {
		excluded := false
		for _, g := range cmpOf(Guards(p.Ret.Block())) {
			if !g.Strict {
				continue
			}
			bound, isC := constInt(g.Lo)
			arg := isLenOf(g.Hi)
			if !isC || arg == nil {
				continue
			}
			prm, isP := arg.(*ssa.Parameter)
			if !isP {
				continue
			}
			actual := c.Call.Args[paramIndex(prm)]
			for _, sg := range cmpOf(Guards(c.Block())) {
				if sg.Strict {
					continue
				}
				hi, isC2 := constInt(sg.Hi)
				if a := isLenOf(sg.Lo); a != nil && isC2 && hi <= bound && Desc(a) == Desc(actual) {
					excluded = true
				}
			}
		}
		if !excluded {
			return false
		}
	}
	return true
}

// knownLen: statically known length of a slice value: make([]T, N) with a
// constant N, or the fixed-size Marshal() results of bn256 points (64 bytes
// for G1, 128 for G2 — library contract, stated as an assumption).
func knownLen(v ssa.Value) (int64, string) {
	switch x := v.(type) {
	case *ssa.MakeSlice:
		if n, ok := constInt(x.Len); ok {
			return n, fmt.Sprintf("make(…, %d)", n)
		}
	case *ssa.Slice:
		// x[:] of an array
		if p, ok := x.X.Type().Underlying().(*types.Pointer); ok {
			if a, ok := p.Elem().Underlying().(*types.Array); ok && x.Low == nil {
				if x.High == nil {
					return a.Len(), "array"
				}
				if n, isC := constInt(x.High); isC && n <= a.Len() {
					return n, fmt.Sprintf("make(…, %d)", n)
				}
			}
		}
	case *ssa.Call:
		switch CalleeName(x) {
		case "github.com/ethereum/go-ethereum/crypto/bn256/cloudflare.G1.Marshal":
			return 64, "G1.Marshal() (64 bytes)"
		case "github.com/ethereum/go-ethereum/crypto/bn256/cloudflare.G2.Marshal":
			return 128, "G2.Marshal() (128 bytes)"
		}
	}
	return -1, ""
}
