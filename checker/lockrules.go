package main

import (
	"fmt"
	"go/token"
	"strings"

	"golang.org/x/tools/go/ssa"
)

// FieldUnderLock: every access to rel.typ.field (outside functions that
// allocate the struct themselves) happens while <same object>.<lockField> is
// held, in the accessing function or at every call site of it (caller-holds,
// followed up to two levels). Returns the number of accesses inspected.
func (r *Run) FieldUnderLock(rule, rel, typ, field, lockField string, exempt map[string]string) int {
	accs := r.W.FieldAccesses(rel, typ, field)
	n := 0
	for _, a := range accs {
		if a.Kind == "addr" {
			continue
		}
		name := FnName(a.Fn)
		construct := fmt.Sprintf("%s#%s.%s:%s", name, typ, field, a.Kind)
		if why, ok := exempt[name]; ok {
			r.Ok(rule, construct, a.Instr.Pos(), "exempt: "+why)
			n++
			continue
		}
		top := a.Fn
		for top.Parent() != nil {
			top = top.Parent()
		}
		if allocatesType(top, rel, typ) {
			r.Ok(rule, construct, a.Instr.Pos(), "constructor: the object is not shared yet")
			n++
			continue
		}
		base := Desc(a.Base)
		want := strings.TrimPrefix(base, "&") + "." + lockField
		n++
		wantExclusive = a.Write
		held := heldIn(a.Fn, a.Instr, want)
		var callers bool
		var why string
		if !held {
			callers, why = callersHold(r.W, a.Fn, base, lockField, 2)
		}
		wantExclusive = false
		if held {
			r.Ok(rule, construct, a.Instr.Pos(), "holds "+want)
			continue
		}
		if callers {
			r.Ok(rule, construct, a.Instr.Pos(), "caller holds: "+why)
			continue
		}
		if a.Write && heldIn(a.Fn, a.Instr, want) {
			r.Fail(rule, construct, a.Instr.Pos(), "write to "+typ+"."+field+" while "+want+" is held in shared (RLock) mode only", []string{want + " (exclusive)"}, LocksHeld(a.Fn)[a.Instr])
			continue
		}
		r.Fail(rule, construct, a.Instr.Pos(), "access to "+typ+"."+field+" without holding "+want, []string{want}, LocksHeld(a.Fn)[a.Instr])
	}
	return n
}

// wantExclusive is set while a write access is being judged: a lock held
// through RLock does not count then.
var wantExclusive bool

func heldIn(fn *ssa.Function, in ssa.Instruction, want string) bool {
	held := LocksHeld(fn)[in]
	found := false
	for _, h := range held {
		if h == want {
			found = true
		}
	}
	if found && wantExclusive {
		for _, h := range held {
			if h == want+sharedSuffix {
				return false
			}
		}
	}
	return found
}

// callersHold: fn accesses <base>.<field> where base is described in terms of
// fn's parameters (or, for a closure, its creator's values: up(X)); every call
// site must hold <actual base>.<lockField>.
func callersHold(w *World, fn *ssa.Function, base, lockField string, depth int) (bool, string) {
	if depth == 0 {
		return false, ""
	}
	if fn.Parent() != nil {
		// closure: look at the static calls of it inside its creator
		m := re(`^up\((.*)\)((?:\.\w+)*)$`).FindStringSubmatch(base)
		if m == nil {
			return false, ""
		}
		actual := m[1] + m[2]
		par := fn.Parent()
		var names []string
		n := 0
		ok := true
		EachInstr(par, func(in ssa.Instruction) {
			c, isCall := in.(ssa.CallInstruction)
			if !isCall || staticCallee(c) != fn {
				return
			}
			n++
			call, plain := in.(*ssa.Call)
			if !plain {
				ok = false
				return
			}
			want := strings.TrimPrefix(actual, "&") + "." + lockField
			if heldIn(par, call, want) {
				names = append(names, FnName(par))
				return
			}
			if ok2, _ := callersHold(w, par, actual, lockField, depth-1); ok2 {
				names = append(names, FnName(par)+"(its callers)")
				return
			}
			ok = false
		})
		// the closure must not escape (every MakeClosure referrer is a call of it or a store to a local called later)
		if n == 0 || !ok {
			return false, ""
		}
		return true, strings.Join(names, ", ")
	}
	if !re(`^P\d+(\.\w+)*$`).MatchString(base) {
		return false, ""
	}
	sites := w.Callers(fn)
	if len(sites) == 0 {
		return false, ""
	}
	var names []string
	for _, s := range sites {
		call, ok := s.(*ssa.Call)
		if !ok {
			return false, "" // go / defer of the function: no lock context
		}
		actual := substParams(base, call)
		want := strings.TrimPrefix(actual, "&") + "." + lockField
		if heldIn(call.Parent(), call, want) {
			names = append(names, FnName(call.Parent()))
			continue
		}
		if ok, _ := callersHold(w, call.Parent(), actual, lockField, depth-1); ok {
			names = append(names, FnName(call.Parent())+"(its callers)")
			continue
		}
		return false, ""
	}
	return true, strings.Join(names, ", ")
}

// PkgConst returns the exact string of a package-level constant.
func (r *Run) PkgConst(rule, rel, name string) string {
	p := r.W.ByPath[modPath+"/"+rel]
	if p == nil || p.Types == nil {
		r.Undecided(rule, rel+"."+name, "package not loaded")
		return ""
	}
	if tc := constOf(p.Types.Scope().Lookup(name)); tc != "" {
		return tc
	}
	r.Undecided(rule, rel+"."+name, "constant not found")
	return ""
}

// blockingUnder lists the instructions of fn (and of functions it calls
// statically within the package, one level) that can block for an unbounded
// time while the lock `want` is held (want == "": anywhere in fn): channel sends and receives, blocking
// selects, waits, sleeps and acquisitions of another lock. Interface calls are
// reported only when their method name is in `alsoBlocking`; acquiring a lock
// whose description matches ownLock is not reported.
func blockingUnder(fn *ssa.Function, want string, alsoBlocking map[string]bool, ownLock string) []ssa.Instruction {
	var out []ssa.Instruction
	held := LocksHeld(fn)
	EachInstr(fn, func(in ssa.Instruction) {
		has := want == ""
		for _, h := range held[in] {
			if h == want {
				has = true
			}
		}
		if !has {
			return
		}
		switch x := in.(type) {
		case *ssa.Send:
			out = append(out, in)
		case *ssa.UnOp:
			if x.Op == token.ARROW {
				out = append(out, in)
			}
		case *ssa.Select:
			if x.Blocking {
				out = append(out, in)
			}
		case *ssa.Call:
			cn := CalleeName(x)
			switch cn {
			case "sync.WaitGroup.Wait", "sync.Cond.Wait", "time.Sleep":
				out = append(out, in)
			case "sync.Mutex.Lock", "sync.RWMutex.Lock", "sync.RWMutex.RLock":
				if d := strings.TrimPrefix(Desc(x.Call.Args[0]), "&"); d != want && !(ownLock != "" && re(ownLock).MatchString(d)) {
					out = append(out, in)
				}
			default:
				if x.Call.IsInvoke() && alsoBlocking[x.Call.Method.Name()] {
					out = append(out, in)
				}
			}
		}
	})
	return out
}
