package main

import (
	"fmt"
	"strings"

	"golang.org/x/tools/go/ssa"
)

// indexOfElem: for a value that is (a field of) X[i], return X's description and i.
func indexOfElem(v ssa.Value) (string, ssa.Value) {
	for k := 0; k < 8; k++ {
		switch x := v.(type) {
		case *ssa.UnOp:
			v = x.X
		case *ssa.FieldAddr:
			v = x.X
		case *ssa.Field:
			v = x.X
		case *ssa.ChangeType:
			v = x.X
		case *ssa.Convert:
			v = x.X
		case *ssa.IndexAddr:
			return Desc(x.X), stripConv(x.Index)
		case *ssa.Index:
			return Desc(x.X), stripConv(x.Index)
		case *ssa.Call:
			// x.Bytes() etc.: look at the receiver
			if len(x.Call.Args) > 0 && !x.Call.IsInvoke() {
				v = x.Call.Args[0]
			} else {
				return "", nil
			}
		default:
			return "", nil
		}
	}
	return "", nil
}

func init() {
	const bp = "pkg/bitcoin"
	register(&Prop{
		ID:        "C27",
		Technique: "static analysis: dominator facts (signature verified before the input is touched and before a transaction is produced), index identity across the parallel vectors (inputs, sighash arguments, sighashes, signatures), pairing of AddTxIn with the sighash-argument append, who-may-write (go/ssa)",
		Explanation: "bitcoin.TransactionBuilder: (1) AddSignatures returns a transaction only after len(sigHashes) ≠ 0 and len(signatures) = len(inputs) and after the loop over all inputs; inside the loop every write to input i (witness or signature script) is dominated by ecdsa.Verify(signatures[i].PublicKey, sigHashes[i].Bytes(), signatures[i].R, signatures[i].S) = true, the serialized signature carries R and S of signatures[i] followed by SigHashAll, the key is signatures[i]'s compressed key, and the witness/legacy choice reads sigHashArgs[i].witness — all with the same i as the input; " +
			"(2) ComputeSignatureHashes stores at position i the witness sighash (scriptCode_i, SigHashAll, i, value_i) when sigHashArgs[i].witness, else the legacy sighash (scriptCode_i, SigHashAll, i), over the builder's own transaction; " +
			"(3) the two vectors stay aligned: every method that adds a TxIn appends exactly one sigHashArgs entry on every successful path (the append is reached from every AddTxIn and no successful exit bypasses both), no other code adds inputs or sighash arguments, and the entry's witness flag is IsWitnessProgram(the UTXO's own locking script), value the UTXO's value, script code the locking script (key hash) or the redeem script (script hash), after the script class was checked.",
		NotDecided: "acceptance by the Bitcoin script interpreter as such (btcd's sighash and script code); inputs added after ComputeSignatureHashes (the caller's protocol).",
		Fn: func(r *Run) {
			r.Rule("C27.verify-first", "input i written and transaction produced only after Verify(signature i, sighash i)", 6)
			r.Rule("C27.sighash", "sighash i from (script code i, value i, index i) by the witness flag i", 3)
			r.Rule("C27.parallel", "one sigHashArgs entry per TxIn; flag/value/script code from the UTXO", 8)

			if fn := r.MustFn("C27.verify-first", bp, "TransactionBuilder.AddSignatures"); fn != nil {
				name := FnName(fn)
				var ver *ssa.Call
				for _, c := range Sites(fn, `^crypto/ecdsa\.Verify$`, false) {
					ver, _ = c.(*ssa.Call)
				}
				if ver == nil {
					r.Undecided("C27.verify-first", name, "no ecdsa.Verify call")
				} else {
					a := ver.Call.Args
					var idx ssa.Value
					okIdx := true
					for k, want := range []string{"P1", "P0.sigHashes", "P1", "P1"} {
						base, i := indexOfElem(a[k])
						if base != want || i == nil {
							okIdx = false
							continue
						}
						if idx == nil {
							idx = i
						} else if idx != i {
							okIdx = false
						}
					}
					okFields := strings.HasSuffix(Desc(a[0]), ".PublicKey") && strings.HasSuffix(Desc(a[2]), ".R") && strings.HasSuffix(Desc(a[3]), ".S") && strings.HasPrefix(Desc(a[1]), "call:math/big.Int.Bytes(")
					r.Cond(okIdx && okFields, "C27.verify-first", name+"#verify-operands", ver.Pos(), "Verify(signatures[i].PublicKey, sigHashes[i].Bytes(), signatures[i].R, signatures[i].S) with one index i")
					// writes to inputs
					n := 0
					EachInstr(fn, func(in ssa.Instruction) {
						st, ok := in.(*ssa.Store)
						if !ok {
							return
						}
						ad := Desc(st.Addr)
						if !strings.Contains(ad, ".TxIn[") || !(strings.HasSuffix(ad, ".Witness") || strings.HasSuffix(ad, ".SignatureScript")) {
							return
						}
						n++
						_, wi := indexOfElem(st.Addr)
						guarded := false
						for _, g := range Guards(in.Block()) {
							if g.Cond == ssa.Value(ver) && g.Pol {
								guarded = true
							}
						}
						// the legacy/witness decision for this input
						flagOK := false
						for _, g := range Guards(in.Block()) {
							if strings.HasSuffix(Desc(g.Cond), ".witness") {
								if base, fi := indexOfElem(g.Cond); base == "P0.sigHashArgs" && fi == idx {
									flagOK = (strings.HasSuffix(ad, ".Witness") && g.Pol) || (strings.HasSuffix(ad, ".SignatureScript") && !g.Pol)
								}
							}
						}
						r.Cond(guarded && wi == idx && flagOK, "C27.verify-first", name+"#write-input/"+ad[strings.LastIndex(ad, ".")+1:], in.Pos(), "input i is written only after its signature verified, on the branch chosen by sigHashArgs[i].witness")
					})
					if n != 2 {
						r.Undecided("C27.verify-first", name+"#write-input", fmt.Sprintf("expected 2 input writes, found %d", n))
					}
					// signature / key bytes come from signatures[i]
					for _, c := range Sites(fn, `btcec\.Signature\.Serialize$`, false) {
						lit := c.Common().Args[0]
						okR, okS := false, false
						if al, isAl := lit.(*ssa.Alloc); isAl {
							for _, ref := range *al.Referrers() {
								if fa, isFA := ref.(*ssa.FieldAddr); isFA {
									for _, r2 := range *fa.Referrers() {
										if st, isSt := r2.(*ssa.Store); isSt {
											_, si := indexOfElem(st.Val)
											d := Desc(st.Val)
											if strings.HasSuffix(d, ".R") && si == idx && fieldName(fa.X.Type(), fa.Field) == "R" {
												okR = true
											}
											if strings.HasSuffix(d, ".S") && si == idx && fieldName(fa.X.Type(), fa.Field) == "S" {
												okS = true
											}
										}
									}
								}
							}
						}
						r.Cond(okR && okS, "C27.verify-first", name+"#serialized-signature", c.Pos(), "the serialized signature is (R, S) of signatures[i]")
					}
					for _, c := range Sites(fn, `btcec\.PublicKey\.SerializeCompressed$`, false) {
						_, ki := indexOfElem(c.Common().Args[0])
						r.Cond(ki == idx && strings.HasSuffix(Desc(c.Common().Args[0]), ".PublicKey"), "C27.verify-first", name+"#public-key", c.Pos(), "the key pushed is signatures[i]'s compressed public key")
					}
				}
				for _, p := range SuccessReturns(fn) {
					r.Check("C27.verify-first", name+"#return", p.Ret.Pos(), p.Facts,
						`^-\(const:0 == len\(P0\.sigHashes\)\)$`, `^\+\(len\(P0\.internal\.MsgTx\.TxIn\) == len\(P1\)\)$`, `^\+\(len\(P0\.internal\.MsgTx\.TxIn\) <= .*\)$`)
					r.NoPathFromBranch("C27.verify-first", fn, `^-call:crypto/ecdsa\.Verify\(`, 1, p.Ret, "return-after-failed-verify")
				}
			}

			if fn := r.MustFn("C27.sighash", bp, "TransactionBuilder.ComputeSignatureHashes"); fn != nil {
				name := FnName(fn)
				var idx ssa.Value
				for _, c := range Sites(fn, `txscript\.CalcWitnessSigHash$`, false) {
					a := c.Common().Args
					b0, i0 := indexOfElem(a[0])
					b5, i5 := indexOfElem(a[5])
					idx = stripConv(a[4])
					ok := b0 == "P0.sigHashArgs" && b5 == "P0.sigHashArgs" && i0 == idx && i5 == idx && strings.HasSuffix(Desc(a[0]), ".scriptCode") && strings.HasSuffix(Desc(a[5]), ".value") &&
						Desc(a[3]) == "P0.internal.MsgTx" && Desc(a[2]) == "const:1" && HasFact(Facts(c.Block()), `^\+P0\.sigHashArgs\[.*\]\.witness$`)
					r.Cond(ok, "C27.sighash", name+"#witness", c.Pos(), "CalcWitnessSigHash(scriptCode_i, fragments, SigHashAll, tx, i, value_i) under witness_i")
				}
				for _, c := range Sites(fn, `txscript\.CalcSignatureHash$`, false) {
					a := c.Common().Args
					b0, i0 := indexOfElem(a[0])
					ok := b0 == "P0.sigHashArgs" && i0 == stripConv(a[3]) && (idx == nil || i0 == idx) && Desc(a[2]) == "P0.internal.MsgTx" && Desc(a[1]) == "const:1" && HasFact(Facts(c.Block()), `^-P0\.sigHashArgs\[.*\]\.witness$`)
					r.Cond(ok, "C27.sighash", name+"#legacy", c.Pos(), "CalcSignatureHash(scriptCode_i, SigHashAll, tx, i) under ¬witness_i")
				}
				n := 0
				EachInstr(fn, func(in ssa.Instruction) {
					st, ok := in.(*ssa.Store)
					if !ok {
						return
					}
					ia, ok := st.Addr.(*ssa.IndexAddr)
					if !ok || isLocalTemp(ia.X) && !strings.Contains(Desc(ia.X), "make:") {
						return
					}
					if !strings.HasPrefix(Desc(st.Val), "call:math/big.Int.SetBytes(") {
						return
					}
					n++
					r.Cond(stripConv(ia.Index) == idx && HasFact(Facts(in.Block()), `^\+\(phi\{.*\} == nil\)$`), "C27.sighash", name+"#store", in.Pos(), "the hash computed for input i is stored at position i, only when no error occurred")
				})
				if n != 1 {
					r.Undecided("C27.sighash", name+"#store", "sighash store not found")
				}
			}

			// parallel vectors
			nAdders := 0
			for _, fn := range r.W.AllFuncs {
				adds := CallsMatching(fn, `wire\.MsgTx\.AddTxIn$`)
				var argStores []*ssa.Store
				EachInstr(fn, func(in ssa.Instruction) {
					if st, ok := in.(*ssa.Store); ok && strings.HasSuffix(Desc(st.Addr), ".sigHashArgs") && !strings.Contains(Desc(st.Addr), "local:") {
						argStores = append(argStores, st)
					}
				})
				if len(adds) == 0 && len(argStores) == 0 {
					continue
				}
				name := FnName(fn)
				// only code that works on a TransactionBuilder matters (the size
				// estimator fills a scratch transaction of its own)
				touchesBuilder := len(argStores) > 0
				EachInstr(fn, func(in ssa.Instruction) {
					for _, op := range in.Operands(nil) {
						if *op != nil {
							if n := namedOf((*op).Type()); n != nil && n.Obj().Name() == "TransactionBuilder" {
								touchesBuilder = true
							}
						}
					}
				})
				if !touchesBuilder {
					continue
				}
				if fnPkgRel(fn) != bp || !strings.HasPrefix(name, bp+".TransactionBuilder.Add") {
					if strings.HasSuffix(name, "fromTransaction") || strings.HasSuffix(name, "NewTransactionBuilder") {
						continue // conversion of an existing transaction / constructor (empty vectors)
					}
					r.Fail("C27.parallel", name+"#foreign-writer", fn.Pos(), "inputs or sighash arguments are added outside the builder's Add*Input methods", nil, nil)
					continue
				}
				nAdders++
				if len(argStores) != 1 || isAppend(argStores[0].Val) == nil {
					r.Fail("C27.parallel", name+"#one-append", fn.Pos(), fmt.Sprintf("expected exactly one append to sigHashArgs, found %d", len(argStores)), nil, nil)
					continue
				}
				ap := argStores[0]
				okPair := len(adds) >= 1
				for _, c := range adds {
					// the append follows every AddTxIn; AddTxIn sites are mutually exclusive
					if !(InstrBefore(c.(ssa.Instruction), ap) || Reaches(c.Block(), ap.Block())) {
						okPair = false
					}
					for _, c2 := range adds {
						if c2 != c && (c.Block() == c2.Block() || Reaches(c.Block(), c2.Block())) {
							okPair = false
						}
					}
				}
				// no successful return bypasses the append, and the append is not reachable without an AddTxIn
				for _, p := range SuccessReturns(fn) {
					if !InstrBefore(ap, p.Ret) {
						okPair = false
					}
				}
				entry := fn.Blocks[0]
				avoid := map[*ssa.BasicBlock]bool{}
				for _, c := range adds {
					avoid[c.Block()] = true
				}
				if reachesAvoidingSet(entry, ap.Block(), avoid) {
					okPair = false
				}
				r.Cond(okPair, "C27.parallel", name+"#paired", ap.Pos(), "every successful path adds exactly one TxIn and one sigHashArgs entry")
				// the entry's fields
				lit := appendedElem(isAppend(ap.Val))
				fields := map[string]string{}
				if al, ok := lit.(*ssa.Alloc); ok {
					for _, ref := range *al.Referrers() {
						if fa, ok := ref.(*ssa.FieldAddr); ok {
							for _, r2 := range *fa.Referrers() {
								if st, ok := r2.(*ssa.Store); ok {
									fields[fieldName(fa.X.Type(), fa.Field)] = Desc(st.Val)
								}
							}
						}
					}
				}
				script := "call:pkg/bitcoin.TransactionBuilder.getScript(P0, P1)#0"
				wantCode := script
				if strings.HasSuffix(name, "AddScriptHashInput") {
					wantCode = "P2"
				}
				r.Cond(fields["value"] == "P1.Value" && fields["scriptCode"] == wantCode && strings.HasPrefix(fields["witness"], "call:github.com/btcsuite/btcd/txscript.IsWitnessProgram("+script),
					"C27.parallel", name+"#entry", ap.Pos(), "value = UTXO value, script code = "+wantCode+", witness = IsWitnessProgram(UTXO's locking script)")
				// class check before anything is added
				for _, c := range adds {
					r.Check("C27.parallel", name+"#class-checked", c.Pos(), ImpliedFacts(c.Block(), 0), okOf(`pkg/bitcoin\.TransactionBuilder\.getScript`))
				}
				// the outpoint is the UTXO's
				okOut := false
				for _, c := range CallsMatching(fn, `wire\.NewOutPoint$`) {
					if strings.Contains(Desc(c.Common().Args[0]), "P1.Outpoint.TransactionHash") && Desc(c.Common().Args[1]) == "P1.Outpoint.OutputIndex" {
						okOut = true
					}
				}
				r.Cond(okOut, "C27.parallel", name+"#outpoint", fn.Pos(), "the input spends the UTXO's own outpoint")
			}
			if nAdders != 2 {
				r.Undecided("C27.parallel", "adders", fmt.Sprintf("expected 2 input-adding methods, found %d", nAdders))
			}
		},
	})
	witness(Witness{Prop: "C27", Name: "verify-skipped-for-witness-inputs", File: "pkg/bitcoin/transaction_builder.go",
		Old: "\t\tif !ecdsa.Verify(", New: "\t\tif !tb.sigHashArgs[i].witness && !ecdsa.Verify(", Rule: "C27.verify-first"})
	witness(Witness{Prop: "C27", Name: "sighash-args-not-appended-for-legacy-script-hash", File: "pkg/bitcoin/transaction_builder.go",
		Old: "\t} else {\n\t\ttb.internal.AddTxIn(wire.NewTxIn(outpoint, redeemScript, nil))\n\t}\n\n\ttb.sigHashArgs = append(tb.sigHashArgs, sigHashArgs)",
		New: "\t\ttb.sigHashArgs = append(tb.sigHashArgs, sigHashArgs)\n\t} else {\n\t\ttb.internal.AddTxIn(wire.NewTxIn(outpoint, redeemScript, nil))\n\t}", Rule: "C27.parallel"})
	witness(Witness{Prop: "C27", Name: "legacy-sighash-for-witness", File: "pkg/bitcoin/transaction_builder.go",
		Old: "\t\tif sigHashArgs.witness {\n\t\t\tsigHashBytes, err = txscript.CalcWitnessSigHash(", New: "\t\tif sigHashArgs.witness && i > 0 {\n\t\t\tsigHashBytes, err = txscript.CalcWitnessSigHash(", Rule: "C27.sighash"})
}

// reachesAvoidingSet: a path from a to b that enters none of the blocks in avoid.
func reachesAvoidingSet(a, b *ssa.BasicBlock, avoid map[*ssa.BasicBlock]bool) bool {
	if avoid[a] {
		return false
	}
	if a == b {
		return true
	}
	seen := map[*ssa.BasicBlock]bool{}
	stack := append([]*ssa.BasicBlock{}, a.Succs...)
	for len(stack) > 0 {
		n := stack[len(stack)-1]
		stack = stack[:len(stack)-1]
		if avoid[n] || seen[n] {
			continue
		}
		if n == b {
			return true
		}
		seen[n] = true
		stack = append(stack, n.Succs...)
	}
	return false
}
