package main

import (
	"strings"

	"golang.org/x/tools/go/ssa"
)

// runtimeWrittenGlobals: package-level variables of the repository that are
// written outside package initialisation — by a store or map update through
// them, or by handing their address to a pointer-receiver method (sync.Map,
// mutex-guarded caches …). Value: who writes.
func runtimeWrittenGlobals(w *World) map[*ssa.Global]string {
	written := map[*ssa.Global]string{}
	for _, f := range w.AllFuncs {
		if f.Name() == "init" || strings.HasPrefix(f.Name(), "init#") {
			continue
		}
		EachInstr(f, func(in ssa.Instruction) {
			switch x := in.(type) {
			case *ssa.Store:
				if g, ok := addrRoot(x.Addr).(*ssa.Global); ok {
					written[g] = FnName(f)
				}
			case *ssa.MapUpdate:
				if g, ok := addrRoot(x.Map).(*ssa.Global); ok {
					written[g] = FnName(f)
				}
			case ssa.CallInstruction:
				if a := x.Common().Args; len(a) > 0 && !x.Common().IsInvoke() {
					if g, ok := addrRoot(a[0]).(*ssa.Global); ok && x.Common().Signature().Recv() != nil {
						if _, direct := a[0].(*ssa.Global); direct || isFieldAddrOfGlobal(a[0]) {
							written[g] = FnName(f) + " via " + shortCallee(x)
						}
					}
				}
			}
		})
	}
	return written
}

// isFieldAddrOfGlobal: &global.field… (address arithmetic only, no load).
func isFieldAddrOfGlobal(v ssa.Value) bool {
	for {
		switch x := v.(type) {
		case *ssa.FieldAddr:
			v = x.X
		case *ssa.Global:
			return true
		default:
			return false
		}
	}
}

// dependsOnGlobal: v is loaded from (or looked up in) a package-level variable.
func dependsOnGlobal(v ssa.Value) bool {
	seen := map[ssa.Value]bool{}
	var walk func(v ssa.Value, d int) bool
	walk = func(v ssa.Value, d int) bool {
		if v == nil || d == 0 || seen[v] {
			return false
		}
		seen[v] = true
		switch x := v.(type) {
		case *ssa.Global:
			return true
		case *ssa.UnOp:
			return walk(x.X, d-1)
		case *ssa.Lookup:
			return walk(x.X, d-1)
		case *ssa.Extract:
			return walk(x.Tuple, d-1)
		case *ssa.FieldAddr:
			return walk(x.X, d-1)
		case *ssa.IndexAddr:
			return walk(x.X, d-1)
		case *ssa.Index:
			return walk(x.X, d-1)
		case *ssa.Field:
			return walk(x.X, d-1)
		case *ssa.TypeAssert:
			return walk(x.X, d-1)
		case *ssa.ChangeInterface:
			return walk(x.X, d-1)
		case *ssa.MakeInterface:
			return walk(x.X, d-1)
		case *ssa.Phi:
			for _, e := range x.Edges {
				if walk(e, d-1) {
					return true
				}
			}
		}
		return false
	}
	return walk(v, 10)
}
