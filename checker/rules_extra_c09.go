package main

import (
	"fmt"
	"strings"

	"golang.org/x/tools/go/ssa"
)

// C09.quota (added after seed C09-4): "keeps at least the requested number of
// seats" is one inequality used at three places of key-generation retry — the
// single-operator stage in the caller and the pair / triplet helpers:
//   requested ≤ len(group members) − Σ seats of the excluded operators.
// The helpers take the requested count as a parameter, so both ends must give
// the parameter the same meaning: inside each helper the eligibility guard has
// that shape over the helper's own parameters, and every call site passes
// int(retryParticipantsCount) and the member list themselves.
func init() {
	extend("C09", func(r *Run) {
		const rp = "pkg/tecdsa/retry"
		r.Rule("C09.quota", "requested seat count ≤ seats left after the exclusion, with the same meaning at the caller and in the pair/triplet helpers", 5)
		// shape of an eligibility guard over (quota, members): quota ≤ len(members) − Σ seatCount[…]
		shape := func(fn *ssa.Function, quota, members string) (bool, string) {
			found := false
			why := "no guard `" + quota + " ≤ len(" + members + ") − Σ seats` found"
			for _, b := range fn.Blocks {
				for _, g := range CmpGuards(b) {
					if g.Strict || Desc(g.Lo) != quota {
						continue
					}
					c, ts := AffineTerms(g.Hi)
					okLen, okNeg, n := false, true, 0
					for _, t := range ts {
						if l := isLenOf(t.V); l != nil && Desc(l) == members && t.K == 1 {
							okLen = true
							continue
						}
						n++
						if t.K != -1 || !strings.Contains(Desc(t.V), "[") {
							okNeg = false
						}
					}
					if okLen && n > 0 {
						if c == 0 && okNeg {
							found = true
						} else {
							why = "guard found but its right side is not len(" + members + ") minus seat counts: " + abbr(Desc(g.Hi), 2)
						}
					}
				}
			}
			return found, why
		}
		caller := r.MustFn("C09.quota", rp, "EvaluateRetryParticipantsForKeyGeneration")
		if caller == nil {
			return
		}
		var qp string
		for i, p := range caller.Params {
			if p.Name() == "retryParticipantsCount" {
				qp = fmt.Sprintf("conv:int(P%d)", i)
			}
		}
		if qp == "" {
			r.Undecided("C09.quota", FnName(caller), "parameter retryParticipantsCount not found")
			return
		}
		ok, why := shape(caller, qp, "P0")
		r.Cond(ok, "C09.quota", FnName(caller)+"#singles", caller.Pos(), "single-operator stage: "+why)
		for _, hn := range []string{"excludeOperatorPairs", "excludeOperatorTriplets"} {
			h := r.MustFn("C09.quota", rp, hn)
			if h == nil {
				continue
			}
			// which helper parameters are the quota and the member list is read off the (unique) call site
			sites := Sites(caller, `^pkg/tecdsa/retry\.`+hn+`$`, false)
			if len(sites) != 1 {
				r.Undecided("C09.quota", FnName(h)+"#call", fmt.Sprintf("expected one call from the key-generation retry, found %d", len(sites)))
				continue
			}
			args := sites[0].Common().Args
			qi, mi := -1, -1
			for i, a := range args {
				switch Desc(a) {
				case qp:
					qi = i
				case "P0":
					mi = i
				}
			}
			r.Cond(qi >= 0 && mi >= 0, "C09.quota", FnName(h)+"#call", sites[0].Pos(), "the call passes int(retryParticipantsCount) and the member list themselves")
			if qi < 0 || mi < 0 {
				continue
			}
			ok, why := shape(h, fmt.Sprintf("P%d", qi), fmt.Sprintf("P%d", mi))
			r.Cond(ok, "C09.quota", FnName(h)+"#guard", h.Pos(), "the helper reads that argument as the minimum number of seats to keep: "+why)
		}
	})
	witness(Witness{Prop: "C09", Name: "pairs-quota-as-budget", File: "pkg/tecdsa/retry/retry.go",
		Old: "\tusedOperators, tries, ok = excludeOperatorPairs(\n\t\trng,\n\t\tgroupMembers,\n\t\tint(remainingTries),\n\t\toperatorToSeatCount,\n\t\toperators,\n\t\tint(retryParticipantsCount),",
		New: "\tusedOperators, tries, ok = excludeOperatorPairs(\n\t\trng,\n\t\tgroupMembers,\n\t\tint(remainingTries),\n\t\toperatorToSeatCount,\n\t\toperators,\n\t\tlen(groupMembers)-int(retryParticipantsCount),", Rule: "C09.quota"})
}
