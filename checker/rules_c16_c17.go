package main

import (
	"go/types"
	"strings"

	"golang.org/x/tools/go/ssa"
)

// goTargets: functions started by `go` statements in fn (closures or named).
func goTargets(fn *ssa.Function) map[*ssa.Function]*ssa.Go {
	out := map[*ssa.Function]*ssa.Go{}
	EachInstr(fn, func(in ssa.Instruction) {
		if g, ok := in.(*ssa.Go); ok {
			if f := staticCallee(g); f != nil {
				out[f] = g
			}
		}
	})
	return out
}

func init() {
	register(&Prop{
		ID:        "C16",
		Technique: "static analysis: must-hold locksets (single critical section for the duplicate filter), dominator guard facts on handler invocation, atomic-only access of the sequence counters (go/ssa)",
		Explanation: "WithRetransmissionSupport: the handler closure reads and updates the seen-cache inside one critical section (one Lock, one Unlock, both map accesses with the lock held), the delegate is called only under 'not seen before', and the cache key is built from the message's transport sender id and sequence number. " +
			"Both channel implementations (libp2p, local): Recv calls the user's handler only through that filter and only under handler ctx.Err() == nil; the handler list is touched only under messageHandlersMutex; the sequence counter is touched only through sync/atomic.AddUint64 in nextSeqno, and each Send takes exactly one fresh nextSeqno() per message on every path that publishes.",
		NotDecided: "ordering between a cancellation and a handler call already in progress; libp2p pubsub's own delivery semantics; uint64 wrap-around of the counter.",
		Fn: func(r *Run) {
			r.Rule("C16.dedup", "test-and-set of the seen-cache in one critical section; the set only grows; delegate ⇐ ¬seen; key = sender ‖ seqno", 5)
			r.Rule("C16.cancel", "user handler called only via the duplicate filter and under ctx.Err()==nil", 4)
			r.Rule("C16.handlers", "messageHandlers only under messageHandlersMutex", 8)
			r.Rule("C16.seqno", "counter only via atomic.AddUint64; one nextSeqno per Send", 6)
			if cl := r.MustFn("C16.dedup", "pkg/net/retransmission", "WithRetransmissionSupport$1"); cl != nil {
				locks := Sites(cl, `^sync\.Mutex\.Lock$`, false)
				unlocks := Sites(cl, `^sync\.Mutex\.Unlock$`, false)
				r.Cond(len(locks) == 1 && len(unlocks) == 1, "C16.dedup", FnName(cl)+"#one-section", cl.Pos(), "exactly one Lock/Unlock pair: the test and the set cannot be split")
				// the seen-set only grows: no delete/clear, and the captured map variable is never replaced
				shrinks := 0
				EachInstr(cl, func(in ssa.Instruction) {
					switch x := in.(type) {
					case *ssa.Store:
						if _, isFree := x.Addr.(*ssa.FreeVar); isFree {
							shrinks++
						}
					case *ssa.Call:
						if n := CalleeName(x); n == "builtin:delete" || n == "builtin:clear" {
							shrinks++
						}
					}
				})
				r.Cond(shrinks == 0, "C16.dedup", FnName(cl)+"#cache-only-grows", cl.Pos(), "an entry of the seen-set must never be dropped or the set replaced (a retransmission of a forgotten message would be delivered again)")
				held := LocksHeld(cl)
				var lookup *ssa.Lookup
				var update *ssa.MapUpdate
				EachInstr(cl, func(in ssa.Instruction) {
					switch x := in.(type) {
					case *ssa.Lookup:
						if _, isMap := x.X.Type().Underlying().(*types.Map); isMap {
							lookup = x
						}
					case *ssa.MapUpdate:
						update = x
					}
				})
				if lookup == nil || update == nil {
					r.Undecided("C16.dedup", FnName(cl), "cache lookup/update not found")
				} else {
					r.Cond(len(held[lookup]) == 1 && len(held[update]) == 1 && held[lookup][0] == held[update][0] && Desc(lookup.X) == Desc(update.Map) && Desc(lookup.Index) == Desc(update.Key),
						"C16.dedup", FnName(cl)+"#test-and-set", update.Pos(), "lookup and insert of the same key in the same map under the same lock")
					key := Desc(update.Key)
					r.Cond(strings.Contains(key, "TransportSenderID") && strings.Contains(key, "Seqno(P0)") || keyFromSprintf(update.Key),
						"C16.dedup", FnName(cl)+"#key", update.Pos(), "cache key must combine the transport sender id and the sequence number")
					// delegate call
					n := 0
					EachInstr(cl, func(in ssa.Instruction) {
						c, ok := in.(*ssa.Call)
						if !ok || CalleeName(c) != "dyn" {
							return
						}
						n++
						r.Check("C16.dedup", FnName(cl)+"#delegate", c.Pos(), Facts(c.Block()), `^-`+q(Desc(lookup))+`#1$`)
						r.Cond(len(held[c]) == 0, "C16.dedup", FnName(cl)+"#delegate-unlocked", c.Pos(), "delegate runs outside the critical section")
					})
					if n != 1 {
						r.Undecided("C16.dedup", FnName(cl)+"#delegate", "expected one delegate call")
					}
				}
			}
			for _, ch := range [][2]string{{"pkg/net/libp2p", "channel"}, {"pkg/net/local", "localChannel"}} {
				rel, typ := ch[0], ch[1]
				recv := r.MustFn("C16.cancel", rel, typ+".Recv")
				if recv != nil {
					n := 0
					for _, f := range WithClosures(recv) {
						EachInstr(f, func(in ssa.Instruction) {
							c, ok := in.(ssa.CallInstruction)
							if !ok || CalleeName(c) != "dyn" {
								return
							}
							callee := Desc(c.Common().Value)
							if re(`^(?:up\()?P2\)?$`).MatchString(callee) {
								r.Fail("C16.cancel", FnName(f)+"#direct-handler-call", c.Pos(), "user handler called without the duplicate filter", nil, nil)
								return
							}
							if !strings.Contains(callee, "WithRetransmissionSupport(P2)") {
								return
							}
							n++
							r.Check("C16.cancel", FnName(f)+"#handler-call", c.Pos(), Facts(c.Block()),
								`^\+\(invoke:context\.Context\.Err\(.*\.ctx\) == nil\)$`)
						})
					}
					if n == 0 {
						r.Undecided("C16.cancel", FnName(recv), "no filtered handler call found")
					}
					// the handler's ctx is the Recv ctx
					okCtx := false
					for _, sl := range structLits(recv, rel, "messageHandler") {
						if v := sl.Fields["ctx"]; v != nil && Desc(v) == "P1" {
							okCtx = true
						}
					}
					r.Cond(okCtx, "C16.cancel", FnName(recv)+"#ctx", recv.Pos(), "the registered handler carries the receiver's own context")
				}
				r.FieldUnderLock("C16.handlers", rel, typ, "messageHandlers", "messageHandlersMutex", nil)
				// counter
				for _, a := range r.W.FieldAccesses(rel, typ, "counter") {
					c, isCall := a.Instr.(*ssa.Call)
					ok := a.Kind == "addr" && isCall && CalleeName(c) == "sync/atomic.AddUint64" && Desc(c.Call.Args[1]) == "const:1" && a.Fn.Name() == "nextSeqno"
					r.Cond(ok, "C16.seqno", FnName(a.Fn)+"#counter:"+a.Kind, a.Instr.Pos(), "counter may only be touched by atomic.AddUint64(&counter, 1) in nextSeqno")
				}
				if ns := r.MustFn("C16.seqno", rel, typ+".nextSeqno"); ns != nil {
					rets := ReturnsMatching(ns, 0, `^call:sync/atomic\.AddUint64\(&P0\.counter, const:1\)$`)
					r.Cond(len(rets) == 1, "C16.seqno", FnName(ns)+"#return", ns.Pos(), "nextSeqno returns the incremented counter")
				}
				if send := r.MustFn("C16.seqno", rel, typ+".Send"); send != nil {
					sites := Sites(send, `\.nextSeqno$`, true)
					ok := len(sites) == 1
					if ok {
						// not in a loop: its block does not reach itself
						ok = !Reaches(sites[0].Block(), sites[0].Block())
					}
					r.Cond(ok, "C16.seqno", FnName(send)+"#one-seqno", send.Pos(), "exactly one nextSeqno() per Send, not inside a loop or closure re-run by retransmission")
					if ok && sites[0].Parent() != send {
						r.Fail("C16.seqno", FnName(send)+"#seqno-in-closure", sites[0].Pos(), "sequence number must be taken once in Send, not inside the retransmitted closure", nil, nil)
					}
				}
			}
		},
	})

	register(&Prop{
		ID:        "C17",
		Technique: "static analysis: goroutine-context discovery (go inside a repeating tick callback), must-hold locksets on strategy state, symbolic recurrence of the backoff schedule via affine forms (go/ssa)",
		Explanation: "ScheduleRetransmissions starts strategy.Tick in a fresh goroutine for every tick (a `go` inside the function registered with Ticker.onTick), so Tick calls of one strategy can overlap: every implementation of Strategy.Tick must touch its receiver's fields only with a mutex of that same receiver held (or have no state). " +
			"The backoff recurrence is decided symbolically: counter' = counter+1; retransmit iff counter' == retransmitTick; then retransmitTick' = retransmitTick + delay + 1 (computed before) delay' = 2·delay; initial delay = retransmitTick = 1 — i.e. ticks 1,3,6,11,20,…; the standard strategy calls retransmit unconditionally once per tick. " +
			"Ticker.start calls a handler only under its ctx.Err()==nil and drops it otherwise; handlers are registered under the ticker's mutex.",
		NotDecided: "uint64 overflow of the counters; scheduling fairness between tick goroutines (only mutual exclusion of the state update is decided).",
		Fn: func(r *Run) {
			r.Rule("C17.race", "Strategy.Tick state accessed only under the receiver's mutex (Tick runs in overlapping goroutines)", 2)
			r.Rule("C17.schedule", "backoff recurrence and initial values; standard = every tick", 6)
			r.Rule("C17.stop", "tick handlers run only while their context is live", 2)
			sched := r.MustFn("C17.race", "pkg/net/retransmission", "ScheduleRetransmissions")
			concurrent := false
			if sched != nil {
				// find the Tick call and the chain: go-closure inside a closure passed to Ticker.onTick
				for _, f := range WithClosures(sched) {
					for _, c := range CallsMatching(f, `^invoke:pkg/net/retransmission\.Strategy\.Tick$`) {
						_ = c
						p := f.Parent()
						if p == nil {
							continue
						}
						if _, isGo := goTargets(p)[f]; !isGo {
							continue
						}
						// p must be passed to onTick
						if pp := p.Parent(); pp != nil {
							for _, oc := range CallsMatching(pp, `^pkg/net/retransmission\.Ticker\.onTick$`) {
								if closureOf(oc.Common().Args[2]) == p {
									concurrent = true
								}
							}
						}
					}
				}
			}
			var impls []*ssa.Function
			for _, f := range r.W.AllFuncs {
				if f.Name() == "Tick" && fnPkgRel(f) == "pkg/net/retransmission" && f.Signature.Recv() != nil && f.Synthetic == "" {
					impls = append(impls, f)
				}
			}
			if len(impls) < 2 {
				r.Undecided("C17.race", "Strategy.Tick", "expected at least two Tick implementations")
			}
			for _, tick := range impls {
				funcs := []*ssa.Function{tick}
				// same-receiver callees (one level)
				EachInstr(tick, func(in ssa.Instruction) {
					if c, ok := in.(*ssa.Call); ok {
						if callee := staticCallee(c); callee != nil && callee.Signature.Recv() != nil && len(c.Call.Args) > 0 && Desc(c.Call.Args[0]) == "P0" && callee.Blocks != nil && fnPkgRel(callee) == "pkg/net/retransmission" {
							funcs = append(funcs, callee)
						}
					}
				})
				n := 0
				bad := false
				for _, f := range funcs {
					held := LocksHeld(f)
					EachInstr(f, func(in ssa.Instruction) {
						fa, ok := in.(*ssa.FieldAddr)
						if !ok || Desc(fa.X) != "P0" {
							return
						}
						ft := fa.Type().(*types.Pointer).Elem()
						if strings.HasPrefix(ft.String(), "sync.") {
							return // the mutex itself
						}
						for _, ref := range *fa.Referrers() {
							n++
							ok := false
							for _, h := range held[ref] {
								if strings.HasPrefix(h, "P0.") {
									ok = true
								}
							}
							if !ok && concurrent {
								bad = true
								r.Fail("C17.race", FnName(f)+"#"+fieldName(fa.X.Type().Underlying().(*types.Pointer).Elem(), fa.Field), ref.Pos(),
									"strategy state accessed without a lock although Tick is started in a new goroutine on every tick", nil, nil)
							}
						}
					})
				}
				if !bad {
					note := "no unsynchronised state"
					if !concurrent {
						note = "Tick is not started concurrently any more (premise absent)"
					}
					r.Ok("C17.race", FnName(tick), tick.Pos(), note)
				}
			}
			// schedule
			if bt := r.MustFn("C17.schedule", "pkg/net/retransmission", "BackoffStrategy.Tick"); bt != nil {
				funcs := []*ssa.Function{bt}
				if h := r.W.Fn("pkg/net/retransmission", "BackoffStrategy.shouldRetransmit"); h != nil {
					funcs = append(funcs, h)
				}
				st := map[string]*ssa.Store{}
				for _, f := range funcs {
					EachInstr(f, func(in ssa.Instruction) {
						if s, ok := in.(*ssa.Store); ok && strings.HasPrefix(Desc(s.Addr), "&P0.") {
							st[strings.TrimPrefix(Desc(s.Addr), "&P0.")] = s
						}
					})
				}
				want := map[string]string{"tickCounter": "1*P0.tickCounter + 1", "retransmitTick": "1*P0.delay + 1*P0.retransmitTick + 1", "delay": "2*P0.delay + 0"}
				for f, w := range want {
					s := st[f]
					if s == nil {
						r.Undecided("C17.schedule", "BackoffStrategy#"+f, "no store to "+f)
						continue
					}
					r.Cond(Affine(s.Val).String() == w, "C17.schedule", "BackoffStrategy#"+f, s.Pos(), f+"' must be "+w+"; got "+Affine(s.Val).String())
				}
				if st["retransmitTick"] != nil && st["delay"] != nil && st["tickCounter"] != nil {
					rt, dl, tc := st["retransmitTick"], st["delay"], st["tickCounter"]
					r.Cond(rt.Block() == dl.Block() && InstrBefore(rt, dl), "C17.schedule", "BackoffStrategy#order", rt.Pos(), "the next tick is computed from the delay before it is doubled")
					r.Check("C17.schedule", "BackoffStrategy#trigger", rt.Pos(), Facts(rt.Block()), `^\+\(P0\.retransmitTick == P0\.tickCounter\)$|^\+\(P0\.tickCounter == P0\.retransmitTick\)$`)
					r.Cond(tc.Block().Dominates(rt.Block()) || tc.Block() == rt.Block(), "C17.schedule", "BackoffStrategy#count-first", tc.Pos(), "the tick is counted before the comparison")
				}
				// retransmit call guarded by the trigger
				for _, f := range funcs {
					EachInstr(f, func(in ssa.Instruction) {
						c, ok := in.(*ssa.Call)
						if !ok || CalleeName(c) != "dyn" || Desc(c.Call.Value) != "P1" {
							return
						}
						facts := ImpliedFacts(c.Block(), 1)
						r.Check("C17.schedule", "BackoffStrategy#retransmit", c.Pos(), facts,
							`^\+\(P0\.retransmitTick == P0\.tickCounter\)$|^\+\(P0\.tickCounter == P0\.retransmitTick\)$|^\+call:pkg/net/retransmission\.BackoffStrategy\.shouldRetransmit\(P0\)$`)
					})
				}
				if h := r.W.Fn("pkg/net/retransmission", "BackoffStrategy.shouldRetransmit"); h != nil {
					r.Check("C17.schedule", FnName(h)+"#true", h.Pos(), SummaryTrue(h), `^\+\(P0\.retransmitTick == P0\.tickCounter\)$|^\+\(P0\.tickCounter == P0\.retransmitTick\)$`)
				}
			}
			if ctor := r.MustFn("C17.schedule", "pkg/net/retransmission", "WithBackoffStrategy"); ctor != nil {
				ok := false
				for _, sl := range structLits(ctor, "pkg/net/retransmission", "BackoffStrategy") {
					g := func(n string) string {
						if v := sl.Fields[n]; v != nil {
							return Desc(v)
						}
						return ""
					}
					ok = g("tickCounter") == "const:0" && g("delay") == "const:1" && g("retransmitTick") == "const:1"
				}
				r.Cond(ok, "C17.schedule", FnName(ctor), ctor.Pos(), "initial state must be counter 0, delay 1, first retransmission at tick 1")
			}
			if stt := r.MustFn("C17.schedule", "pkg/net/retransmission", "StandardStrategy.Tick"); stt != nil {
				n := 0
				EachInstr(stt, func(in ssa.Instruction) {
					if c, ok := in.(*ssa.Call); ok && CalleeName(c) == "dyn" && Desc(c.Call.Value) == "P1" {
						n++
						r.Cond(len(Facts(c.Block())) == 0, "C17.schedule", FnName(stt)+"#unconditional", c.Pos(), "standard strategy retransmits on every tick")
					}
				})
				if n != 1 {
					r.Undecided("C17.schedule", FnName(stt), "expected one retransmit call")
				}
			}
			if ts := r.MustFn("C17.stop", "pkg/net/retransmission", "Ticker.start"); ts != nil {
				n := 0
				EachInstr(ts, func(in ssa.Instruction) {
					if c, ok := in.(*ssa.Call); ok && CalleeName(c) == "dyn" {
						n++
						r.Check("C17.stop", FnName(ts)+"#handler", c.Pos(), Facts(c.Block()), `^\+\(invoke:context\.Context\.Err\(.*\.ctx\) == nil\)$`)
					}
				})
				if n != 1 {
					r.Undecided("C17.stop", FnName(ts), "expected one handler call")
				}
			}
			if ot := r.MustFn("C17.stop", "pkg/net/retransmission", "Ticker.onTick"); ot != nil {
				held := LocksHeld(ot)
				n := 0
				EachInstr(ot, func(in ssa.Instruction) {
					if mu, ok := in.(*ssa.MapUpdate); ok {
						n++
						r.Cond(len(held[mu]) == 1 && held[mu][0] == "P0.handlersMutex", "C17.stop", FnName(ot)+"#register", mu.Pos(), "handler registered under handlersMutex")
					}
				})
				if n != 1 {
					r.Undecided("C17.stop", FnName(ot), "expected one registration")
				}
				// handler ids are never reused while a handler may still be registered:
				// the map key is a field that is only ever incremented, by one, right
				// before the registration and under the same lock (an id derived from
				// the map's size is reused after a removal and overwrites a live handler)
				r.Rule("C17.fresh-id", "tick handler ids come from a counter that only grows", 1)
				EachInstr(ot, func(in ssa.Instruction) {
					mu, ok := in.(*ssa.MapUpdate)
					if !ok {
						return
					}
					key := Desc(mu.Key)
					m := re(`^P0\.(\w+)$`).FindStringSubmatch(key)
					okKey := false
					why := "the key " + abbr(key, 1) + " is not a counter field of the ticker"
					if m != nil {
						field := m[1]
						okKey = true
						nStores := 0
						for _, f := range r.W.AllFuncs {
							if fnPkgRel(f) != "pkg/net/retransmission" {
								continue
							}
							EachInstr(f, func(i2 ssa.Instruction) {
								st, isSt := i2.(*ssa.Store)
								if !isSt || !strings.HasSuffix(Desc(st.Addr), "."+field) {
									return
								}
								nStores++
								if Affine(st.Val).String() != "1*P0."+field+" + 1" || f != ot || !InstrBefore(st, mu) || len(held[st]) != 1 {
									okKey = false
									why = "the id field is written other than by +1 under the lock before the registration"
								}
							})
						}
						if nStores == 0 {
							okKey = false
							why = "the id field is never advanced"
						}
					}
					r.Cond(okKey, "C17.fresh-id", FnName(ot)+"#handler-id", mu.Pos(), "a new handler gets an id no live handler can hold; "+why)
				})
			}
		},
	})
}

func keyFromSprintf(v ssa.Value) bool {
	c, ok := v.(*ssa.Call)
	if !ok || CalleeName(c) != "fmt.Sprintf" || len(c.Call.Args) < 2 {
		return false
	}
	els := appendedElems(c.Call.Args[1])
	hasSender, hasSeq := false, false
	for _, e := range els {
		d := Desc(e)
		if strings.Contains(d, "TransportSenderID(P0)") {
			hasSender = true
		}
		if strings.Contains(d, "Seqno(P0)") {
			hasSeq = true
		}
	}
	return hasSender && hasSeq
}
