package main

import (
	"strings"

	"golang.org/x/tools/go/ssa"
)

// derives reports whether value v is computed from root (through fields,
// loads, conversions, calls taking it as an argument, phi, append via the
// compiler's varargs temporaries).
func derives(v, root ssa.Value) bool {
	return derivesD(v, root, map[ssa.Value]bool{}, 10)
}

func derivesD(v, root ssa.Value, seen map[ssa.Value]bool, d int) bool {
	if v == nil || d == 0 {
		return false
	}
	if v == root {
		return true
	}
	if seen[v] {
		return false
	}
	seen[v] = true
	any := func(vs ...ssa.Value) bool {
		for _, x := range vs {
			if x != nil && derivesD(x, root, seen, d-1) {
				return true
			}
		}
		return false
	}
	switch x := v.(type) {
	case *ssa.Phi:
		return any(x.Edges...)
	case *ssa.UnOp:
		return any(x.X)
	case *ssa.BinOp:
		return any(x.X, x.Y)
	case *ssa.Field:
		return any(x.X)
	case *ssa.FieldAddr:
		return any(x.X)
	case *ssa.IndexAddr:
		return any(x.X)
	case *ssa.Index:
		return any(x.X)
	case *ssa.Lookup:
		return any(x.X, x.Index)
	case *ssa.Convert:
		return any(x.X)
	case *ssa.ChangeType:
		return any(x.X)
	case *ssa.ChangeInterface:
		return any(x.X)
	case *ssa.MakeInterface:
		return any(x.X)
	case *ssa.TypeAssert:
		return any(x.X)
	case *ssa.Extract:
		return any(x.Tuple)
	case *ssa.Slice:
		return any(x.X)
	case *ssa.Call:
		if x.Call.IsInvoke() && any(x.Call.Value) {
			return true
		}
		return any(x.Call.Args...)
	case *ssa.Alloc:
		// something derived was stored into it (or into an element of it)
		for _, r := range *x.Referrers() {
			switch s := r.(type) {
			case *ssa.Store:
				if s.Addr == x && derivesD(s.Val, root, seen, d-1) {
					return true
				}
			case *ssa.IndexAddr:
				for _, r2 := range *s.Referrers() {
					if st, ok := r2.(*ssa.Store); ok && st.Addr == s && derivesD(st.Val, root, seen, d-1) {
						return true
					}
				}
			case *ssa.FieldAddr:
				for _, r2 := range *s.Referrers() {
					if st, ok := r2.(*ssa.Store); ok && st.Addr == s && derivesD(st.Val, root, seen, d-1) {
						return true
					}
				}
			}
		}
	}
	return false
}

// addrRoot walks an address expression to its base value.
func addrRoot(v ssa.Value) ssa.Value {
	for i := 0; i < 20; i++ {
		switch x := v.(type) {
		case *ssa.FieldAddr:
			v = x.X
		case *ssa.IndexAddr:
			v = x.X
		case *ssa.UnOp:
			v = x.X
		case *ssa.Field:
			v = x.X
		case *ssa.Slice:
			v = x.X
		case *ssa.ChangeType:
			v = x.X
		case *ssa.Convert:
			v = x.X
		default:
			return v
		}
	}
	return v
}

// isLocalAddr: the address lives in a function-local allocation that does
// not escape through a closure or a store (compiler temporaries, varargs).
func isLocalTemp(v ssa.Value) bool {
	a, ok := addrRoot(v).(*ssa.Alloc)
	if !ok {
		return false
	}
	return !a.Heap
}

// alias rewrites occurrences of long value descriptions by short names.
func alias(s string, m map[string]string) string {
	// longest first
	keys := make([]string, 0, len(m))
	for k := range m {
		keys = append(keys, k)
	}
	for i := 0; i < len(keys); i++ {
		for j := i + 1; j < len(keys); j++ {
			if len(keys[j]) > len(keys[i]) {
				keys[i], keys[j] = keys[j], keys[i]
			}
		}
	}
	for _, k := range keys {
		s = strings.ReplaceAll(s, k, m[k])
	}
	return s
}

func aliasAll(fs []string, m map[string]string) []string {
	out := make([]string, len(fs))
	for i, f := range fs {
		out[i] = alias(f, m)
	}
	return out
}

// substParams maps a callee-namespace description (P0, P1.f, …) into the
// caller's namespace given the call's actual arguments.
func substParams(s string, call *ssa.Call) string {
	args := call.Call.Args
	if call.Call.IsInvoke() {
		args = append([]ssa.Value{call.Call.Value}, args...)
	}
	r := re(`\bP(\d+)\b`)
	return r.ReplaceAllStringFunc(s, func(m string) string {
		i := 0
		for _, ch := range m[1:] {
			i = i*10 + int(ch-'0')
		}
		if i < len(args) {
			return Desc(args[i])
		}
		return m
	})
}

// staticCallee returns the called repository function for a static call.
func staticCallee(c ssa.CallInstruction) *ssa.Function {
	switch v := c.Common().Value.(type) {
	case *ssa.Function:
		return v
	case *ssa.MakeClosure:
		return v.Fn.(*ssa.Function)
	}
	// a local closure variable: x := func(){}; x()
	if !c.Common().IsInvoke() {
		if mc := closureOf(c.Common().Value); mc != nil {
			return mc
		}
	}
	return nil
}

func closureOf(v ssa.Value) *ssa.Function {
	switch x := v.(type) {
	case *ssa.MakeClosure:
		return x.Fn.(*ssa.Function)
	case *ssa.Function:
		return x
	case *ssa.UnOp:
		if a, ok := x.X.(*ssa.Alloc); ok {
			if sv := singleStore(a); sv != nil {
				return closureOf(sv)
			}
		}
	case *ssa.Phi:
		var f *ssa.Function
		for _, e := range x.Edges {
			g := closureOf(e)
			if g == nil || (f != nil && g != f) {
				return nil
			}
			f = g
		}
		return f
	}
	return nil
}

// ImpliedFacts returns the facts of block b, plus — for each dominating call
// of a bool wrapper being true — the wrapper's own summary translated to the
// caller's namespace (one level of inlining per depth).
func ImpliedFacts(b *ssa.BasicBlock, depth int) []string {
	return impliedFromGuards(Guards(b), depth)
}

func impliedFromGuards(gs []Guard, depth int) []string {
	seen := map[string]bool{}
	var out []string
	add := func(s string) {
		if !seen[s] {
			seen[s] = true
			out = append(out, s)
		}
	}
	var walk func(g Guard, d int)
	walk = func(g Guard, d int) {
		add(FactString(g))
		if d == 0 || !g.Pol {
			return
		}
		call, ok := g.Cond.(*ssa.Call)
		if !ok {
			return
		}
		fn := staticCallee(call)
		if fn == nil || fn.Blocks == nil {
			return
		}
		sameFrame := fn.Parent() != nil && fn.Parent() == call.Parent()
		for _, f := range summaryTrueDeep(fn, d-1) {
			s := substParams(f, call)
			if sameFrame {
				// a closure called in the function that created it: its free
				// variables are the caller's own values
				s = re(`up\(([^()]*)\)`).ReplaceAllString(s, "$1")
			}
			add(s)
		}
	}
	for _, g := range gs {
		walk(g, depth)
	}
	return out
}

// summaryTrueDeep: SummaryTrue plus summaries of wrappers it calls.
func summaryTrueDeep(fn *ssa.Function, depth int) []string {
	sets := [][]string{}
	for _, b := range fn.Blocks {
		ret, ok := b.Instrs[len(b.Instrs)-1].(*ssa.Return)
		if !ok || len(ret.Results) == 0 || deadRecover(b) {
			continue
		}
		collectReturnGuards(RetResults(ret)[0], b, nil, &sets, depth, 4)
	}
	return intersect(sets)
}

func collectReturnGuards(v ssa.Value, b, via *ssa.BasicBlock, sets *[][]string, depth, pd int) {
	if phi, ok := v.(*ssa.Phi); ok && pd > 0 && phi.Block() == b {
		for i, e := range phi.Edges {
			collectReturnGuards(e, b.Preds[i], b, sets, depth, pd-1)
		}
		return
	}
	self := true
	if cb, isc := constBool(v); isc {
		if !cb {
			return
		}
		self = false
	}
	var gs []Guard
	if via != nil {
		gs = edgeGuards(b, via)
	} else {
		gs = RawGuards(b)
	}
	if self {
		gs = append(gs, Guard{v, true})
	}
	*sets = append(*sets, impliedFromGuards(expand(gs, 4), depth))
}
