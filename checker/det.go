package main

import (
	"go/token"
	"go/types"
	"strings"

	"golang.org/x/tools/go/ssa"
)

// dependsOn: v is computed from root, following data operands including
// index/key operands (unlike derives, which follows containers only).
// Values in barrier stop the walk.
func dependsOn(v, root ssa.Value, barrier map[ssa.Value]bool) bool {
	seen := map[ssa.Value]bool{}
	var walk func(v ssa.Value, d int) bool
	walk = func(v ssa.Value, d int) bool {
		if v == nil || d == 0 {
			return false
		}
		if v == root {
			return true
		}
		if seen[v] || barrier[v] {
			return false
		}
		seen[v] = true
		in, ok := v.(ssa.Instruction)
		if !ok {
			return false
		}
		for _, op := range in.Operands(nil) {
			if *op != nil && walk(*op, d-1) {
				return true
			}
		}
		// a load of a local: follow the values stored to it
		if u, ok := v.(*ssa.UnOp); ok && u.Op == token.MUL {
			if a, ok := u.X.(*ssa.Alloc); ok {
				for _, ref := range *a.Referrers() {
					if st, ok := ref.(*ssa.Store); ok && st.Addr == a && walk(st.Val, d-1) {
						return true
					}
				}
			}
		}
		return false
	}
	return walk(v, 40)
}

// AffTerm is one leaf of an affine expression, kept by SSA identity.
type AffTerm struct {
	V ssa.Value
	K int64
}

// AffineTerms decomposes an integer value into constant + Σ K·leaf without
// merging leaves (go/ssa performs no CSE, so two syntactic occurrences are two
// leaves).
func AffineTerms(v ssa.Value) (int64, []AffTerm) {
	var c int64
	var ts []AffTerm
	var rec func(v ssa.Value, k int64, d int)
	rec = func(v ssa.Value, k int64, d int) {
		v = stripConv(v)
		if d > 0 {
			switch x := v.(type) {
			case *ssa.Const:
				a := affine(x, 1)
				if a.isConst() {
					c += k * a.C
					return
				}
			case *ssa.BinOp:
				switch x.Op {
				case token.ADD:
					rec(x.X, k, d-1)
					rec(x.Y, k, d-1)
					return
				case token.SUB:
					rec(x.X, k, d-1)
					rec(x.Y, -k, d-1)
					return
				case token.MUL:
					if a := affine(x.X, 4); a.isConst() {
						rec(x.Y, k*a.C, d-1)
						return
					}
					if b := affine(x.Y, 4); b.isConst() {
						rec(x.X, k*b.C, d-1)
						return
					}
				}
			case *ssa.UnOp:
				// load of a single-assignment local
				if x.Op == token.MUL {
					if a, ok := x.X.(*ssa.Alloc); ok {
						if sv := singleStore(a); sv != nil {
							rec(sv, k, d-1)
							return
						}
					}
				}
			}
		}
		ts = append(ts, AffTerm{v, k})
	}
	rec(v, 1, 16)
	return c, ts
}

// ---------------------------------------------------------------- determinism

var sortCallees = map[string]bool{
	"sort.Sort": true, "sort.Stable": true, "sort.Slice": true, "sort.SliceStable": true,
	"sort.Strings": true, "sort.Ints": true, "slices.Sort": true, "slices.SortFunc": true, "slices.SortStableFunc": true,
}

func isSortCall(c ssa.CallInstruction) bool {
	n := CalleeName(c)
	if sortCallees[n] {
		return true
	}
	// generic instantiations: slices.Sort[[]T, T]
	if i := strings.Index(n, "["); i > 0 && sortCallees[n[:i]] {
		return true
	}
	return false
}

// MapOrderLeak describes an ordered container filled while ranging over a map
// (iteration order is randomised by the runtime) that is used before a sort.
type MapOrderLeak struct {
	Range *ssa.Range
	Sink  string
	Use   ssa.Instruction
}

// loopBlocks: blocks of the natural loop headed at h (dominated by h and able to reach h).
func loopBlocks(h *ssa.BasicBlock) map[*ssa.BasicBlock]bool {
	out := map[*ssa.BasicBlock]bool{h: true}
	// natural loop: for every back edge b→h, the nodes that reach b without passing h
	var stack []*ssa.BasicBlock
	for _, p := range h.Preds {
		if dominates(h, p) && !out[p] {
			out[p] = true
			stack = append(stack, p)
		}
	}
	for len(stack) > 0 {
		b := stack[len(stack)-1]
		stack = stack[:len(stack)-1]
		for _, p := range b.Preds {
			if !out[p] && dominates(h, p) {
				out[p] = true
				stack = append(stack, p)
			}
		}
	}
	return out
}

// MapOrderLeaks finds, in fn, slices that receive elements in map-iteration
// order (append or indexed store inside a `range` over a map) and are read
// afterwards without a dominating sort of that slice; and returns the number
// of map-range loops inspected. Reads that do not observe the order (len) are ignored.
func MapOrderLeaks(fn *ssa.Function) (leaks []MapOrderLeak, loops int) {
	accs := Accumulations(fn)
	EachInstr(fn, func(in ssa.Instruction) {
		rg, ok := in.(*ssa.Range)
		if !ok {
			return
		}
		if _, isMap := rg.X.Type().Underlying().(*types.Map); !isMap {
			return
		}
		// header: the block holding the Next of this range
		var header *ssa.BasicBlock
		for _, ref := range *rg.Referrers() {
			if nx, ok := ref.(*ssa.Next); ok {
				header = nx.Block()
			}
		}
		if header == nil {
			return
		}
		loops++
		body := loopBlocks(header)
		// sinks: accumulations appended inside the loop; slices stored by index inside the loop
		type sink struct {
			name string
			vals map[ssa.Value]bool
		}
		var sinks []sink
		for _, a := range accs {
			for _, c := range a.Appends {
				if body[c.Block()] {
					sinks = append(sinks, sink{"append:" + abbr(Desc(c), 1), a.Vals})
					break
				}
			}
		}
		for b := range body {
			for _, ins := range b.Instrs {
				switch st := ins.(type) {
				case *ssa.Store:
					if ia, ok := st.Addr.(*ssa.IndexAddr); ok {
						if _, isSlice := ia.X.Type().Underlying().(*types.Slice); isSlice && !isLocalTemp(ia.X) {
							if _, constIdx := ia.Index.(*ssa.Const); !constIdx {
								sinks = append(sinks, sink{"store:" + abbr(Desc(ia.X), 1), map[ssa.Value]bool{ia.X: true}})
							}
						}
					}
					// append through an address-taken local: x = append(x, …)
					if c := isAppend(st.Val); c != nil {
						if al, ok := st.Addr.(*ssa.Alloc); ok {
							vals := map[ssa.Value]bool{}
							for _, ref := range *al.Referrers() {
								if ld, ok := ref.(*ssa.UnOp); ok && ld.Op == token.MUL {
									vals[ld] = true
								}
							}
							sinks = append(sinks, sink{"append:" + al.Comment, vals})
						}
					}
				}
			}
		}
		// first-match selection: a value computed inside the loop from the
		// iteration key/value and used after leaving the loop (break/return
		// with the element found first) depends on the iteration order.
		var next ssa.Value
		for _, ref := range *rg.Referrers() {
			if nx, ok := ref.(*ssa.Next); ok {
				next = nx
			}
		}
		for b := range body {
			for _, ins := range b.Instrs {
				v, ok := ins.(ssa.Value)
				if !ok || v.Referrers() == nil {
					continue
				}
				if _, isPhi := v.(*ssa.Phi); isPhi && b == header {
					continue // loop-carried accumulator: covered by the sink rules
				}
				if v == next || !dependsOn(v, next, nil) {
					continue
				}
				if ex, ok := v.(*ssa.Extract); ok && ex.Tuple == next && ex.Index == 0 {
					continue // the "ok" flag of the iteration
				}
				for _, ref := range *v.Referrers() {
					if body[ref.Block()] || feedsOnlyDiagnostics(ref, 6) {
						continue
					}
					leaks = append(leaks, MapOrderLeak{rg, "first-match:" + abbr(Desc(v), 1), ref})
				}
			}
		}
		for _, s := range sinks {
			// sort calls on the sink
			var sorts []ssa.CallInstruction
			EachInstr(fn, func(i2 ssa.Instruction) {
				c, ok := i2.(ssa.CallInstruction)
				if !ok || !isSortCall(c) || len(c.Common().Args) == 0 || body[i2.Block()] {
					return
				}
				for v := range s.vals {
					if derives(c.Common().Args[0], v) {
						sorts = append(sorts, c)
						return
					}
				}
			})
			// uses after the loop
			EachInstr(fn, func(i2 ssa.Instruction) {
				if body[i2.Block()] {
					return
				}
				uses := false
				for _, op := range i2.Operands(nil) {
					if *op != nil && s.vals[*op] {
						uses = true
					}
				}
				if !uses {
					return
				}
				if _, isPhi := i2.(*ssa.Phi); isPhi {
					return
				}
				if c, ok := i2.(ssa.CallInstruction); ok {
					if b, ok := c.Common().Value.(*ssa.Builtin); ok && (b.Name() == "len" || b.Name() == "cap") {
						return
					}
				}
				// conversions feeding a sort call are part of the sort
				for _, sc := range sorts {
					if i2 == sc.(ssa.Instruction) {
						return
					}
					if v, ok := i2.(ssa.Value); ok && sc.Common().Args[0] == v {
						return
					}
					if mi, ok := sc.Common().Args[0].(*ssa.MakeInterface); ok {
						if v, ok := i2.(ssa.Value); ok && (mi == v || mi.X == v) {
							return
						}
					}
				}
				for _, sc := range sorts {
					if InstrBefore(sc.(ssa.Instruction), i2) {
						return
					}
				}
				leaks = append(leaks, MapOrderLeak{rg, s.name, i2})
			})
		}
	})
	return leaks, loops
}

// feedsOnlyDiagnostics: the instruction only forwards its operand into the
// argument list of a formatting / logging call (an error message naming the
// element found first is not a protocol-relevant result).
func feedsOnlyDiagnostics(in ssa.Instruction, d int) bool {
	if d == 0 {
		return false
	}
	switch x := in.(type) {
	case ssa.CallInstruction:
		n := CalleeName(x)
		return strings.HasPrefix(n, "fmt.") || strings.Contains(n, "go-log") || strings.Contains(n, "zap.SugaredLogger.")
	case *ssa.Store:
		// store into a varargs slot: follow the slice made from the array
		ia, ok := x.Addr.(*ssa.IndexAddr)
		if !ok {
			return false
		}
		al, ok := ia.X.(*ssa.Alloc)
		if !ok || al.Referrers() == nil {
			return false
		}
		all, n := true, 0
		for _, ref := range *al.Referrers() {
			if sl, ok := ref.(*ssa.Slice); ok && sl.Referrers() != nil {
				for _, r2 := range *sl.Referrers() {
					n++
					if !feedsOnlyDiagnostics(r2, d-1) {
						all = false
					}
				}
			}
		}
		return all && n > 0
	case ssa.Value:
		switch x.(type) {
		case *ssa.MakeInterface, *ssa.Convert, *ssa.ChangeType, *ssa.ChangeInterface:
		default:
			return false
		}
		if x.Referrers() == nil || len(*x.Referrers()) == 0 {
			return false
		}
		for _, ref := range *x.Referrers() {
			if !feedsOnlyDiagnostics(ref, d-1) {
				return false
			}
		}
		return true
	}
	return false
}

// NondetCalls lists calls in fn to process-global or environment-dependent
// sources: package-level math/rand functions (global source), crypto/rand,
// time.Now/Since.
func NondetCalls(fn *ssa.Function) []ssa.CallInstruction {
	var out []ssa.CallInstruction
	EachInstr(fn, func(in ssa.Instruction) {
		c, ok := in.(ssa.CallInstruction)
		if !ok {
			return
		}
		n := CalleeName(c)
		switch {
		case strings.HasSuffix(n, ".init"):
		case n == "math/rand.New" || n == "math/rand.NewSource":
		case strings.HasPrefix(n, "math/rand.Rand."):
		case strings.HasPrefix(n, "math/rand.") || strings.HasPrefix(n, "math/rand/v2."):
			out = append(out, c)
		case strings.HasPrefix(n, "crypto/rand."):
			out = append(out, c)
		case n == "time.Now" || n == "time.Since" || n == "time.Until":
			out = append(out, c)
		}
	})
	return out
}
