package main

import (
	"regexp"
	"strings"

	"golang.org/x/tools/go/ssa"
)

// C01.observer-independent (added after seed C01-4): in the two accusation
// resolvers a verdict about a (accuser, accused) pair is reached by every
// honest member; the only thing that may depend on WHO is judging is that a
// member does not resolve an accusation against itself. So every branch whose
// condition mentions the judging member's own ID must be the comparison of that
// ID with the accused key of the accusation currently iterated, inside the
// loop over the message's accusations — never a test on the message as a whole
// (which would make the member skip accusations against third parties that
// the other members do resolve).
func init() {
	extend("C01", func(r *Run) {
		r.Rule("C01.observer-independent", "own-ID-dependent branches in the accusation resolvers compare the own ID with the accused of the current accusation only", 2)
		own := regexp.MustCompile(`P0(\.\w+)*\.memberCore\.ID`)
		okForm := regexp.MustCompile(`^\(P0(\.\w+)*\.memberCore\.ID == next\(range\((.*)\.accusedMembersKeys\)\)#1\)$|^\(next\(range\((.*)\.accusedMembersKeys\)\)#1 == P0(\.\w+)*\.memberCore\.ID\)$`)
		for _, fnName := range []string{"SharesJustifyingMember.ResolveSecretSharesAccusationsMessages", "PointsJustifyingMember.ResolvePublicKeySharePointsAccusationsMessages"} {
			fn := r.MustFn("C01.observer-independent", "pkg/beacon/gjkr", fnName)
			if fn == nil {
				continue
			}
			name := FnName(fn)
			n := 0
			for _, b := range fn.Blocks {
				ifi, ok := b.Instrs[len(b.Instrs)-1].(*ssa.If)
				if !ok {
					continue
				}
				d := Desc(ifi.Cond)
				if !own.MatchString(d) {
					continue
				}
				n++
				// inside the loop that ranges over this message's accusations
				inInner := false
				for _, l := range iteratorLoops(fn) {
					if l.Blocks[b] && strings.Contains(Desc(l.Source), ".accusedMembersKeys") {
						inInner = true
					}
				}
				r.Cond(okForm.MatchString(d) && inInner, "C01.observer-independent", name+"#own-id-branch", ifi.Pos(),
					"branch on the judging member's own ID must be `ID == accused of the current accusation` inside the per-accusation loop; got "+abbr(d, 2))
			}
			if n == 0 {
				r.Undecided("C01.observer-independent", name+"#own-id-branch", "no own-ID comparison found (a member must not resolve an accusation against itself)")
			}
		}
	})
	witness(Witness{Prop: "C01", Name: "skip-message-accusing-me", File: "pkg/beacon/gjkr/protocol.go",
		Old: "\t\t\tif sjm.ID == accusedID || !isAccusedIDValid {", New: "\t\t\tif _, me := message.accusedMembersKeys[sjm.ID]; me || !isAccusedIDValid {", Rule: "C01.observer-independent"})
}

type iterLoop struct {
	Blocks map[*ssa.BasicBlock]bool
	Source ssa.Value
}

// iteratorLoops: loops of fn driven by `range` over a map (Next on a Range).
func iteratorLoops(fn *ssa.Function) []iterLoop {
	var out []iterLoop
	for _, l := range Loops(fn) {
		if l.Kind != "iterator" {
			continue
		}
		ifi := l.Header.Instrs[len(l.Header.Instrs)-1].(*ssa.If)
		ex := ifi.Cond.(*ssa.Extract)
		nx := ex.Tuple.(*ssa.Next)
		rg := nx.Iter.(*ssa.Range)
		out = append(out, iterLoop{Blocks: l.Blocks, Source: rg.X})
	}
	return out
}

// C02.degree (added after seed C02-5): a member's commitments (phase 4) and
// public key share points (phase 8) are accepted only when there are exactly
// dishonestThreshold+1 of them — the sharing polynomial has degree t, so any
// t+1 shares of QUAL members interpolate the key.
func init() {
	extend("C02", func(r *Run) {
		r.Rule("C02.degree", "commitments / public key share points messages are valid only with exactly dishonestThreshold+1 entries", 4)
		for _, v := range [][2]string{{"CommitmentsVerifyingMember.isValidMemberCommitmentsMessage", "commitments"}, {"SharingMember.isValidMemberPublicKeySharePointsMessage", "publicKeySharePoints"}} {
			fn := r.MustFn("C02.degree", "pkg/beacon/gjkr", v[0])
			if fn == nil {
				continue
			}
			want := `^\+\(\(call:pkg/protocol/group\.Group\.DishonestThreshold\(P0(\.\w+)*\.group\) \+ const:1\) == len\(P1\.` + v[1] + `\)\)$|^\+\(len\(P1\.` + v[1] + `\) == \(call:pkg/protocol/group\.Group\.DishonestThreshold\(P0(\.\w+)*\.group\) \+ const:1\)\)$`
			n := 0
			for _, b := range fn.Blocks {
				ret, ok := b.Instrs[len(b.Instrs)-1].(*ssa.Return)
				if !ok {
					continue
				}
				res := RetResults(ret)[0]
				if cb, isC := constBool(res); isC {
					if cb {
						n++
						r.Check("C02.degree", FnName(fn)+"#valid", ret.Pos(), Facts(b), want)
					}
					continue
				}
				n++
				r.Fail("C02.degree", FnName(fn)+"#valid", ret.Pos(), "validity is not a constant per path; cannot tie 'valid' to the exact count", nil, []string{Desc(res)})
			}
			if n == 0 {
				r.Undecided("C02.degree", FnName(fn)+"#valid", "no accepting return found")
			}
			// and the validator gates the message: its callers drop the message on false
			callers := r.W.Callers(fn)
			r.Cond(len(callers) >= 1, "C02.degree", FnName(fn)+"#used", fn.Pos(), "the validator is consulted by the phase's verification")
		}
	})
	witness(Witness{Prop: "C02", Name: "more-commitments-accepted", File: "pkg/beacon/gjkr/protocol.go",
		Old: "\tif len(message.commitments) != expectedCommitmentsCount {", New: "\tif len(message.commitments) < expectedCommitmentsCount {", Rule: "C02.degree"})
}
