package main

import (
	"go/types"
	"strings"

	"golang.org/x/tools/go/ssa"
)

// resolveMap follows a map-typed value to the MakeMap that created it
// (through single-store locals and closure bindings).
func resolveMakeMap(v ssa.Value) *ssa.MakeMap {
	for i := 0; i < 8; i++ {
		switch x := v.(type) {
		case *ssa.MakeMap:
			return x
		case *ssa.UnOp:
			switch a := x.X.(type) {
			case *ssa.Alloc:
				if sv := singleStore(a); sv != nil {
					v = sv
					continue
				}
			case *ssa.FreeVar:
				if b := freeVarBinding(a); b != nil {
					if al, ok := b.(*ssa.Alloc); ok {
						if sv := singleStore(al); sv != nil {
							v = sv
							continue
						}
					}
				}
			}
			return nil
		case *ssa.FreeVar:
			if b := freeVarBinding(x); b != nil {
				v = b
				continue
			}
			return nil
		default:
			return nil
		}
	}
	return nil
}

func init() {
	register(&Prop{
		ID:        "C35",
		Technique: "static analysis: dominator guard facts with element-wise provenance of the attempt member list, summary of the message predicate (field coverage), must-hold locksets on the confirmation map (go/ssa)",
		Explanation: "signingDoneCheck: a confirmation is stored into doneSigners only under isValidDoneMessage = true — whose computed summary covers all five message fields (membership of senderID under the sender's network key, message equality, attempt equality, endBlock ≤ attempt timeout, non-nil signature, no earlier confirmation of that sender) — AND under a containment test of the sender against the *elements* of the attempt's member list (not merely its length); " +
			"the map is created before the listener goroutine starts and afterwards touched only under doneSignersMutex (listener and waiter are different goroutines); waitUntilAllDone returns a result only when the number of confirmations equals the number of included members, fails on any signature mismatch, and reports the maximum end block; the retry loop passes the attempt's included members, message, attempt number and timeout block to listen.",
		NotDecided: "that members outside the attempt cannot make the count reach the expected value by other means than the guarded store; clock/ticker timing.",
		Fn: func(r *Run) {
			r.Rule("C35.members", "store into doneSigners ⇐ sender ∈ attempt members (element-wise)", 1)
			r.Rule("C35.coverage", "store ⇐ isValidDoneMessage; its summary covers senderID, message, attemptNumber, endBlock, signature", 3)
			r.Rule("C35.sync", "doneSigners only under doneSignersMutex after the listener started", 4)
			r.Rule("C35.complete", "result ⇐ count == expected ∧ all signatures equal; expected = len(attempt members); loop passes the included members", 4)
			fn := r.MustFn("C35.members", "pkg/tbtc", "signingDoneCheck.listen")
			if fn == nil {
				return
			}
			// the attempt members parameter
			var members *ssa.Parameter
			for _, p := range fn.Params {
				if sl, ok := p.Type().Underlying().(*types.Slice); ok && strings.HasSuffix(typeName(sl.Elem()), "group.MemberIndex") {
					members = p
				}
			}
			if members == nil {
				r.Undecided("C35.members", FnName(fn), "attempt members parameter not found")
				return
			}
			md := Desc(members)
			effs := []msgEffect{}
			for _, f := range WithClosures(fn) {
				for _, e := range msgEffects(f) {
					if e.Kind == "mapupdate" {
						effs = append(effs, e)
					}
				}
			}
			if len(effs) == 0 {
				r.Undecided("C35.members", FnName(fn), "no store of a confirmation found")
			}
			for _, e := range effs {
				al := map[string]string{Desc(e.Msg): "MSG", Desc(e.Net): "NET"}
				mu := e.Instr.(*ssa.MapUpdate)
				r.Cond(alias(Desc(mu.Key), al) == "MSG.senderID" && alias(Desc(mu.Value), al) == "MSG" && strings.HasSuffix(Desc(mu.Map), ".doneSigners"),
					"C35.coverage", FnName(e.Fn)+"#store-shape", mu.Pos(), "doneSigners[message.senderID] = message")
				// containment test
				contained := false
				for _, g := range Guards(mu.Block()) {
					if !g.Pol {
						continue
					}
					switch c := g.Cond.(type) {
					case *ssa.Call:
						if strings.Contains(CalleeName(c), "slices.Contains") && len(c.Call.Args) == 2 &&
							stripUp(Desc(c.Call.Args[0])) == md && alias(Desc(c.Call.Args[1]), al) == "MSG.senderID" {
							contained = true
						}
					case *ssa.Lookup:
						if alias(Desc(c.Index), al) != "MSG.senderID" {
							continue
						}
						if mm := resolveMakeMap(c.X); mm != nil {
							all, n := true, 0
							for _, ref := range *mm.Referrers() {
								if u, ok := ref.(*ssa.MapUpdate); ok && u.Map == ssa.Value(mm) {
									n++
									if !re(`^` + q(md) + `\[`).MatchString(Desc(u.Key)) {
										all = false
									}
								}
							}
							// updates through a local variable holding the map
							EachInstr(fn, func(in ssa.Instruction) {
								if u, ok := in.(*ssa.MapUpdate); ok && resolveMakeMap(u.Map) == mm {
									n++
									if !re(`^` + q(md) + `\[`).MatchString(Desc(u.Key)) {
										all = false
									}
								}
							})
							if n > 0 && all {
								contained = true
							}
						}
					case *ssa.Extract:
						if lk, ok := c.Tuple.(*ssa.Lookup); ok && c.Index == 1 && alias(Desc(lk.Index), al) == "MSG.senderID" {
							if mm := resolveMakeMap(lk.X); mm != nil {
								all, n := true, 0
								EachInstr(fn, func(in ssa.Instruction) {
									if u, ok := in.(*ssa.MapUpdate); ok && resolveMakeMap(u.Map) == mm {
										n++
										if !re(`^` + q(md) + `\[`).MatchString(Desc(u.Key)) {
											all = false
										}
									}
								})
								if n > 0 && all {
									contained = true
								}
							}
						}
					}
				}
				r.Cond(contained, "C35.members", FnName(e.Fn)+"#store:doneSigners", mu.Pos(),
					"a confirmation may be recorded only for a sender that is one of the attempt's included members (the list's elements must be consulted, not only its length)")
				facts := effectFacts(e)
				r.Check("C35.coverage", FnName(e.Fn)+"#valid", mu.Pos(), facts,
					`^\+call:pkg/tbtc\.signingDoneCheck\.isValidDoneMessage\(.*MSG, invoke:pkg/net\.Message\.SenderPublicKey\(NET\), .*\)$`)
				// arguments: message, attempt number, timeout are listen's own parameters
				for _, g := range Guards(mu.Block()) {
					if c, ok := g.Cond.(*ssa.Call); ok && CalleeName(c) == "pkg/tbtc.signingDoneCheck.isValidDoneMessage" {
						a := c.Call.Args
						got := []string{stripUp(Desc(a[3])), stripUp(Desc(a[4])), stripUp(Desc(a[5]))}
						r.Cond(got[0] == "P2" && got[1] == "P3" && got[2] == "P4", "C35.coverage", FnName(e.Fn)+"#valid-args", c.Pos(), "validated against this attempt's message, number and timeout block; got "+strings.Join(got, ","))
					}
				}
			}
			if iv := r.MustFn("C35.coverage", "pkg/tbtc", "signingDoneCheck.isValidDoneMessage"); iv != nil {
				r.Check("C35.coverage", FnName(iv)+"#summary", iv.Pos(), SummaryTrue(iv),
					`^\+call:pkg/protocol/group\.MembershipValidator\.IsValidMembership\(P0\.membershipValidator, P1\.senderID, P2\)$`,
					`^\+\(call:math/big\.Int\.Cmp\(P1\.message, P3\) == const:0\)$|^\+\(const:0 == call:math/big\.Int\.Cmp\(P1\.message, P3\)\)$`,
					eitherOrder(`P1\.attemptNumber`, `P4`),
					`^\+\(P1\.endBlock <= P5\)$`,
					`^-\(P1\.signature == nil\)$`,
					`^-P0\.doneSigners\[P1\.senderID\]#1$`)
				got := strings.Join(structFieldNames(r.W, "pkg/tbtc", "signingDoneMessage"), ",")
				r.Cond(got == "attemptNumber,endBlock,message,senderID,signature", "C35.coverage", "pkg/tbtc.signingDoneMessage", 0, "the predicate covers senderID, message, attemptNumber, endBlock, signature; struct has: "+got)
			}
			// --- synchronisation
			var goInstr *ssa.Go
			EachInstr(fn, func(in ssa.Instruction) {
				if g, ok := in.(*ssa.Go); ok {
					goInstr = g
				}
			})
			exempt := map[string]string{}
			for _, a := range r.W.FieldAccesses("pkg/tbtc", "signingDoneCheck", "doneSigners") {
				if a.Fn == fn && a.Kind == "store" && goInstr != nil && InstrBefore(a.Instr, goInstr) {
					exempt[FnName(fn)] = "initialisation: the store dominates the go statement of the only goroutine that can see the new map"
				}
			}
			// only the store in listen itself is exempt, not other accesses there
			accs := r.W.FieldAccesses("pkg/tbtc", "signingDoneCheck", "doneSigners")
			writers := map[*ssa.Function]bool{}
			for _, a := range accs {
				if a.Write && !(a.Fn == fn && a.Kind == "store") {
					writers[a.Fn] = true
				}
			}
			inWriterGoroutine := func(f *ssa.Function) bool {
				if len(writers) != 1 {
					return false
				}
				if writers[f] {
					return true
				}
				cs := r.W.Callers(f)
				if len(cs) == 0 {
					return false
				}
				for _, c := range cs {
					if !writers[c.Parent()] {
						return false
					}
					if _, plain := c.(*ssa.Call); !plain {
						return false
					}
				}
				return true
			}
			for _, a := range accs {
				if a.Kind == "addr" {
					continue
				}
				construct := FnName(a.Fn) + "#doneSigners:" + a.Kind
				if a.Fn == fn && a.Kind == "store" {
					if _, ok := exempt[FnName(fn)]; ok {
						r.Ok("C35.sync", construct, a.Instr.Pos(), "exempt: "+exempt[FnName(fn)])
						continue
					}
				}
				base := strings.TrimPrefix(Desc(a.Base), "&")
				want := base + ".doneSignersMutex"
				if heldIn(a.Fn, a.Instr, want) {
					r.Ok("C35.sync", construct, a.Instr.Pos(), "holds "+want)
				} else if !a.Write && inWriterGoroutine(a.Fn) {
					r.Ok("C35.sync", construct, a.Instr.Pos(), "read in the single goroutine that performs all writes (no concurrent writer)")
				} else if ok, why := callersHold(r.W, a.Fn, Desc(a.Base), "doneSignersMutex", 2); ok {
					r.Ok("C35.sync", construct, a.Instr.Pos(), "caller holds: "+why)
				} else {
					r.Fail("C35.sync", construct, a.Instr.Pos(), "doneSigners accessed without doneSignersMutex while the listener goroutine may write it", []string{want}, LocksHeld(a.Fn)[a.Instr])
				}
			}
			// --- completion
			for _, st := range StoresTo(fn, `^&P0\.expectedSignersCount$`, false) {
				s := st.(*ssa.Store)
				r.Cond(Desc(s.Val) == "len("+md+")", "C35.complete", FnName(fn)+"#expected", s.Pos(), "expected count must be the number of included members; got "+Desc(s.Val))
			}
			if w := r.MustFn("C35.complete", "pkg/tbtc", "signingDoneCheck.waitUntilAllDone"); w != nil {
				for _, p := range SuccessReturns(w) {
					r.Check("C35.complete", FnName(w)+"#result", p.Ret.Pos(), p.Facts, `^\+\((?:P0\.expectedSignersCount == len\(.*\)|len\(.*\) == P0\.expectedSignersCount)\)$`)
					r.NoPathFromBranch("C35.complete", w, `^-call:pkg/tecdsa\.Signature\.Equals\(.*\)$`, 1, p.Ret, "result/after-mismatch")
				}
			}
			if lp := r.MustFn("C35.complete", "pkg/tbtc", "signingRetryLoop.start"); lp != nil {
				for _, c := range Sites(lp, `^invoke:pkg/tbtc\.signingDoneCheckStrategy\.listen$`, false) {
					a := c.Common().Args
					// included members: appended i+1 for every position not excluded
					incl := a[len(a)-1]
					ok := false
					for _, ap := range Sites(lp, `^builtin:append$`, false) {
						if cv := callValue(ap); cv != nil && derives(incl, cv) {
							if HasFact(Facts(ap.Block()), `^-call:(?:golang\.org/x/exp/)?slices\.Contains\[.*\]\(call:pkg/tbtc\.signingRetryLoop\.performMembersSelection\(.*\)#0, .*\)$`) {
								ok = true
							}
						}
					}
					r.Cond(ok, "C35.complete", FnName(lp)+"#listen/members", c.Pos(), "listen must receive the members not excluded from the attempt")
					r.Cond(Desc(a[1]) == "P0.message" && re(`^conv:uint64\(.*attemptCounter.*\)$`).MatchString(Desc(a[2])), "C35.complete", FnName(lp)+"#listen/attempt", c.Pos(), "listen must receive this loop's message and attempt counter")
				}
			}
		},
	})
}
