package main

import (
	"strings"

	"golang.org/x/tools/go/ssa"
)

// Added after round-2 seeds C14-5 and C14-6.
func init() {
	extend("C14", func(r *Run) {
		r.Rule("C14.one-subscription", "the previous state's subscription is cancelled before the next state's is registered (a message is handed to the current state only)", 1)
		r.Rule("C14.initial-height", "the initial state's start height is the block the machine starts executing at", 1)
		if fn := r.MustFn("C14.one-subscription", "pkg/protocol/state", "SyncMachine.Execute"); fn != nil {
			name := FnName(fn)
			// the waiter branch: the block holding the Next() call
			nexts := Sites(fn, `^invoke:pkg/protocol/state\.SyncState\.Next$`, false)
			if len(nexts) != 1 {
				r.Undecided("C14.one-subscription", name, "expected one Next() call")
			} else {
				nx := nexts[0]
				// a call of a context.CancelFunc value before Next() in the same branch
				var cancel *ssa.Call
				for _, in := range nx.Block().Instrs {
					if in == ssa.Instruction(nx.(*ssa.Call)) {
						break
					}
					if c, ok := in.(*ssa.Call); ok && CalleeName(c) == "dyn" && typeName(c.Call.Value.Type()) == "context.CancelFunc" {
						cancel = c
					}
				}
				ok := cancel != nil
				if ok {
					// what is cancelled is the loop-carried (previous) cancel function
					_, isPhi := cancel.Call.Value.(*ssa.Phi)
					ok = isPhi
				}
				// every registration inside the loop comes after it
				if ok {
					for _, l := range Loops(fn) {
						for _, c := range Sites(fn, `^invoke:pkg/net\.BroadcastChannel\.Recv$`, false) {
							if l.Blocks[c.Block()] && !(dominates(cancel.Block(), c.Block()) && (cancel.Block() != c.Block() || InstrBefore(cancel, c.(ssa.Instruction)))) {
								ok = false
							}
						}
					}
				}
				r.Cond(ok, "C14.one-subscription", name, nx.Pos(), "on the end-of-state branch the carried cancel function is called first; Next() and the new Recv registration follow it")
			}
		}
		if fn := r.MustFn("C14.initial-height", "pkg/beacon/dkg/result", "Publish"); fn != nil {
			name := FnName(fn)
			execs := Sites(fn, `^pkg/protocol/state\.SyncMachine\.Execute$`, false)
			m, pos := complitFields(fn, "result.resultSigningState")
			v := m["signingStartBlockHeight"]
			ok := len(execs) == 1 && v != nil && Desc(v) == Desc(execs[0].Common().Args[1]) && !strings.Contains(Desc(v), "+")
			r.Cond(ok, "C14.initial-height", name, pos, "resultSigningState.signingStartBlockHeight is the very block passed to Execute (the state adds its own delay in Next)")
		}
	})
	witness(Witness{Prop: "C14", Name: "initial-height-with-delay", File: "pkg/beacon/dkg/result/publish.go",
		Old: "\t\tsigningStartBlockHeight: startBlockHeight,", New: "\t\tsigningStartBlockHeight: startBlockHeight + 1,", Rule: "C14.initial-height"})
}
