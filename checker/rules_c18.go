package main

import (
	"fmt"
	"golang.org/x/tools/go/ssa"
)

func init() {
	register(&Prop{
		ID:        "C18",
		Technique: "static analysis: dominator guard facts on delivery, provenance of the delivered message's fields, CFG reachability of the worker loop (go/ssa)",
		Explanation: "processContainerMessage: c.deliver is dominated by proposedSender == identity.id for the identity that was successfully unmarshalled from message.Sender, by the successful lookup of a registered unmarshaler for message.Type, by the payload's Unmarshal returning nil and by the network-key conversion succeeding; " +
			"the delivered message is BasicMessage(identity.id, that unmarshaled payload, type, MarshalUncompressed(operator key derived from identity.pubKey), message.SequenceNumber). identity.Unmarshal returns nil only when the key decoded and sets id = peer.IDFromPublicKey(that same key), so the compared id and the delivered key are bound. " +
			"processPubsubMessage passes pubsub's GetFrom() as the proposed sender; deliver is called from nowhere else; the message worker logs an error and keeps looping (a bad message does not stop delivery of others).",
		NotDecided: "libp2p pubsub's own signature verification of GetFrom(); message type collisions between unmarshalers.",
		Fn: func(r *Run) {
			r.Rule("C18.binding", "deliver ⇐ outer sender == inner identity ∧ registered type ∧ payload, identity, key decoded", 1)
			r.Rule("C18.message", "delivered message fields derive from the authenticated identity and the decoded payload", 5)
			r.Rule("C18.identity", "identity.Unmarshal: id = IDFromPublicKey(decoded key); nil only when all steps succeeded", 3)
			r.Rule("C18.only-door", "deliver called only from processContainerMessage; outer sender = pubsub GetFrom()", 2)
			r.Rule("C18.isolation", "worker continues after a rejected message", 1)
			r.Rule("C18.total", "no index or slice expression on the receive path can go out of range (a panic in the worker would end delivery for every later message)", 1)
			fn := r.MustFn("C18.binding", "pkg/net/libp2p", "channel.processContainerMessage")
			if fn == nil {
				return
			}
			delivers := Sites(fn, `^pkg/net/libp2p\.channel\.deliver$`, true)
			if len(delivers) != 1 {
				r.Undecided("C18.binding", FnName(fn)+"#deliver", "expected one deliver call")
				return
			}
			d := delivers[0]
			// the identity allocation
			var ident *ssa.Alloc
			for _, c := range Sites(fn, `^pkg/net/libp2p\.identity\.Unmarshal$`, false) {
				if a, ok := c.Common().Args[0].(*ssa.Alloc); ok && Desc(c.Common().Args[1]) == "P2.Sender" {
					ident = a
				}
			}
			if ident == nil {
				r.Undecided("C18.binding", FnName(fn)+"#identity", "identity.Unmarshal(message.Sender) on a local identity not found")
				return
			}
			id := q(Desc(ident)[1:]) // strip &
			facts := Facts(d.Block())
			r.Check("C18.binding", FnName(fn)+"#deliver", d.Pos(), facts,
				`^\+\((?:P1 == `+id+`\.id|`+id+`\.id == P1)\)$`,
				okOf(`pkg/net/libp2p\.identity\.Unmarshal`),
				okOf(`pkg/net/libp2p\.channel\.getUnmarshalingContainerByType`),
				okOf(`pkg/net\.TaggedUnmarshaler\.Unmarshal`),
				okOf(`pkg/net/libp2p\.networkPublicKeyToOperatorPublicKey`))
			msg, _ := d.Common().Args[1].(*ssa.Call)
			if msg == nil || CalleeName(msg) != "pkg/net/internal.BasicMessage" {
				r.Fail("C18.message", FnName(fn)+"#deliver-arg", d.Pos(), "delivered value must be internal.BasicMessage(...)", nil, nil)
			} else {
				a := msg.Call.Args
				want := []string{
					`^` + id + `\.id$`,
					`^call:pkg/net/libp2p\.channel\.getUnmarshalingContainerByType\(P0, conv:string\(P2\.Type\)\)#0$`,
					`^conv:string\(P2\.Type\)$`,
					`^call:pkg/operator\.MarshalUncompressed\(call:pkg/net/libp2p\.networkPublicKeyToOperatorPublicKey\(` + id + `\.pubKey\)#0\)$`,
					`^P2\.SequenceNumber$`,
				}
				names := []string{"sender-id", "payload", "type", "sender-public-key", "seqno"}
				for i, w := range want {
					r.Cond(i < len(a) && re(w).MatchString(Desc(a[i])), "C18.message", FnName(fn)+"#"+names[i], msg.Pos(), "BasicMessage "+names[i]+" must match "+w+"; got "+abbr(Desc(a[i]), 3))
				}
				// the payload that was decoded is the one delivered
				for _, c := range Sites(fn, `^invoke:pkg/net\.TaggedUnmarshaler\.Unmarshal$`, false) {
					r.Cond(Desc(c.Common().Value) == Desc(a[1]), "C18.message", FnName(fn)+"#decoded-payload", c.Pos(), "the container that decoded the payload is the one delivered")
				}
			}
			if iu := r.MustFn("C18.identity", "pkg/net/libp2p", "identity.Unmarshal"); iu != nil {
				for _, p := range SuccessReturns(iu) {
					r.Check("C18.identity", FnName(iu)+"#return-nil", p.Ret.Pos(), p.Facts,
						okOf(`google\.golang\.org/protobuf/proto\.Unmarshal`), okOf(`github\.com/libp2p/go-libp2p/core/crypto\.UnmarshalPublicKey`), okOf(`github\.com/libp2p/go-libp2p/core/peer\.IDFromPublicKey`))
				}
				var idSt, keySt *ssa.Store
				EachInstr(iu, func(in ssa.Instruction) {
					if st, ok := in.(*ssa.Store); ok {
						switch Desc(st.Addr) {
						case "&P0.id":
							idSt = st
						case "&P0.pubKey":
							keySt = st
						}
					}
				})
				if idSt == nil || keySt == nil {
					r.Undecided("C18.identity", FnName(iu), "stores to id/pubKey not found")
				} else {
					r.Cond(re(`^call:github\.com/libp2p/go-libp2p/core/peer\.IDFromPublicKey\(P0\.pubKey\)#0$`).MatchString(Desc(idSt.Val)) && InstrBefore(keySt, idSt),
						"C18.identity", FnName(iu)+"#id", idSt.Pos(), "id must be derived from the decoded public key; got "+Desc(idSt.Val))
					r.Cond(re(`^call:github\.com/libp2p/go-libp2p/core/crypto\.UnmarshalPublicKey\(.*\.PubKey\)#0$`).MatchString(Desc(keySt.Val)),
						"C18.identity", FnName(iu)+"#pubKey", keySt.Pos(), "pubKey must be decoded from the identity bytes; got "+abbr(Desc(keySt.Val), 2))
				}
			}
			r.OnlyCalledFrom("C18.only-door", `^pkg/net/libp2p\.channel\.deliver$`, 1, "pkg/net/libp2p.channel.processContainerMessage")
			if pp := r.MustFn("C18.only-door", "pkg/net/libp2p", "channel.processPubsubMessage"); pp != nil {
				for _, c := range Sites(pp, `^pkg/net/libp2p\.channel\.processContainerMessage$`, false) {
					r.Cond(re(`^call:github\.com/libp2p/go-libp2p-pubsub\.Message\.GetFrom\(P1\)$`).MatchString(Desc(c.Common().Args[1])), "C18.only-door", FnName(pp)+"#outer-sender", c.Pos(),
						"the proposed sender must be the pubsub message's authenticated author; got "+Desc(c.Common().Args[1]))
				}
			}
			if pm := r.MustFn("C18.total", "pkg/net/libp2p", "channel.processPubsubMessage"); pm != nil {
				fns := ReachableIn([]*ssa.Function{pm}, 6)
				for _, f := range fns {
					r.indexTotality("C18.total", f, false)
				}
				r.Cond(len(fns) >= 5, "C18.total", "receive-path", pm.Pos(), fmt.Sprintf("%d functions of pkg/net/libp2p reachable from processPubsubMessage examined", len(fns)))
			}
			if w := r.MustFn("C18.isolation", "pkg/net/libp2p", "channel.incomingMessageWorker"); w != nil {
				bs := BranchBlocks(w, `^-\(call:pkg/net/libp2p\.channel\.processPubsubMessage\(.*\) == nil\)$`)
				if len(bs) != 1 {
					r.Undecided("C18.isolation", FnName(w), "error branch not found")
				} else {
					// from the error branch the loop head (the select) must be reachable again, and no return lies on the way
					back := false
					for _, c := range Sites(w, `^pkg/net/libp2p\.channel\.processPubsubMessage$`, false) {
						if Reaches(bs[0], c.Block()) {
							back = true
						}
					}
					_, returns := bs[0].Instrs[len(bs[0].Instrs)-1].(*ssa.Return)
					r.Cond(back && !returns, "C18.isolation", FnName(w)+"#continue", w.Pos(), "after a rejected message the worker must go on receiving")
				}
			}
		},
	})
	witness(Witness{Prop: "C18", Name: "key-prefix-unguarded", File: "pkg/net/libp2p/identity.go",
		Old: "\ti.pubKey, err = libp2pcrypto.UnmarshalPublicKey(pbIdentity.PubKey)\n\tif err != nil {\n\t\treturn err\n\t}",
		New: "\ti.pubKey, err = libp2pcrypto.UnmarshalPublicKey(pbIdentity.PubKey)\n\tif err != nil {\n\t\treturn fmt.Errorf(\"bad key [%x]: [%v]\", pbIdentity.PubKey[:2], err)\n\t}", Rule: "C18.total"})
}
