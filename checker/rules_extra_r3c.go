package main

import (
	"fmt"
	"go/token"
	"go/types"
	"strings"

	"golang.org/x/tools/go/ssa"
)

// Rules added after round-3 seeds C03-7, C38-8, C38-9.
func init() {
	extend("C03", func(r *Run) {
		r.Rule("C03.bigint-arith", "Lagrange coefficients are computed in big integers reduced modulo the group order (no machine-word products that can wrap)", 1)
		fn := r.MustFn("C03.bigint-arith", "pkg/bls", "lagrangeBasis")
		if fn == nil {
			return
		}
		var bad []string
		EachInstr(fn, func(in ssa.Instruction) {
			bo, ok := in.(*ssa.BinOp)
			if !ok || bo.Op != token.MUL {
				return
			}
			if b, isB := bo.Type().Underlying().(*types.Basic); isB && b.Info()&types.IsInteger != 0 {
				bad = append(bad, r.W.Pos(bo.Pos()))
			}
		})
		r.Cond(len(bad) == 0, "C03.bigint-arith", FnName(fn), fn.Pos(), "no multiplication of machine integers (with up to 64 participants the products exceed 64 bits): "+strings.Join(bad, ", "))
	})
	extend("C38", func(r *Run) {
		r.Rule("C38.index-full-range", "member-index validators accept every value of the index type (a persisted index 255 must load again)", 2)
		r.Rule("C38.one-critical-section", "registering and archiving a wallet are single critical sections over cache and storage", 2)
		max := r.PkgConst("C38.index-full-range", "pkg/protocol/group", "MaxMemberIndex")
		n := 0
		for _, fn := range r.W.AllFuncs {
			if fn.Name() != "validateMemberIndex" || fn.Parent() != nil || len(fn.Params) != 1 {
				continue
			}
			n++
			ok := false
			for _, f := range SummaryNilErr(fn, 0) {
				if f == "+(P0 <= const:"+max+")" {
					ok = true
				}
				var k int64
				if _, err := fmt.Sscanf(f, "+(P0 < const:%d)", &k); err == nil && fmt.Sprint(k-1) == max {
					ok = true
				}
				// big.Int form: Cmp(P0, NewInt(max)) > 0 rejected
				if f == "+(call:math/big.Int.Cmp(P0, call:math/big.NewInt(const:"+max+")) <= const:0)" {
					ok = true
				}
			}
			r.Cond(ok, "C38.index-full-range", FnName(fn), fn.Pos(), "accepts exactly the indices up to MaxMemberIndex = "+max+"; accepting summary: "+strings.Join(abbrAll(SummaryNilErr(fn, 0), 2), ", "))
		}
		if n == 0 {
			r.Undecided("C38.index-full-range", "validateMemberIndex", "no validator found")
		}
		for _, mn := range []string{"walletRegistry.registerSigner", "walletRegistry.archiveWallet"} {
			fn := r.MustFn("C38.one-critical-section", "pkg/tbtc", mn)
			if fn == nil {
				continue
			}
			locks := Sites(fn, `^sync\.(RW)?Mutex\.Lock$`, false)
			plain := 0
			for _, c := range Sites(fn, `^sync\.(RW)?Mutex\.Unlock$`, false) {
				if _, isDefer := c.(*ssa.Defer); !isDefer {
					plain++
				}
			}
			r.Cond(len(locks) == 1 && plain == 0 && locks[0].Block() == fn.Blocks[0], "C38.one-critical-section", FnName(fn), fn.Pos(), fmt.Sprintf("the registry lock is taken once at entry and released only by defer (%d lock(s), %d plain unlock(s))", len(locks), plain))
		}
	})
}

// Rules added after round-3 seeds C10-7, C20-8, C42-8.
func init() {
	extend("C10", func(r *Run) {
		r.Rule("C10.retry-canonical", "the retry selections put their candidate operators in address order before any seeded shuffle or exclusion draw", 2)
		rootVar := func(v ssa.Value) ssa.Value {
			for {
				switch x := v.(type) {
				case *ssa.MakeInterface:
					v = x.X
				case *ssa.ChangeType:
					v = x.X
				case *ssa.Slice:
					v = x.X
				case *ssa.UnOp:
					if x.Op != token.MUL {
						return v
					}
					v = x.X
				default:
					return v
				}
			}
		}
		for _, name := range []string{"EvaluateRetryParticipantsForSigning", "EvaluateRetryParticipantsForKeyGeneration"} {
			fn := r.MustFn("C10.retry-canonical", "pkg/tecdsa/retry", name)
			if fn == nil {
				continue
			}
			sorts := CallsMatching(fn, `^sort\.Sort$`)
			var uses []ssa.CallInstruction
			uses = append(uses, CallsMatching(fn, `^math/rand\.Rand\.Shuffle$`)...)
			uses = append(uses, CallsMatching(fn, `pkg/tecdsa/retry\.exclude`)...)
			ok := len(uses) > 0
			var why []string
			for _, u := range uses {
				// the operator lists this draw works on
				var lists []ssa.Value
				for _, a := range u.Common().Args {
					if mc, isC := a.(*ssa.MakeClosure); isC {
						lists = append(lists, mc.Bindings...)
						continue
					}
					if sl, isS := a.Type().Underlying().(*types.Slice); isS && strings.HasSuffix(sl.Elem().String(), "chain.Address") {
						lists = append(lists, rootVar(a))
					}
				}
				covered := false
				for _, l := range lists {
					if p, isP := l.(*ssa.Parameter); isP && p.Name() == "groupMembers" {
						continue // the seat list is positional, not a candidate list
					}
					for _, s := range sorts {
						if (rootVar(s.Common().Args[0]) == l || Desc(rootVar(s.Common().Args[0])) == Desc(rootVar(l))) && isByAddress(s.Common().Args[0]) &&
							InstrBefore(s.(ssa.Instruction), u.(ssa.Instruction)) {
							covered = true
						}
					}
				}
				if !covered {
					ok = false
					why = append(why, r.W.Pos(u.Pos()))
				}
			}
			r.Cond(ok, "C10.retry-canonical", FnName(fn), fn.Pos(), fmt.Sprintf("every one of the %d seeded draws works on a list sorted with byAddress first; uncovered: %s", len(uses), strings.Join(why, ", ")))
		}
	})
	extend("C20", func(r *Run) {
		r.Rule("C20.configured-protocol", "both directions of the transport hand the handshake the protocol identifier the transport was configured with", 3)
		for _, name := range []string{"transport.SecureInbound", "transport.SecureOutbound"} {
			fn := r.MustFn("C20.configured-protocol", "pkg/net/libp2p", name)
			if fn == nil {
				continue
			}
			cs := CallsMatching(fn, `pkg/net/libp2p\.newAuthenticated(In|Out)boundConnection$`)
			ok := len(cs) == 1
			got := ""
			for _, c := range cs {
				args := c.Common().Args
				got = Desc(args[len(args)-1])
				if got != "P0.authProtocolID" {
					ok = false
				}
			}
			r.Cond(ok, "C20.configured-protocol", FnName(fn), fn.Pos(), "the protocol argument of the authenticated-connection constructor is the transport's authProtocolID field; got "+got)
		}
		if ctor := r.MustFn("C20.configured-protocol", "pkg/net/libp2p", "newEncryptedAuthenticatedTransport"); ctor != nil {
			ok := false
			EachInstr(ctor, func(in ssa.Instruction) {
				st, isSt := in.(*ssa.Store)
				if !isSt {
					return
				}
				if fa, isFA := st.Addr.(*ssa.FieldAddr); isFA && fieldName(fa.X.Type(), fa.Field) == "authProtocolID" {
					if p, isP := st.Val.(*ssa.Parameter); isP && p.Name() == "authProtocolID" {
						ok = true
					}
				}
			})
			r.Cond(ok, "C20.configured-protocol", FnName(ctor), ctor.Pos(), "the constructor stores its authProtocolID parameter in the field of the same name")
		}
	})
	extend("C42", func(r *Run) {
		r.Rule("C42.policy-each-check", "every status check asks the caller's join policy itself, and a join policy keeps no answer from one check to the next", 2)
		mp := r.MustFn("C42.policy-each-check", "pkg/sortition", "MonitorPool")
		if mp != nil {
			n, bad := 0, []string{}
			for _, f := range WithClosures(mp) {
				for _, c := range CallsMatching(f, `pkg/sortition\.checkOperatorStatus$`) {
					n++
					a := c.Common().Args[2]
					want := "?"
					for i, p := range mp.Params {
						if p.Name() == "policy" {
							want = fmt.Sprintf("P%d", i)
						}
					}
					okArg := Desc(a) == want || Desc(a) == "up("+want+")"
					if !okArg {
						bad = append(bad, r.W.Pos(c.Pos())+" passes "+Desc(a))
					}
				}
			}
			r.Cond(n >= 2 && len(bad) == 0, "C42.policy-each-check", FnName(mp), mp.Pos(), fmt.Sprintf("all %d status checks receive MonitorPool's own policy parameter: %s", n, strings.Join(bad, "; ")))
		}
		// every ShouldJoin implementation in non-test code is stateless
		n := 0
		var bad []string
		for _, fn := range r.W.AllFuncs {
			if fn.Name() != "ShouldJoin" || fn.Signature.Recv() == nil || fn.Parent() != nil || fn.Blocks == nil {
				continue
			}
			n++
			EachInstr(fn, func(in ssa.Instruction) {
				if st, isSt := in.(*ssa.Store); isSt {
					if _, isFA := st.Addr.(*ssa.FieldAddr); isFA && strings.HasPrefix(Desc(st.Addr), "&P0.") {
						bad = append(bad, r.W.Pos(st.Pos()))
					}
				}
			})
		}
		r.Cond(n >= 1 && len(bad) == 0, "C42.policy-each-check", "ShouldJoin implementations", token.NoPos, fmt.Sprintf("%d implementation(s) write no receiver field: %s", n, strings.Join(bad, ", ")))
	})
}


func isByAddress(v ssa.Value) bool {
	if mi, ok := v.(*ssa.MakeInterface); ok {
		return strings.HasSuffix(mi.X.Type().String(), "retry.byAddress")
	}
	return false
}
