package main

import (
	"fmt"
	"go/token"
	"go/types"
	"strings"

	"golang.org/x/tools/go/ssa"
)

// Rules added after round-3 seeds C03-7, C38-8, C38-9.
func init() {
	extend("C03", func(r *Run) {
		r.Rule("C03.bigint-arith", "Lagrange coefficients are computed in big integers reduced modulo the group order (no machine-word products that can wrap)", 1)
		fn := r.MustFn("C03.bigint-arith", "pkg/bls", "lagrangeBasis")
		if fn == nil {
			return
		}
		var bad []string
		EachInstr(fn, func(in ssa.Instruction) {
			bo, ok := in.(*ssa.BinOp)
			if !ok || bo.Op != token.MUL {
				return
			}
			if b, isB := bo.Type().Underlying().(*types.Basic); isB && b.Info()&types.IsInteger != 0 {
				bad = append(bad, r.W.Pos(bo.Pos()))
			}
		})
		r.Cond(len(bad) == 0, "C03.bigint-arith", FnName(fn), fn.Pos(), "no multiplication of machine integers (with up to 64 participants the products exceed 64 bits): "+strings.Join(bad, ", "))
	})
	extend("C38", func(r *Run) {
		r.Rule("C38.index-full-range", "member-index validators accept every value of the index type (a persisted index 255 must load again)", 2)
		r.Rule("C38.one-critical-section", "registering and archiving a wallet are single critical sections over cache and storage", 2)
		max := r.PkgConst("C38.index-full-range", "pkg/protocol/group", "MaxMemberIndex")
		n := 0
		for _, fn := range r.W.AllFuncs {
			if fn.Name() != "validateMemberIndex" || fn.Parent() != nil || len(fn.Params) != 1 {
				continue
			}
			n++
			ok := false
			for _, f := range SummaryNilErr(fn, 0) {
				if f == "+(P0 <= const:"+max+")" {
					ok = true
				}
				var k int64
				if _, err := fmt.Sscanf(f, "+(P0 < const:%d)", &k); err == nil && fmt.Sprint(k-1) == max {
					ok = true
				}
				// big.Int form: Cmp(P0, NewInt(max)) > 0 rejected
				if f == "+(call:math/big.Int.Cmp(P0, call:math/big.NewInt(const:"+max+")) <= const:0)" {
					ok = true
				}
			}
			r.Cond(ok, "C38.index-full-range", FnName(fn), fn.Pos(), "accepts exactly the indices up to MaxMemberIndex = "+max+"; accepting summary: "+strings.Join(abbrAll(SummaryNilErr(fn, 0), 2), ", "))
		}
		if n == 0 {
			r.Undecided("C38.index-full-range", "validateMemberIndex", "no validator found")
		}
		for _, mn := range []string{"walletRegistry.registerSigner", "walletRegistry.archiveWallet"} {
			fn := r.MustFn("C38.one-critical-section", "pkg/tbtc", mn)
			if fn == nil {
				continue
			}
			locks := Sites(fn, `^sync\.(RW)?Mutex\.Lock$`, false)
			plain := 0
			for _, c := range Sites(fn, `^sync\.(RW)?Mutex\.Unlock$`, false) {
				if _, isDefer := c.(*ssa.Defer); !isDefer {
					plain++
				}
			}
			r.Cond(len(locks) == 1 && plain == 0 && locks[0].Block() == fn.Blocks[0], "C38.one-critical-section", FnName(fn), fn.Pos(), fmt.Sprintf("the registry lock is taken once at entry and released only by defer (%d lock(s), %d plain unlock(s))", len(locks), plain))
		}
	})
}
