package main

import (
	"fmt"
	"go/constant"
	"go/token"
	"go/types"
	"sort"
	"strings"

	"golang.org/x/tools/go/ssa"
)

// Aff is an affine form c + Σ k_i·t_i over opaque terms (descriptions of
// non-arithmetic SSA values). Integer conversions are transparent (overflow
// is not modelled; stated in the evidence of the rules that use it).
type Aff struct {
	C int64
	T map[string]int64
}

func (a Aff) String() string {
	keys := make([]string, 0, len(a.T))
	for k, v := range a.T {
		if v != 0 {
			keys = append(keys, k)
		}
	}
	sort.Strings(keys)
	parts := []string{}
	for _, k := range keys {
		parts = append(parts, fmt.Sprintf("%d*%s", a.T[k], k))
	}
	parts = append(parts, fmt.Sprint(a.C))
	return strings.Join(parts, " + ")
}

func (a Aff) isConst() bool {
	for _, v := range a.T {
		if v != 0 {
			return false
		}
	}
	return true
}

func affAdd(a, b Aff, sb int64) Aff {
	r := Aff{C: a.C + sb*b.C, T: map[string]int64{}}
	for k, v := range a.T {
		r.T[k] += v
	}
	for k, v := range b.T {
		r.T[k] += sb * v
	}
	return r
}

func affScale(a Aff, k int64) Aff {
	r := Aff{C: a.C * k, T: map[string]int64{}}
	for t, v := range a.T {
		r.T[t] = v * k
	}
	return r
}

func isIntType(t types.Type) bool {
	b, ok := t.Underlying().(*types.Basic)
	return ok && b.Info()&types.IsInteger != 0
}

// Affine computes the affine form of an integer SSA value.
func Affine(v ssa.Value) Aff { return affine(v, 12) }

func affine(v ssa.Value, d int) Aff {
	leaf := func() Aff { return Aff{T: map[string]int64{Desc(stripConv(v)): 1}} }
	if d == 0 {
		return leaf()
	}
	switch x := v.(type) {
	case *ssa.Const:
		if x.Value != nil && x.Value.Kind() == constant.Int {
			if n, ok := constant.Int64Val(x.Value); ok {
				return Aff{C: n, T: map[string]int64{}}
			}
		}
		return leaf()
	case *ssa.Convert:
		if isIntType(x.Type()) && isIntType(x.X.Type()) {
			return affine(x.X, d-1)
		}
	case *ssa.ChangeType:
		return affine(x.X, d-1)
	case *ssa.UnOp:
		// load of a local that is assigned exactly once (address-taken because a
		// closure captures it), in this function or — through a free variable —
		// in the enclosing one
		if x.Op == token.MUL {
			var al *ssa.Alloc
			switch a := x.X.(type) {
			case *ssa.Alloc:
				al = a
			case *ssa.FreeVar:
				if b := freeVarBinding(a); b != nil {
					al, _ = b.(*ssa.Alloc)
				}
			}
			if al != nil && isIntType(x.Type()) {
				if sv := singleStore(al); sv != nil {
					return affine(sv, d-1)
				}
			}
		}
	case *ssa.BinOp:
		switch x.Op {
		case token.ADD:
			return affAdd(affine(x.X, d-1), affine(x.Y, d-1), 1)
		case token.SUB:
			return affAdd(affine(x.X, d-1), affine(x.Y, d-1), -1)
		case token.MUL:
			a, b := affine(x.X, d-1), affine(x.Y, d-1)
			if a.isConst() {
				return affScale(b, a.C)
			}
			if b.isConst() {
				return affScale(a, b.C)
			}
		}
	case *ssa.Call:
		// constant-returning repository helper: inline its constant
		if fn := staticCallee(x); fn != nil && fn.Blocks != nil && len(fn.Params) == len(x.Call.Args) {
			if c, ok := constResult(fn, d-1); ok {
				return c
			}
		}
	}
	return leaf()
}

// constResult: fn has a single return whose value is an affine constant
// (possibly through other constant-returning helpers).
func constResult(fn *ssa.Function, d int) (Aff, bool) {
	var res *Aff
	for _, b := range fn.Blocks {
		ret, ok := b.Instrs[len(b.Instrs)-1].(*ssa.Return)
		if !ok {
			continue
		}
		if len(ret.Results) != 1 || res != nil {
			return Aff{}, false
		}
		a := affine(ret.Results[0], d)
		if !a.isConst() {
			return Aff{}, false
		}
		res = &a
	}
	if res == nil {
		return Aff{}, false
	}
	return *res, true
}

func stripConv(v ssa.Value) ssa.Value {
	for {
		switch x := v.(type) {
		case *ssa.Convert:
			if isIntType(x.Type()) && isIntType(x.X.Type()) {
				v = x.X
				continue
			}
		case *ssa.ChangeType:
			v = x.X
			continue
		}
		return v
	}
}

// CmpGuard is a dominating ordered comparison Lo < Hi (Strict) or Lo <= Hi.
type CmpGuard struct {
	Lo, Hi ssa.Value
	Strict bool
}

func CmpGuards(b *ssa.BasicBlock) []CmpGuard { return cmpOf(Guards(b)) }

func cmpOf(gs []Guard) []CmpGuard {
	var out []CmpGuard
	for _, g := range gs {
		bo, ok := g.Cond.(*ssa.BinOp)
		if !ok {
			continue
		}
		var lo, hi ssa.Value
		strict := false
		switch bo.Op {
		case token.LSS:
			lo, hi, strict = bo.X, bo.Y, true
		case token.LEQ:
			lo, hi = bo.X, bo.Y
		case token.GTR:
			lo, hi, strict = bo.Y, bo.X, true
		case token.GEQ:
			lo, hi = bo.Y, bo.X
		default:
			continue
		}
		if !g.Pol {
			lo, hi, strict = hi, lo, !strict
		}
		out = append(out, CmpGuard{lo, hi, strict})
	}
	return out
}

// AffEq compares an SSA value's affine form with an expected rendering.
func AffIs(v ssa.Value, want string) bool { return Affine(v).String() == want }
