package main

import (
	"fmt"
	"go/types"
	"regexp"
	"strings"

	"golang.org/x/tools/go/ssa"
)

// Rules added after seeded changes to the Bitcoin transaction code were missed
// (C26-3, C27-1/2/3, C30-3).

// scriptSourceOK: v is the locking script (or the whole output) of the output
// at the UTXO's own outpoint, fetched from the chain — directly, or through a
// memo map of the receiver whose key is built from BOTH the transaction hash
// and the output index.
func scriptSourceOK(fn *ssa.Function, v ssa.Value, depth int) (bool, string) {
	direct := regexp.MustCompile(`^invoke:pkg/bitcoin\.Chain\.GetTransaction\(P0\.chain, P1\.Outpoint\.TransactionHash\)#0\.Outputs\[P1\.Outpoint\.OutputIndex\](\.PublicKeyScript)?$`)
	d := Desc(v)
	if direct.MatchString(d) {
		return true, ""
	}
	if depth == 0 {
		return false, "too deep: " + abbr(d, 2)
	}
	switch x := v.(type) {
	case *ssa.Phi:
		for _, e := range x.Edges {
			if ok, why := scriptSourceOK(fn, e, depth-1); !ok {
				return false, why
			}
		}
		return true, ""
	case *ssa.Extract:
		return scriptSourceOK(fn, x.Tuple, depth-1)
	case *ssa.UnOp:
		return scriptSourceOK(fn, x.X, depth-1)
	case *ssa.FieldAddr:
		return scriptSourceOK(fn, x.X, depth-1)
	case *ssa.Field:
		return scriptSourceOK(fn, x.X, depth-1)
	case *ssa.Lookup:
		if _, isMap := x.X.Type().Underlying().(*types.Map); !isMap {
			break
		}
		k := Desc(x.Index)
		if !strings.Contains(k, "P1.Outpoint.TransactionHash") || !strings.Contains(k, "P1.Outpoint.OutputIndex") {
			return false, "a memo of previous outputs is keyed by " + abbr(k, 2) + ", which does not identify the outpoint (transaction hash AND output index)"
		}
		// every insert into that map stores the directly fetched output under such a key
		okAll, n := true, 0
		EachInstr(fn, func(in ssa.Instruction) {
			mu, isMU := in.(*ssa.MapUpdate)
			if !isMU || Desc(mu.Map) != Desc(x.X) {
				return
			}
			n++
			if Desc(mu.Key) != k {
				okAll = false
			}
			if ok, _ := scriptSourceOK(fn, mu.Value, depth-1); !ok {
				okAll = false
			}
		})
		if n > 0 && okAll {
			return true, ""
		}
		return false, "memo inserts do not store the fetched output under the outpoint key"
	}
	return false, "script comes from " + abbr(d, 2)
}

func init() {
	const bp = "pkg/bitcoin"
	// ------------------------------------------------------------ C27
	extend("C27", func(r *Run) {
		r.Rule("C27.script-source", "the locking script recorded for an input is that of the output at the UTXO's own outpoint (hash and index)", 2)
		r.Rule("C27.encoding", "the pushed signature is the canonical (low-S) DER of the verified (R, S) plus the SIGHASH_ALL byte; the pushed key is the compressed form of the verified key", 3)
		r.Rule("C27.fresh-midstate", "the BIP-143 midstate used for witness sighashes is computed from the current transaction in the same call", 1)
		if gs := r.MustFn("C27.script-source", bp, "TransactionBuilder.getScript"); gs != nil {
			for _, p := range SuccessReturns(gs) {
				ok, why := scriptSourceOK(gs, RetResults(p.Ret)[0], 6)
				r.Cond(ok, "C27.script-source", FnName(gs)+"#result", p.Ret.Pos(), "returned script = GetTransaction(utxo.Outpoint.TransactionHash).Outputs[utxo.Outpoint.OutputIndex].PublicKeyScript "+why)
				r.Check("C27.script-source", FnName(gs)+"#fetched", p.Ret.Pos(), p.Facts, okOf(`pkg/bitcoin\.Chain\.GetTransaction`))
			}
			for _, an := range []string{"TransactionBuilder.AddPublicKeyHashInput", "TransactionBuilder.AddScriptHashInput"} {
				if fn := r.W.Fn(bp, an); fn != nil {
					for _, c := range Sites(fn, `^pkg/bitcoin\.TransactionBuilder\.getScript$`, false) {
						r.Cond(Desc(c.Common().Args[0]) == "P0" && Desc(c.Common().Args[1]) == "P1", "C27.script-source", FnName(fn)+"#own-utxo", c.Pos(), "the script is looked up for the UTXO being added")
					}
				}
			}
		}
		if as := r.MustFn("C27.encoding", bp, "TransactionBuilder.AddSignatures"); as != nil {
			name := FnName(as)
			vs := Sites(as, `^crypto/ecdsa\.Verify$`, false)
			sers := Sites(as, `btcec(/v2)?(/ecdsa)?\.Signature\.Serialize$`, false)
			keys := Sites(as, `btcec(/v2)?\.PublicKey\.SerializeCompressed$`, false)
			if len(vs) != 1 || len(sers) != 1 || len(keys) != 1 {
				r.Fail("C27.encoding", name+"#sites", as.Pos(), fmt.Sprintf("expected one ecdsa.Verify, one btcec Signature.Serialize (low-S canonical DER) and one SerializeCompressed; found %d, %d, %d", len(vs), len(sers), len(keys)), nil, nil)
			} else {
				va := vs[0].Common().Args
				// the serialized signature object carries the verified R and S
				rs := map[string]string{}
				if al, ok := sers[0].Common().Args[0].(*ssa.Alloc); ok {
					for _, ref := range *al.Referrers() {
						if fa, ok := ref.(*ssa.FieldAddr); ok {
							for _, r2 := range *fa.Referrers() {
								if st, ok := r2.(*ssa.Store); ok && st.Addr == ssa.Value(fa) {
									rs[fieldName(fa.X.Type(), fa.Field)] = Desc(st.Val)
								}
							}
						}
					}
				}
				r.Cond(rs["R"] == Desc(va[2]) && rs["S"] == Desc(va[3]) && rs["R"] != "", "C27.encoding", name+"#same-signature", sers[0].Pos(), "the serialized signature is the (R, S) pair that was verified")
				r.Cond(Desc(stripConv(keys[0].Common().Args[0])) == Desc(va[0]), "C27.encoding", name+"#same-key", keys[0].Pos(), "the pushed public key is the one the signature was verified with")
				okByte := false
				for _, ap := range appendsIn(as) {
					if ap.Call.Args[0] == callValue(sers[0]) {
						if e := appendedElem(ap); e != nil {
							if k, isC := constInt(e); isC && k == 1 {
								okByte = true
							}
						}
					}
				}
				r.Cond(okByte, "C27.encoding", name+"#sighash-byte", sers[0].Pos(), "exactly the SIGHASH_ALL byte (the hash type the sighashes were computed with) follows the DER signature")
			}
		}
		if cs := r.MustFn("C27.fresh-midstate", bp, "TransactionBuilder.ComputeSignatureHashes"); cs != nil {
			for _, c := range Sites(cs, `txscript\.CalcWitnessSigHash$`, false) {
				a := c.Common().Args
				ok := len(a) == 6 && Desc(a[1]) == "call:github.com/btcsuite/btcd/txscript.NewTxSigHashes(P0.internal.MsgTx)" && Desc(a[3]) == "P0.internal.MsgTx"
				r.Cond(ok, "C27.fresh-midstate", FnName(cs), c.Pos(), "CalcWitnessSigHash gets NewTxSigHashes(current transaction) computed in this call, and that same transaction; got "+abbr(Desc(a[1]), 2))
			}
		}
	})
	witness(Witness{Prop: "C27", Name: "script-of-first-output", File: "pkg/bitcoin/transaction_builder.go",
		Old: "\treturn transaction.Outputs[utxo.Outpoint.OutputIndex].PublicKeyScript, nil", New: "\treturn transaction.Outputs[0].PublicKeyScript, nil", Rule: "C27.script-source"})
	// ------------------------------------------------------------ C26
	extend("C26", func(r *Run) {
		r.Rule("C26.input-values", "the value recorded for an input (summed by TotalInputsValue, from which the change is computed) is the UTXO's value, its script that of the UTXO's outpoint", 4)
		for _, an := range []string{"TransactionBuilder.AddPublicKeyHashInput", "TransactionBuilder.AddScriptHashInput"} {
			fn := r.MustFn("C26.input-values", bp, an)
			if fn == nil {
				continue
			}
			n := 0
			EachInstr(fn, func(in ssa.Instruction) {
				st, ok := in.(*ssa.Store)
				if !ok {
					return
				}
				fa, ok := st.Addr.(*ssa.FieldAddr)
				if !ok || !strings.HasSuffix(typeName(fa.X.Type()), "bitcoin.inputSigHashArgs") || fieldName(fa.X.Type(), fa.Field) != "value" {
					return
				}
				n++
				r.Cond(Desc(st.Val) == "P1.Value", "C26.input-values", FnName(fn)+"#value", in.Pos(), "recorded input value = utxo.Value; got "+abbr(Desc(st.Val), 2))
			})
			if n == 0 {
				r.Undecided("C26.input-values", FnName(fn)+"#value", "store of the input value not found")
			}
		}
		if tv := r.MustFn("C26.input-values", bp, "TransactionBuilder.TotalInputsValue"); tv != nil {
			ok := false
			for _, b := range tv.Blocks {
				if ret, isRet := b.Instrs[len(b.Instrs)-1].(*ssa.Return); isRet {
					if x := accumulatorOf(RetResults(ret)[0]); x != nil && strings.HasPrefix(Desc(x), "P0.sigHashArgs[") && strings.HasSuffix(Desc(x), ".value") {
						ok = true
					}
				}
			}
			r.Cond(ok, "C26.input-values", FnName(tv), tv.Pos(), "total = Σ recorded input values")
		}
		if gs := r.MustFn("C26.input-values", bp, "TransactionBuilder.getScript"); gs != nil {
			for _, p := range SuccessReturns(gs) {
				ok, why := scriptSourceOK(gs, RetResults(p.Ret)[0], 6)
				r.Cond(ok, "C26.input-values", FnName(gs)+"#result", p.Ret.Pos(), "looked-up previous output is the one at the UTXO's own outpoint "+why)
			}
		}
	})
	// ------------------------------------------------------------ C30
	extend("C30", func(r *Run) {
		const pg = "pkg/tbtcpg"
		r.Rule("C30.callers", "the shape handed to the estimator is the shape of the transaction that will be built (one script-hash input per swept deposit with the maximal deposit script length; one output of the matching class per redeemer script)", 9)
		est := `pkg/bitcoin\.TransactionSizeEstimator\.`
		if fn := r.MustFn("C30.callers", pg, "estimateDepositsSweepFee"); fn != nil {
			name := FnName(fn)
			size := r.PkgConst("C30.callers", pg, "depositScriptByteSize")
			chk := func(callee string, want ...string) {
				cs := Sites(fn, `^`+est+callee+`$`, false)
				if len(cs) != 1 {
					r.Fail("C30.callers", name+"#"+callee, fn.Pos(), fmt.Sprintf("expected one %s call, found %d", callee, len(cs)), nil, nil)
					return
				}
				var got []string
				for _, a := range cs[0].Common().Args[1:] {
					got = append(got, Desc(a))
				}
				r.Cond(seqEq(got, want), "C30.callers", name+"#"+callee, cs[0].Pos(), fmt.Sprintf("%s%v; want %v", callee, got, want))
			}
			chk("AddPublicKeyHashInputs", "const:1", "const:true")
			chk("AddScriptHashInputs", "P1", "const:"+size, "const:true")
			chk("AddPublicKeyHashOutputs", "const:1", "const:true")
			// the constant covers the longest deposit script
			if max := depositScriptMax(r); max > 0 {
				r.Cond(size == fmt.Sprint(max), "C30.callers", pg+".depositScriptByteSize", fn.Pos(), fmt.Sprintf("depositScriptByteSize = %s; the longest deposit script (format with extra data, field sizes from tbtc.Deposit) has %d bytes", size, max))
			}
		}
		if fn := r.MustFn("C30.callers", pg, "DepositSweepTask.ProposeDepositsSweep"); fn != nil {
			name := FnName(fn)
			var dep string
			for i, p := range fn.Params {
				if p.Name() == "deposits" {
					dep = fmt.Sprintf("P%d", i)
				}
			}
			for _, c := range Sites(fn, `^pkg/tbtcpg\.estimateDepositsSweepFee$`, false) {
				r.Cond(dep != "" && Desc(c.Common().Args[1]) == "len("+dep+")", "C30.callers", name+"#count", c.Pos(), "estimated for exactly as many script-hash inputs as deposits are proposed; got "+abbr(Desc(c.Common().Args[1]), 2))
			}
			m, pos := complitFields(fn, "pkg/tbtc.DepositSweepProposal")
			okKeys := false
			if v, has := m["DepositsKeys"]; has {
				if mk, isMk := stripConv(v).(*ssa.MakeSlice); isMk {
					okKeys = Desc(mk.Len) == "len("+dep+")"
				}
			}
			r.Cond(okKeys, "C30.callers", name+"#proposal", pos, "the proposal lists one key per deposit of that same list")
		}
		if fn := r.MustFn("C30.callers", pg, "EstimateRedemptionFee"); fn != nil {
			name := FnName(fn)
			type cls struct {
				callee  string
				witness string
			}
			want := map[string]cls{}
			for cn, c := range map[string]cls{"P2PKHScript": {"AddPublicKeyHashOutputs", "false"}, "P2WPKHScript": {"AddPublicKeyHashOutputs", "true"}, "P2SHScript": {"AddScriptHashOutputs", "false"}, "P2WSHScript": {"AddScriptHashOutputs", "true"}} {
				want[r.PkgConst("C30.callers", bp, cn)] = c
			}
			var header *ssa.BasicBlock
			for _, l := range Loops(fn) {
				if s := loopSource(l.Header); s != nil && Desc(s) == "P1" && l.Kind == "range" {
					header = l.Header
				}
			}
			if header == nil {
				r.Undecided("C30.callers", name+"#loop", "range over the redeemer scripts not found")
				return
			}
			seen := map[string]bool{}
			typeFact := regexp.MustCompile(`^\+\(call:pkg/bitcoin\.GetScriptType\(P1\[.*\]\) == const:(\d+)\)$`)
			for _, c := range Sites(fn, `^`+est+`Add(PublicKeyHash|ScriptHash)Outputs$`, false) {
				if !dominates(header, c.Block()) || c.Block() == header {
					continue
				}
				k := ""
				for _, f := range Facts(c.Block()) {
					if m := typeFact.FindStringSubmatch(f); m != nil {
						k = m[1]
					}
				}
				w, has := want[k]
				a := c.Common().Args
				ok := has && strings.HasSuffix(CalleeName(c), "."+w.callee) && Desc(a[1]) == "const:1" && Desc(a[2]) == "const:"+w.witness
				seen[k] = true
				r.Cond(ok, "C30.callers", name+"#type/"+k, c.Pos(), "one output of the class matching the redeemer script type")
			}
			r.Cond(len(seen) == 4, "C30.callers", name+"#all-types", fn.Pos(), "all four standard script types are covered")
			// an unknown type fails the estimate (it is not silently left out)
			okDefault := false
			for _, b := range fn.Blocks {
				neg := 0
				for _, f := range Facts(b) {
					if strings.HasPrefix(f, "-(call:pkg/bitcoin.GetScriptType(") {
						neg++
					}
				}
				if neg == 4 && !Reaches(b, header) {
					okDefault = true
				}
			}
			r.Cond(okDefault, "C30.callers", name+"#default", fn.Pos(), "a non-standard redeemer script fails the estimate instead of being skipped")
			// the fixed part
			fixed := 0
			for _, c := range Sites(fn, `^`+est+`Add(PublicKeyHashInputs|PublicKeyHashOutputs)$`, false) {
				if c.Block() == fn.Blocks[0] {
					a := c.Common().Args
					if Desc(a[1]) == "const:1" && Desc(a[2]) == "const:true" {
						fixed++
					}
				}
			}
			r.Cond(fixed == 2, "C30.callers", name+"#fixed", fn.Pos(), "one P2WPKH main input and one P2WPKH change output")
		}
		if fn := r.MustFn("C30.callers", pg, "RedemptionTask.ProposeRedemption"); fn != nil {
			for _, c := range Sites(fn, `^pkg/tbtcpg\.EstimateRedemptionFee$`, false) {
				m, _ := complitFields(fn, "pkg/tbtc.RedemptionProposal")
				v := m["RedeemersOutputScripts"]
				r.Cond(v != nil && Desc(v) == Desc(c.Common().Args[1]), "C30.callers", FnName(fn)+"#scripts", c.Pos(), "estimated for the very scripts the proposal lists")
			}
		}
	})
}

// depositScriptMax computes the byte length of the longest deposit script from
// the format constants of pkg/tbtc (hex text with %v placeholders) and the
// sizes of the Deposit fields substituted into them; 0 when undecidable.
func depositScriptMax(r *Run) int {
	max := 0
	for _, cn := range []string{"depositScriptFormat", "depositWithExtraDataScriptFormat"} {
		f := strings.Trim(r.PkgConst("C30.callers", "pkg/tbtc", cn), `"`)
		if f == "" {
			return 0
		}
		n := strings.Count(f, "%v")
		lit := len(strings.ReplaceAll(f, "%v", ""))
		if lit%2 != 0 {
			r.Undecided("C30.callers", "pkg/tbtc."+cn, "odd number of literal hex digits")
			return 0
		}
		// each placeholder is preceded by its push opcode: the two hex digits before "%v"
		total := lit / 2
		idx := 0
		for i := 0; i < n; i++ {
			j := strings.Index(f[idx:], "%v") + idx
			if j < 2 {
				return 0
			}
			var push int
			if _, err := fmt.Sscanf(f[j-2:j], "%x", &push); err != nil || push < 1 || push > 75 {
				r.Undecided("C30.callers", "pkg/tbtc."+cn, "placeholder not preceded by a direct push opcode")
				return 0
			}
			total += push
			idx = j + 2
		}
		if total > max {
			max = total
		}
	}
	return max
}

// Added after round-2 seeds C26-4 and C26-6.
func init() {
	extend("C26", func(r *Run) {
		r.Rule("C26.every-input", "every intended UTXO becomes an input: no iteration of an input loop can go on to the next element without adding its input", 1)
		r.Rule("C26.wallet-script", "the wallet's own output script hashes the 33-byte compressed public key", 1)
		for _, an := range []string{"assembleDepositSweepTransaction", "assembleMovedFundsSweepTransaction", "assembleRedemptionTransaction"} {
			fn := r.W.Fn("pkg/tbtc", an)
			if fn == nil {
				continue
			}
			for _, l := range Loops(fn) {
				// loops that add inputs
				var adds []ssa.CallInstruction
				for _, c := range Sites(fn, `^pkg/bitcoin\.TransactionBuilder\.Add(ScriptHash|PublicKeyHash)Input$`, false) {
					if l.Blocks[c.Block()] {
						adds = append(adds, c)
					}
				}
				if len(adds) == 0 {
					continue
				}
				ok := len(adds) == 1
				if ok {
					// from the loop body's first block, the header cannot be reached again without passing the add
					for _, s := range l.Header.Succs {
						if l.Blocks[s] && s != adds[0].Block() && reachesAvoiding(s, l.Header, adds[0].Block()) {
							ok = false
						}
					}
				}
				r.Cond(ok, "C26.every-input", FnName(fn)+"#loop@"+abbr(Desc(loopSourceOrNil(l)), 1), adds[0].Pos(), "each element of the ranged list reaches the input-adding call (or fails the whole assembly); none is skipped")
			}
		}
		if fn := r.MustFn("C26.wallet-script", "pkg/bitcoin", "PublicKeyHash"); fn != nil {
			ok := false
			for _, c := range Sites(fn, `^builtin:copy$`, false) {
				ok = Desc(c.Common().Args[1]) == "call:github.com/btcsuite/btcutil.Hash160(call:crypto/elliptic.MarshalCompressed(P0.Curve, P0.X, P0.Y))" && strings.HasSuffix(Desc(c.Common().Args[0]), "[:]")
			}
			r.Cond(ok, "C26.wallet-script", FnName(fn), fn.Pos(), "hash160 of elliptic.MarshalCompressed(curve, X, Y) — the fixed-width encoding (a hand-rolled one loses leading zero bytes of X)")
		}
	})
	witness(Witness{Prop: "C26", Name: "deposit-skipped-silently", File: "pkg/tbtc/deposit_sweep.go",
		Old: "\t\terr = builder.AddScriptHashInput(deposit.Utxo, depositScript)", New: "\t\tif i > 0 && deposit.Utxo.Value == deposits[0].Utxo.Value {\n\t\t\tcontinue\n\t\t}\n\t\terr = builder.AddScriptHashInput(deposit.Utxo, depositScript)", Rule: "C26.every-input"})
}

func loopSourceOrNil(l *Loop) ssa.Value {
	if s := loopSource(l.Header); s != nil {
		return s
	}
	return l.Header.Instrs[0].(ssa.Value)
}
