package main

import (
	"fmt"
	"go/constant"
	"go/token"
	"go/types"
	"strings"

	"golang.org/x/tools/go/ssa"
)

func isMemberIndexType(t types.Type) bool {
	var obj *types.TypeName
	switch n := t.(type) {
	case *types.Named:
		obj = n.Obj()
	case *types.Alias:
		obj = n.Obj()
	}
	return obj != nil && obj.Name() == "MemberIndex" && obj.Pkg() != nil && strings.HasSuffix(obj.Pkg().Path(), "pkg/protocol/group")
}

// indexBase: abstract base of an integer value: 1 for group member indexes
// (members are numbered from 1), 0 for residues and range positions, shifted by
// ±1 constants; -99 = unknown.
func indexBase(v ssa.Value, d int) int {
	const unknown = -99
	if d == 0 || v == nil {
		return unknown
	}
	switch x := v.(type) {
	case *ssa.Convert:
		if isMemberIndexType(x.X.Type()) {
			return indexBase(x.X, d-1)
		}
		return indexBase(x.X, d-1)
	case *ssa.ChangeType:
		return indexBase(x.X, d-1)
	case *ssa.BinOp:
		c := func(v ssa.Value) (int64, bool) {
			if k, ok := v.(*ssa.Const); ok && k.Value != nil && k.Value.Kind() == constant.Int {
				n, ok := constant.Int64Val(k.Value)
				return n, ok
			}
			return 0, false
		}
		switch x.Op {
		case token.REM:
			return 0
		case token.SUB:
			if n, ok := c(x.Y); ok {
				if b := indexBase(x.X, d-1); b != unknown {
					return b - int(n)
				}
			}
		case token.ADD:
			if n, ok := c(x.Y); ok {
				if b := indexBase(x.X, d-1); b != unknown {
					return b + int(n)
				}
			}
			if n, ok := c(x.X); ok {
				if b := indexBase(x.Y, d-1); b != unknown {
					return b + int(n)
				}
			}
		}
		return unknown
	case *ssa.Call:
		n := CalleeName(x)
		if n == "math/big.Int.Uint64" || n == "math/big.Int.Int64" {
			recv := x.Call.Args[0]
			if rc, ok := recv.(*ssa.Call); ok && CalleeName(rc) == "math/big.Int.Mod" {
				return 0
			}
		}
		return unknown
	case *ssa.Phi:
		b := unknown
		for i, e := range x.Edges {
			eb := indexBase(e, d-1)
			if i == 0 {
				b = eb
			} else if eb != b {
				return unknown
			}
		}
		return b
	}
	if isMemberIndexType(v.Type()) {
		return 1
	}
	return unknown
}

// slotShape decomposes a waited block height into ref + pos·step, where pos is
// the factor depending on a member index.
type slotShape struct {
	Ref, Pos, Step ssa.Value
}

func dependsOnMemberIndex(v ssa.Value) bool {
	found := false
	seen := map[ssa.Value]bool{}
	var walk func(v ssa.Value, d int)
	walk = func(v ssa.Value, d int) {
		if v == nil || d == 0 || seen[v] || found {
			return
		}
		seen[v] = true
		if isMemberIndexType(v.Type()) {
			found = true
			return
		}
		if in, ok := v.(ssa.Instruction); ok {
			for _, op := range in.Operands(nil) {
				if *op != nil {
					walk(*op, d-1)
				}
			}
		}
	}
	walk(v, 12)
	return found
}

func slotOf(v ssa.Value) (slotShape, bool) {
	v = stripConv(v)
	// through a phi (submitter precedence branch): handled by caller
	add, ok := v.(*ssa.BinOp)
	if !ok || add.Op != token.ADD {
		return slotShape{}, false
	}
	try := func(ref, prod ssa.Value) (slotShape, bool) {
		m, ok := stripConv(prod).(*ssa.BinOp)
		if !ok || m.Op != token.MUL {
			return slotShape{}, false
		}
		switch {
		case dependsOnMemberIndex(m.X) && !dependsOnMemberIndex(m.Y):
			return slotShape{ref, m.X, m.Y}, true
		case dependsOnMemberIndex(m.Y) && !dependsOnMemberIndex(m.X):
			return slotShape{ref, m.Y, m.X}, true
		}
		return slotShape{}, false
	}
	if s, ok := try(add.X, add.Y); ok {
		return s, true
	}
	return try(add.Y, add.X)
}

func init() {
	type submitter struct {
		rel, fn     string
		waitPat     string // callee of the wait
		waitArg     int
		submitPat   string
		recheck     []string // facts that must dominate the submit call
		stepConst   string   // package constant name ("" = runtime step)
		description string
	}
	subs := []submitter{
		{"pkg/tbtc", "dkgResultSubmitter.SubmitResult", `^dyn$`, 1, `^invoke:pkg/tbtc\.Chain\.SubmitDKGResult$`,
			[]string{`^\+\(dyn:P0\.waitForBlockFn\(P1, .*\) == nil\)$`, `^\+\(invoke:context\.Context\.Err\(P1\) == nil\)$`,
				`^\+\(const:\d+ == invoke:pkg/tbtc\.Chain\.GetDKGState\(P0\.chain\)#0\)$`, okOf(`pkg/tbtc\.Chain\.GetDKGState`), trueOf(`pkg/tbtc\.Chain\.IsDKGResultValid`), okOf(`pkg/tbtc\.Chain\.IsDKGResultValid`)},
			"dkgResultSubmissionDelayStepBlocks", "tECDSA DKG result"},
		{"pkg/tbtc", "inactivityClaimSubmitter.SubmitClaim", `^dyn$`, 1, `^invoke:pkg/tbtc\.Chain\.SubmitInactivityClaim$`,
			[]string{`^\+\(dyn:P0\.waitForBlockFn\(P1, .*\) == nil\)$`, `^\+\(invoke:context\.Context\.Err\(P1\) == nil\)$`,
				`^\+\(call:math/big\.Int\.Cmp\(invoke:pkg/tbtc\.Chain\.GetInactivityClaimNonce\(.*\)#0, P3\.Nonce\) <= const:0\)$`, okOf(`pkg/tbtc\.Chain\.GetInactivityClaimNonce`)},
			"inactivityClaimSubmissionDelayStepBlocks", "inactivity claim"},
	}
	register(&Prop{
		ID:        "C47",
		Technique: "static analysis: affine/product decomposition of the waited block, index-base typing (1-based member index vs 0-based residue), dominator facts on the submit calls, constant evaluation of the beacon configuration (go/ssa)",
		Explanation: "For the five submitters (beacon DKG result, relay entry, tECDSA DKG result, DKG result approval, inactivity claim): the block handed to the wait primitive has the shape ref + pos·step where pos is the only factor that depends on the member index and is either (memberIndex − 1) (coefficient 1, so distinct indexes give distinct slots and member 1 waits 0 steps) or the relay-entry queue position, and step is a positive constant or the chain's publication step; " +
			"the chain submit/approve call is dominated by a successful wait and by the re-check that nobody finished meanwhile (ctx.Err() = nil after the wait, or the select branch of the waiter while the submitted-event branch returns without submitting), and by the state checks made before waiting (DKG awaiting result, group not registered, nonce not advanced). " +
			"Relay entry: both index operands of calculateSubmissionQueueIndex are 0-based (member index − 1 against entry mod groupSize), its two return forms are m − f under m ≥ f and m + n − f otherwise (so the position lies in [0, n−1] for 0-based operands below n), and every beacon Config literal has RelayEntryTimeout ≥ GroupSize·ResultPublicationBlockStep, hence every slot start + pos·step < start + timeout.",
		NotDecided: "run-time positivity of the chain-provided publication step; that the block counter fires exactly at the requested height; slots of members whose reference blocks differ (tBTC submitters start from each member's own current block); that a submitter and an approver of the approval precedence period never coincide.",
		Fn: func(r *Run) {
			r.Rule("C47.slot-shape", "waited block = ref + (memberIndex−1 | queue position)·step, step > 0", 5)
			r.Rule("C47.submit-gate", "submit only after the wait and the already-done re-check", 5)
			r.Rule("C47.queue-base", "relay-entry queue position computed from two 0-based operands; result forms m−f | m+n−f", 3)
			r.Rule("C47.timeout", "RelayEntryTimeout ≥ GroupSize·step in every beacon configuration", 2)

			checkSlot := func(rule, construct string, at ssa.Instruction, w ssa.Value, stepConst, rel string) {
				s, ok := slotOf(w)
				if !ok {
					r.Fail(rule, construct, at.Pos(), "waited block is not of the form ref + pos·step with exactly one index-dependent factor; got "+abbr(Desc(w), 2), nil, nil)
					return
				}
				if dependsOnMemberIndex(s.Ref) {
					r.Fail(rule, construct, at.Pos(), "the reference block itself depends on the member index", nil, nil)
					return
				}
				// position: memberIndex − 1, or the queue position
				posOK := false
				why := ""
				if c, ok := stripConv(s.Pos).(*ssa.Call); ok && CalleeName(c) == "pkg/beacon/entry.calculateSubmissionQueueIndex" {
					posOK, why = true, "queue position"
				} else {
					k, ts := AffineTerms(s.Pos)
					if len(ts) == 1 && ts[0].K == 1 && isMemberIndexType(ts[0].V.Type()) && k == -1 {
						posOK, why = true, "memberIndex − 1"
					} else {
						why = fmt.Sprintf("position must be memberIndex − 1 (injective, first member waits 0); got %s", abbr(Desc(s.Pos), 2))
					}
				}
				stepOK := false
				if stepConst != "" {
					want := r.PkgConst(rule, rel, stepConst)
					a := Affine(s.Step)
					stepOK = a.isConst() && fmt.Sprint(a.C) == want && a.C > 0
					why += fmt.Sprintf("; step %s=%s", stepConst, want)
				} else {
					d := Desc(stripConv(s.Step))
					stepOK = re(`^P\d$`).MatchString(d)
					why += "; step " + d
				}
				r.Cond(posOK && stepOK, rule, construct, at.Pos(), why)
			}

			for _, s := range subs {
				fn := r.MustFn("C47.slot-shape", s.rel, s.fn)
				if fn == nil {
					continue
				}
				waits := Sites(fn, s.waitPat, false)
				n := 0
				for _, wc := range waits {
					if !strings.Contains(Desc(wc.Common().Value), "waitForBlockFn") {
						continue
					}
					n++
					checkSlot("C47.slot-shape", FnName(fn)+"#wait", wc, wc.Common().Args[s.waitArg], s.stepConst, s.rel)
				}
				if n != 1 {
					r.Undecided("C47.slot-shape", FnName(fn)+"#wait", fmt.Sprintf("expected exactly one waitForBlockFn call, found %d", n))
				}
				r.CheckCalls("C47.submit-gate", fn, s.submitPat, 1, s.recheck...)
			}

			// DKG result approval (closure inside executeDkgValidation)
			if fn := r.MustFn("C47.slot-shape", "pkg/tbtc", "dkgExecutor.executeDkgValidation"); fn != nil {
				n := 0
				for _, f := range WithClosures(fn) {
					if len(Sites(f, `^invoke:pkg/tbtc\.Chain\.ApproveDKGResult$`, false)) == 0 {
						continue
					}
					for _, wc := range Sites(f, `^dyn$`, false) {
						if !strings.Contains(Desc(wc.Common().Value), "waitForBlockFn") {
							continue
						}
						n++
						w := wc.Common().Args[1]
						phi, isPhi := w.(*ssa.Phi)
						if !isPhi || len(phi.Edges) != 2 {
							r.Fail("C47.slot-shape", FnName(f)+"#wait", wc.Pos(), "approve block must be the precedence start for the submitter and ref + (memberIndex−1)·step otherwise", nil, nil)
							continue
						}
						for i, e := range phi.Edges {
							if _, ok := slotOf(e); ok {
								checkSlot("C47.slot-shape", FnName(f)+"#wait/non-submitter", wc, e, "dkgResultApprovalDelayStepBlocks", "pkg/tbtc")
								// this edge is taken only when memberIndex ≠ submitter
								facts := EdgeFacts(phi.Block().Preds[i], phi.Block())
								r.Check("C47.slot-shape", FnName(f)+"#wait/non-submitter-branch", wc.Pos(), facts, `^-\(.*SubmitterMemberIndex.*\)$`)
							} else {
								r.Cond(!dependsOnMemberIndex(e), "C47.slot-shape", FnName(f)+"#wait/submitter", wc.Pos(), "the submitter's precedence slot does not depend on the index")
							}
						}
						subsA := Sites(f, `^invoke:pkg/tbtc\.Chain\.OnDKGResultApproved$`, false)
						r.Cond(len(subsA) == 1 && InstrBefore(subsA[0].(ssa.Instruction), wc.(ssa.Instruction)), "C47.submit-gate", FnName(f)+"#subscribe-before-wait", wc.Pos(),
							"the approved-event subscription (which cancels the wait) is installed before waiting for the slot")
						r.CheckCalls("C47.submit-gate", f, `^invoke:pkg/tbtc\.Chain\.ApproveDKGResult$`, 1,
							`^\+\(dyn:.*waitForBlockFn\(.*\) == nil\)$`, `^\+\(invoke:context\.Context\.Err\(.*\) == nil\)$`)
					}
				}
				if n != 1 {
					r.Undecided("C47.slot-shape", FnName(fn)+"#wait", fmt.Sprintf("expected exactly one approval wait, found %d", n))
				}
			}

			// beacon DKG result and relay entry: BlockHeightWaiter + select
			type bsub struct{ rel, wait, outer, submit, waitCallee string }
			for _, b := range []bsub{
				{"pkg/beacon/dkg/result", "SubmittingMember.waitForSubmissionEligibility", "SubmittingMember.SubmitDKGResult", `^invoke:pkg/beacon/chain\.Interface\.SubmitDKGResult$`, `pkg/beacon/dkg/result\.SubmittingMember\.waitForSubmissionEligibility`},
				{"pkg/beacon/entry", "relayEntrySubmitter.waitForSubmissionEligibility", "relayEntrySubmitter.submitRelayEntry", `^invoke:pkg/beacon/chain\.Interface\.SubmitRelayEntry$`, `pkg/beacon/entry\.relayEntrySubmitter\.waitForSubmissionEligibility`},
			} {
				if wf := r.MustFn("C47.slot-shape", b.rel, b.wait); wf != nil {
					ws := Sites(wf, `^invoke:pkg/chain\.BlockCounter\.BlockHeightWaiter$`, false)
					if len(ws) != 1 {
						r.Undecided("C47.slot-shape", FnName(wf)+"#wait", "expected exactly one BlockHeightWaiter call")
					} else {
						checkSlot("C47.slot-shape", FnName(wf)+"#wait", ws[0], ws[0].Common().Args[0], "", b.rel)
						for _, p := range SuccessReturns(wf) {
							r.Cond(RetResults(p.Ret)[0] == valueOfExtract(ws[0], 0, wf), "C47.slot-shape", FnName(wf)+"#return", p.Ret.Pos(), "returns the waiter of the computed slot")
						}
					}
				}
				if of := r.MustFn("C47.submit-gate", b.rel, b.outer); of != nil {
					for _, c := range Sites(of, b.submit, false) {
						// the submit lies in the select branch of the eligibility waiter
						var sel *ssa.Select
						EachInstr(of, func(in ssa.Instruction) {
							if s, ok := in.(*ssa.Select); ok {
								sel = s
							}
						})
						ok := false
						if sel != nil {
							for i, st := range sel.States {
								if re(`^call:`+b.waitCallee+`\(.*\)#0$`).MatchString(Desc(st.Chan)) {
									if HasFact(Facts(c.Block()), fmt.Sprintf(`^\+\(const:%d == select#0\)$`, i)) {
										ok = true
									}
								}
							}
						}
						r.Cond(ok, "C47.submit-gate", FnName(of)+"#"+shortCallee(c)+"/own-slot-branch", c.Pos(), "submit only in the select branch that fires at the member's own slot; the submitted-event branch returns without submitting")
						r.Check("C47.submit-gate", FnName(of)+"#"+shortCallee(c)+"/eligibility-ok", c.Pos(), Facts(c.Block()), okOf(b.waitCallee))
						if b.rel == "pkg/beacon/dkg/result" {
							// subscribe first, check second: a result landing between a
							// check and a later subscription would be missed
							subs := Sites(of, `^invoke:pkg/beacon/chain\.Interface\.OnDKGResultSubmitted$`, false)
							chk := Sites(of, `^invoke:pkg/beacon/chain\.Interface\.IsGroupRegistered$`, false)
							okOrd := len(subs) == 1 && len(chk) >= 1
							for _, k := range chk {
								if okOrd && !InstrBefore(subs[0].(ssa.Instruction), k.(ssa.Instruction)) {
									okOrd = false
								}
							}
							r.Cond(okOrd, "C47.submit-gate", FnName(of)+"#subscribe-before-check", c.Pos(), "the submitted-event subscription is installed before the already-registered check (no window in which a competing result is missed)")
							r.Check("C47.submit-gate", FnName(of)+"#"+shortCallee(c)+"/not-registered", c.Pos(), Facts(c.Block()),
								falseOf(`pkg/beacon/chain\.Interface\.IsGroupRegistered`), okOf(`pkg/beacon/chain\.Interface\.IsGroupRegistered`))
						}
					}
				}
			}

			// relay entry queue
			if wf := r.MustFn("C47.queue-base", "pkg/beacon/entry", "relayEntrySubmitter.waitForSubmissionEligibility"); wf != nil {
				for _, c := range Sites(wf, `^pkg/beacon/entry\.calculateSubmissionQueueIndex$`, false) {
					a := c.Common().Args
					b0, b1 := indexBase(a[0], 8), indexBase(a[1], 8)
					r.Cond(b0 == 0 && b1 == 0, "C47.queue-base", FnName(wf)+"#queue-operands", c.Pos(),
						fmt.Sprintf("member position and first-submitter position must both be 0-based (got bases %d and %d; -99 = unknown): with a 1-based member index against entry mod groupSize the last member's position equals groupSize when the entry is divisible by the group size (slot = timeout block) and nobody holds position 0", b0, b1))
					r.Cond(Desc(stripConv(a[2])) == "P3" || strings.Contains(Desc(a[2]), "P3"), "C47.queue-base", FnName(wf)+"#queue-modulus", c.Pos(), "queue modulus is the group size used for the residue")
				}
			}
			if q := r.MustFn("C47.queue-base", "pkg/beacon/entry", "calculateSubmissionQueueIndex"); q != nil {
				for _, ret := range ReturnsMatching(q, 0, `.`) {
					a := Affine(ret.Results[0]).String()
					facts := Facts(ret.Block())
					switch a {
					case "1*P0 + -1*P1 + 0":
						r.Check("C47.queue-base", FnName(q)+"#m-f", ret.Pos(), facts, `^\+\(P1 <= P0\)$`)
					case "1*P0 + -1*P1 + 1*P2 + 0":
						r.Check("C47.queue-base", FnName(q)+"#m+n-f", ret.Pos(), facts, `^\+\(P0 < P1\)$`)
					default:
						r.Fail("C47.queue-base", FnName(q)+"#form", ret.Pos(), "unexpected queue position form "+a, nil, nil)
					}
				}
			}

			// configuration literals
			n := 0
			for _, fn := range r.W.AllFuncs {
				vals := map[string]map[string]ssa.Value{}
				EachInstr(fn, func(in ssa.Instruction) {
					st, ok := in.(*ssa.Store)
					if !ok {
						return
					}
					fa, ok := st.Addr.(*ssa.FieldAddr)
					if !ok {
						return
					}
					nt := namedOf(fa.X.Type())
					if nt == nil || nt.Obj().Name() != "Config" || nt.Obj().Pkg() == nil || !strings.HasSuffix(nt.Obj().Pkg().Path(), "pkg/beacon/chain") {
						return
					}
					k := Desc(fa.X)
					if vals[k] == nil {
						vals[k] = map[string]ssa.Value{}
					}
					vals[k][fieldName(fa.X.Type(), fa.Field)] = st.Val
				})
				for _, fs := range vals {
					if fs["RelayEntryTimeout"] == nil {
						continue
					}
					n++
					to, gs, step := Affine(fs["RelayEntryTimeout"]), Affine(fs["GroupSize"]), Affine(fs["ResultPublicationBlockStep"])
					ok := false
					if fs["GroupSize"] != nil && fs["ResultPublicationBlockStep"] != nil && step.isConst() && step.C > 0 {
						// timeout − GroupSize·step is a non-negative constant (GroupSize may be symbolic)
						diff := affAdd(to, affScale(gs, step.C), -1)
						ok = diff.isConst() && diff.C >= 0
					}
					r.Cond(ok, "C47.timeout", FnName(fn)+"#Config", fs["RelayEntryTimeout"].Pos(),
						fmt.Sprintf("RelayEntryTimeout=%s GroupSize=%s step=%s: need timeout ≥ GroupSize·step and step > 0", to, gs, step))
				}
			}
			if n == 0 {
				r.Undecided("C47.timeout", "beaconchain.Config", "no configuration literal found")
			}
		},
	})
	witness(Witness{Prop: "C47", Name: "queue-from-1-based-index", File: "pkg/beacon/entry/submission.go",
		Old: "uint64(res.index)-1,", New: "uint64(res.index),", Rule: "C47.queue-base"})
	witness(Witness{Prop: "C47", Name: "dkg-submit-without-recheck", File: "pkg/tbtc/dkg_submit.go",
		Old: "\tif ctx.Err() != nil {\n\t\t// The context was cancelled by the upstream. Regardless of the cause,\n\t\t// that means the DKG is no longer awaiting the result, and we can",
		New: "\tif ctx.Err() != nil && memberIndex == 0 {\n\t\t// The context was cancelled by the upstream. Regardless of the cause,\n\t\t// that means the DKG is no longer awaiting the result, and we can",
		Rule: "C47.submit-gate"})
	witness(Witness{Prop: "C47", Name: "inactivity-slot-not-injective", File: "pkg/tbtc/inactivity.go",
		Old: "delayBlocks := uint64(memberIndex-1) * inactivityClaimSubmissionDelayStepBlocks", New: "delayBlocks := uint64((memberIndex-1)/2) * inactivityClaimSubmissionDelayStepBlocks",
		Rule: "C47.slot-shape"})
}

// valueOfExtract returns the Extract #idx of the call's tuple result in fn.
func valueOfExtract(c ssa.CallInstruction, idx int, fn *ssa.Function) ssa.Value {
	cv := callValue(c)
	if cv == nil {
		return nil
	}
	for _, ref := range *cv.Referrers() {
		if ex, ok := ref.(*ssa.Extract); ok && ex.Index == idx {
			return ex
		}
	}
	return nil
}
