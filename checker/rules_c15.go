package main

import (
	"fmt"
	"go/types"
	"sort"
	"strings"

	"golang.org/x/tools/go/ssa"
)

// implementers of a named interface among the repository's named struct types.
func implementersOf(w *World, ifacePkgRel, ifaceName string) []*types.Named {
	p := w.ByPath[modPath+"/"+ifacePkgRel]
	if p == nil || p.Types == nil {
		return nil
	}
	obj := p.Types.Scope().Lookup(ifaceName)
	if obj == nil {
		return nil
	}
	iface, ok := obj.Type().Underlying().(*types.Interface)
	if !ok {
		return nil
	}
	var out []*types.Named
	for _, pk := range w.Pkgs {
		if pk.Types == nil || !strings.HasPrefix(pk.PkgPath, modPath) {
			continue
		}
		sc := pk.Types.Scope()
		for _, n := range sc.Names() {
			tn, ok := sc.Lookup(n).(*types.TypeName)
			if !ok || tn.IsAlias() {
				continue
			}
			named, ok := tn.Type().(*types.Named)
			if !ok {
				continue
			}
			if _, isStruct := named.Underlying().(*types.Struct); !isStruct {
				continue
			}
			if types.Implements(types.NewPointer(named), iface) {
				out = append(out, named)
			}
		}
	}
	sort.Slice(out, func(i, j int) bool { return typeName(out[i]) < typeName(out[j]) })
	return out
}

// sentMessageTypes: concrete types handed to BroadcastChannel.Send by the
// functions of one package.
func sentMessageTypes(w *World, rel string) []*types.Named {
	seen := map[*types.Named]bool{}
	var out []*types.Named
	for _, fn := range w.AllFuncs {
		if fnPkgRel(fn) != rel {
			continue
		}
		for _, c := range CallsMatching(fn, `^invoke:pkg/net\.BroadcastChannel\.Send$`) {
			if len(c.Common().Args) < 2 {
				continue
			}
			// resolve through phis: every value that can be the message
			var visit func(v ssa.Value, d int)
			visit = func(v ssa.Value, d int) {
				if d == 0 {
					return
				}
				switch x := v.(type) {
				case *ssa.MakeInterface:
					if n := namedOf(x.X.Type()); n != nil && !seen[n] {
						seen[n] = true
						out = append(out, n)
					}
				case *ssa.Phi:
					for _, e := range x.Edges {
						visit(e, d-1)
					}
				case *ssa.ChangeInterface:
					visit(x.X, d-1)
				}
			}
			visit(c.Common().Args[1], 4)
		}
	}
	sort.Slice(out, func(i, j int) bool { return typeName(out[i]) < typeName(out[j]) })
	return out
}

func init() {
	const sp = "pkg/protocol/state"
	register(&Prop{
		ID:        "C15",
		Technique: "static analysis: dominator facts on the transition gate, interface-implementation checks between Receive's asserted type and every message type the package sends, history hand-over in Next(), must-hold lockset on the message history (go/ssa, go/types)",
		Explanation: "Message-driven machine: (1) asyncStateTransition's goroutine closes the done channel only after Initiate returned nil and CanTransition() reported true, sends on it only Initiate's non-nil error, and stops on context cancellation; Execute calls Next() only after the done channel delivered nil, hands messages to the current state only, returns the current state only when Next() reported (nil, nil) and returns the context's error on cancellation; " +
			"(2) for every implementer of state.AsyncState (tECDSA DKG, signing, inactivity claim, DKG result signing): Receive retains the whole net.Message with ReceiveToHistory under a type assertion to an interface that every message type sent anywhere in that package implements (so messages meant for later states are kept, not dropped), and Next() hands the very same *BaseAsyncState to the next state; " +
			"(3) the history map is touched only under its mutex.",
		NotDecided: "that CanTransition's message counting is right; behaviour of the ticker-based polling under load; that consumers deduplicate retransmissions (covered by their own tests).",
		Fn: func(r *Run) {
			r.Rule("C15.gate", "done ⇐ Initiate ok ∧ CanTransition; Next ⇐ done delivered nil", 6)
			r.Rule("C15.history", "Receive keeps every protocol message of the package; Next hands the history on", 20)
			r.Rule("C15.store", "history map only under its mutex", 2)

			if tr := r.MustFn("C15.gate", sp, "asyncStateTransition"); tr != nil {
				n := 0
				for _, f := range WithClosures(tr) {
					for _, c := range Sites(f, `^builtin:close$`, false) {
						n++
						r.Check("C15.gate", FnName(f)+"#close(onDone)", c.Pos(), Facts(c.Block()),
							okOf(`pkg/protocol/state\.AsyncState\.Initiate`), trueOf(`pkg/protocol/state\.AsyncState\.CanTransition`))
					}
					for _, s := range chanSends(f) {
						d := Desc(s.Val)
						r.Cond(strings.Contains(d, "AsyncState.Initiate(") && HasFact(Facts(s.In.Block()), `^-\(invoke:pkg/protocol/state\.AsyncState\.Initiate\(.*\) == nil\)$`),
							"C15.gate", FnName(f)+"#send-error", s.In.Pos(), "only Initiate's non-nil error is sent on the done channel")
					}
					// the poll loop leaves on ctx.Done
					EachInstr(f, func(in ssa.Instruction) {
						sel, ok := in.(*ssa.Select)
						if !ok {
							return
						}
						hasDone := false
						for _, st := range sel.States {
							if strings.Contains(Desc(st.Chan), "context.Context.Done(") {
								hasDone = true
							}
						}
						r.Cond(hasDone, "C15.gate", FnName(f)+"#poll-select", in.Pos(), "the transition poll loop observes context cancellation")
					})
				}
				if n != 1 {
					r.Undecided("C15.gate", FnName(tr)+"#close", fmt.Sprintf("expected exactly one close of the done channel, found %d", n))
				}
			}
			if ex := r.MustFn("C15.gate", sp, "AsyncMachine.Execute"); ex != nil {
				var sel *ssa.Select
				EachInstr(ex, func(in ssa.Instruction) {
					if s, ok := in.(*ssa.Select); ok {
						sel = s
					}
				})
				if sel == nil || len(sel.States) != 3 {
					r.Undecided("C15.gate", FnName(ex)+"#select", "expected a three-way select (message, state done, cancellation)")
				} else {
					doneIdx, msgIdx, ctxIdx := -1, -1, -1
					for i, s := range sel.States {
						d := Desc(s.Chan)
						switch {
						case strings.Contains(d, "context.Context.Done("):
							ctxIdx = i
						case strings.Contains(d, "asyncStateTransition"):
							doneIdx = i
						default:
							msgIdx = i
						}
					}
					recvOf := func(i int) string { return fmt.Sprintf("select#%d", 2+indexAmongRecv(sel, i)) }
					for _, c := range Sites(ex, `^invoke:pkg/protocol/state\.AsyncState\.Next$`, false) {
						r.Check("C15.gate", FnName(ex)+"#Next", c.Pos(), Facts(c.Block()),
							fmt.Sprintf(`^\+\(const:%d == select#0\)$`, doneIdx), `^\+\(`+q(recvOf(doneIdx))+` == nil\)$`)
					}
					for _, c := range Sites(ex, `^invoke:pkg/protocol/state\.AsyncState\.Receive$`, false) {
						r.Check("C15.gate", FnName(ex)+"#Receive", c.Pos(), Facts(c.Block()), fmt.Sprintf(`^\+\(const:%d == select#0\)$`, msgIdx))
						same := false
						for _, n := range Sites(ex, `^invoke:pkg/protocol/state\.AsyncState\.Next$`, false) {
							if n.Common().Value == c.Common().Value {
								same = true
							}
						}
						r.Cond(same, "C15.gate", FnName(ex)+"#Receive-current-state", c.Pos(), "messages go to the current state")
					}
					for _, p := range SuccessReturns(ex) {
						r.Check("C15.gate", FnName(ex)+"#return-final", p.Ret.Pos(), p.Facts,
							`^\+\(invoke:pkg/protocol/state\.AsyncState\.Next\(.*\)#0 == nil\)$`, `^\+\(invoke:pkg/protocol/state\.AsyncState\.Next\(.*\)#1 == nil\)$`)
					}
					r.Cond(ctxIdx >= 0, "C15.gate", FnName(ex)+"#cancellation", sel.Pos(), "the machine loop observes context cancellation")
				}
			}

			impls := implementersOf(r.W, sp, "AsyncState")
			if len(impls) < 10 {
				r.Undecided("C15.history", "implementers", fmt.Sprintf("expected at least 10 AsyncState implementers, found %d", len(impls)))
			}
			// per machine: the chain of states from each NewAsyncMachine site, and for
			// each state the message types that it or a later state of that machine
			// sends (a faster member may already be there)
			sent := map[*types.Named][]*types.Named{}
			covered := map[*types.Named]bool{}
			for _, fn := range r.W.AllFuncs {
				for _, c := range CallsMatching(fn, `^pkg/protocol/state\.NewAsyncMachine$`) {
					t0 := concreteOf(c.Common().Args[3])
					chain := nextChain(r.W, t0)
					var later []*types.Named
					for i := len(chain) - 1; i >= 0; i-- {
						for _, mt := range stateSends(r.W, chain[i]) {
							dup := false
							for _, x := range later {
								if x == mt {
									dup = true
								}
							}
							if !dup {
								later = append(later, mt)
							}
						}
						sent[chain[i]] = append([]*types.Named{}, later...)
						covered[chain[i]] = true
					}
				}
			}
			for _, t := range impls {
				rel := t
				if !covered[t] {
					r.Undecided("C15.history", typeName(t), "AsyncState implementer not reachable from any NewAsyncMachine construction site")
					continue
				}
				recv := methodOf(r.W, t, "Receive")
				next := methodOf(r.W, t, "Next")
				if recv == nil || next == nil || recv.Blocks == nil || next.Blocks == nil {
					r.Undecided("C15.history", typeName(t), "Receive/Next not found")
					continue
				}
				// Receive
				hist := Sites(recv, `\.ReceiveToHistory$`, false)
				asserts := payloadAsserts(recv)
				if len(sent[rel]) == 0 {
					r.Ok("C15.history", typeName(t)+".Receive#retain", recv.Pos(), "neither this state nor a later state of its machine sends a message: nothing to keep")
				} else if len(hist) == 0 {
					r.Fail("C15.history", typeName(t)+".Receive#retain", recv.Pos(), "the state does not retain received messages although this or a later state of the machine sends some: a message of a faster member is lost", nil, nil)
				} else {
					okT := len(asserts) > 0
					why := ""
					for _, ta := range asserts {
						iface, isIface := ta.AssertedType.Underlying().(*types.Interface)
						for _, mt := range sent[rel] {
							if isIface {
								if !types.Implements(types.NewPointer(mt), iface) && !types.Implements(mt, iface) {
									okT = false
									why = "message type " + typeName(mt) + " sent by this or a later state does not implement the asserted interface"
								}
							} else if namedOf(ta.AssertedType) != mt {
								okT = false
								why = "the payload is asserted to the concrete type " + typeName(ta.AssertedType) + " but " + typeName(mt) + " is sent by this or a later state (it would be dropped)"
							}
						}
					}
					for _, h := range hist {
						a := h.Common().Args
						okMsg := len(a) == 2 && Desc(a[1]) == "P1"
						r.Cond(okT && okMsg, "C15.history", typeName(t)+".Receive#retain", h.Pos(), fmt.Sprintf("keeps the whole net.Message under an interface assertion covering all %d message type(s) the package sends; %s", len(sent[rel]), why))
					}
				}
				// Next
				for _, b := range next.Blocks {
					ret, ok := b.Instrs[len(b.Instrs)-1].(*ssa.Return)
					if !ok || len(ret.Results) != 2 || isNilConst(RetResults(ret)[0]) {
						continue
					}
					v := RetResults(ret)[0]
					var alloc *ssa.Alloc
					if mi, ok := v.(*ssa.MakeInterface); ok {
						alloc, _ = mi.X.(*ssa.Alloc)
					}
					handed := false
					if alloc != nil {
						for _, ref := range *alloc.Referrers() {
							fa, ok := ref.(*ssa.FieldAddr)
							if !ok || fieldName(fa.X.Type().Underlying().(*types.Pointer).Elem(), fa.Field) != "BaseAsyncState" {
								continue
							}
							for _, r2 := range *fa.Referrers() {
								if st, ok := r2.(*ssa.Store); ok && Desc(st.Val) == "P0.BaseAsyncState" {
									handed = true
								}
							}
						}
					}
					r.Cond(handed, "C15.history", typeName(t)+".Next#history", ret.Pos(), "the next state receives this state's *BaseAsyncState (the admitted messages travel with the machine)")
				}
			}
			r.FieldUnderLock("C15.store", sp, "BaseAsyncState", "messages", "messagesMutex", nil)
			// nothing admitted is ever dropped: the history only grows (append of the
			// received message to the list of its type; no eviction, no reslicing) and
			// the machine's receive handler hands every message over with a blocking send
			r.Rule("C15.no-drop", "history append-only; receive handler blocks instead of dropping", 2)
			if h := r.MustFn("C15.no-drop", sp, "BaseAsyncState.ReceiveToHistory"); h != nil {
				nUpd := 0
				okApp := true
				EachInstr(h, func(in ssa.Instruction) {
					switch x := in.(type) {
					case *ssa.MapUpdate:
						nUpd++
						ap := isAppend(x.Value)
						if ap == nil || Desc(x.Map) != "P0.messages" {
							okApp = false
							return
						}
						lk, isLk := ap.Call.Args[0].(*ssa.Lookup)
						e := appendedElem(ap)
						if !isLk || Desc(lk.X) != "P0.messages" || Desc(lk.Index) != Desc(x.Key) || e == nil || Desc(e) != "P1" {
							okApp = false
						}
					case *ssa.Slice:
						if strings.Contains(Desc(x.X), "P0.messages") {
							okApp = false
						}
					case *ssa.Call:
						if b, ok := x.Call.Value.(*ssa.Builtin); ok && b.Name() == "delete" {
							okApp = false
						}
					}
				})
				r.Cond(nUpd == 1 && okApp, "C15.no-drop", FnName(h)+"#append-only", h.Pos(), "messages[type] = append(messages[type], msg) and nothing else")
			}
			if ex := r.W.Fn(sp, "AsyncMachine.Execute"); ex != nil {
				n := 0
				for _, cl := range ex.AnonFuncs {
					sends := chanSends(cl)
					if len(sends) == 0 {
						continue
					}
					n++
					_, isSend := sends[0].In.(*ssa.Send)
					r.Cond(len(sends) == 1 && isSend && len(Facts(sends[0].In.Block())) == 0 && Desc(sends[0].Val) == "P0", "C15.no-drop", FnName(cl)+"#blocking-send", cl.Pos(), "the receive handler forwards every message with an unconditional blocking send (a select/default would drop messages the network layer never re-delivers)")
				}
				if n != 1 {
					r.Undecided("C15.no-drop", FnName(ex)+"#handler", "receive handler not found")
				}
			}
		},
	})
	witness(Witness{Prop: "C15", Name: "close-without-can-transition", File: "pkg/protocol/state/async_machine.go",
		Old: "\t\t\t\tif currentState.CanTransition() {\n\t\t\t\t\tclose(onDone)\n\t\t\t\t\treturn\n\t\t\t\t}", New: "\t\t\t\tclose(onDone)\n\t\t\t\treturn", Rule: "C15.gate"})
	witness(Witness{Prop: "C15", Name: "fresh-history-in-next", File: "pkg/tecdsa/dkg/states.go",
		Old: "\treturn &symmetricKeyGenerationState{\n\t\tBaseAsyncState: ekpgs.BaseAsyncState,", New: "\treturn &symmetricKeyGenerationState{\n\t\tBaseAsyncState: state.NewBaseAsyncState(),", Rule: "C15.history"})
	witness(Witness{Prop: "C15", Name: "history-read-without-lock", File: "pkg/protocol/state/state.go",
		Old: "\tbas.messagesMutex.RLock()\n\tdefer bas.messagesMutex.RUnlock()\n", New: "", Rule: "C15.store"})
}

// nextChain follows Next() from an initial state type (first non-nil,
// non-error successor; stops at the final state or on a repeat).
func nextChain(w *World, t0 *types.Named) []*types.Named {
	var out []*types.Named
	seen := map[*types.Named]bool{}
	for t := t0; t != nil && !seen[t]; {
		seen[t] = true
		out = append(out, t)
		next := methodOf(w, t, "Next")
		var n *types.Named
		if next != nil && next.Blocks != nil {
			for _, b := range next.Blocks {
				if ret, ok := b.Instrs[len(b.Instrs)-1].(*ssa.Return); ok && len(ret.Results) == 2 {
					if v := RetResults(ret)[0]; !isNilConst(v) {
						if c := concreteOf(v); c != nil {
							n = c
						}
					}
				}
			}
		}
		t = n
	}
	return out
}

// stateSends: message types handed to BroadcastChannel.Send by the state's
// Initiate, its same-package callees and their closures.
func stateSends(w *World, t *types.Named) []*types.Named {
	ini := methodOf(w, t, "Initiate")
	if ini == nil || ini.Blocks == nil {
		return nil
	}
	seen := map[*ssa.Function]bool{}
	var fns []*ssa.Function
	var visit func(f *ssa.Function, d int)
	visit = func(f *ssa.Function, d int) {
		if f == nil || f.Blocks == nil || seen[f] || d == 0 || fnPkgRel(f) != fnPkgRel(ini) {
			return
		}
		seen[f] = true
		fns = append(fns, f)
		EachInstr(f, func(in ssa.Instruction) {
			if c, ok := in.(ssa.CallInstruction); ok {
				visit(staticCallee(c), d-1)
			}
			if mc, ok := in.(*ssa.MakeClosure); ok {
				visit(mc.Fn.(*ssa.Function), d)
			}
		})
	}
	visit(ini, 4)
	got := map[*types.Named]bool{}
	var out []*types.Named
	for _, fn := range fns {
		for _, c := range CallsMatching(fn, `^invoke:pkg/net\.BroadcastChannel\.Send$`) {
			if len(c.Common().Args) < 2 {
				continue
			}
			var walk func(v ssa.Value, d int)
			walk = func(v ssa.Value, d int) {
				if d == 0 {
					return
				}
				switch x := v.(type) {
				case *ssa.MakeInterface:
					if n := namedOf(x.X.Type()); n != nil && !got[n] {
						got[n] = true
						out = append(out, n)
					}
				case *ssa.Phi:
					for _, e := range x.Edges {
						walk(e, d-1)
					}
				case *ssa.ChangeInterface:
					walk(x.X, d-1)
				}
			}
			walk(c.Common().Args[1], 4)
		}
	}
	return out
}

// indexAmongRecv: position of state i among the receive states of a select
// (go/ssa numbers received values select#2, #3 … in that order).
func indexAmongRecv(sel *ssa.Select, i int) int {
	n := 0
	for j, s := range sel.States {
		if j == i {
			return n
		}
		if s.Dir == types.RecvOnly {
			n++
		}
	}
	return n
}
