package main

import (
	"strings"

	"golang.org/x/tools/go/ssa"
)

type sigVerifier struct {
	rel, fn      string
	hashField    string // message field holding the signed hash
	prefField    string // member field holding the preferred hash
	senderField  string
	selfIndex    string
	selfSig      string
	verifyCallee string // regexp of the verify call
	litType      string // struct literal passed to VerifySignature ("" = direct args)
	litRel       string
	litHash      string
	extra        []string
}

func init() {
	register(&Prop{
		ID:        "C13",
		Technique: "static analysis: sibling rule over the three signature verifiers (dominator guard facts on the map store, argument provenance), key-binding facts at the three receivers, threshold guards at the three submitters (go/ssa)",
		Explanation: "For VerifyDKGResultSignatures (beacon), verifyDKGResultSignatures (tECDSA) and verifyInactivityClaimSignatures: the only stores into the returned map are (a) out[m.sender] = m.signature for an element m of the input, dominated by m.hash == preferred hash and by the verification call on (m.hash, m.signature, m.publicKey) of that same m returning true with a nil error (plus not-self and no-duplicate for the beacon), and (b) the member's own signature under its own index; the map is keyed by sender index, so at most one entry per member. " +
			"The three Receive methods admit a signature message only under bytes.Equal(m.publicKey, netMessage.SenderPublicKey()) (closure summary). The tECDSA/inactivity verifiers are fed from receivedMessages[T], which deduplicates by SenderID; the VerifySignature adapters verify with the message's own fields. " +
			"The three submitters reach their chain submit call only under len(signatures) ≥ threshold (quorum / honest threshold / beacon signature threshold).",
		NotDecided: "the signature scheme itself (chain.Signing); that the preferred hash is the hash of the locally computed result (checked in C40 for the hash layout only).",
		Fn: func(r *Run) {
			r.Rule("C13.verify", "out[m.sender]=m.signature ⇐ m.hash==preferred ∧ Verify(m.hash,m.signature,m.publicKey)=true,nil", 3)
			r.Rule("C13.self", "own signature registered under own index; no other store into the map", 3)
			r.Rule("C13.key-binding", "receivers require bytes.Equal(m.publicKey, msg.SenderPublicKey())", 3)
			r.Rule("C13.dedup", "verifier inputs come from the per-sender deduplicated history (tECDSA, inactivity)", 4)
			r.Rule("C13.adapter", "VerifySignature adapters verify (hash, signature, publicKey) of the signed object", 2)
			r.Rule("C13.threshold", "submit call ⇐ len(signatures) ≥ threshold", 3)
			vs := []sigVerifier{
				{rel: "pkg/beacon/dkg/result", fn: "SigningMember.VerifyDKGResultSignatures", hashField: "resultHash", prefField: "preferredDKGResultHash",
					senderField: "senderIndex", selfIndex: "P0.index", selfSig: "P0.selfDKGResultSignature",
					verifyCallee: `invoke:pkg/chain\.Signing\.VerifyWithPublicKey`,
					extra: []string{`^-\((?:MSG\.senderIndex == P0\.index|P0\.index == MSG\.senderIndex)\)$`, `^-call:pkg/beacon/dkg/result\.SigningMember\.VerifyDKGResultSignatures\$1\(MSG\.senderIndex\)$`}},
				{rel: "pkg/tecdsa/dkg", fn: "signingMember.verifyDKGResultSignatures", hashField: "resultHash", prefField: "preferredDKGResultHash",
					senderField: "senderID", selfIndex: "P0.memberIndex", selfSig: "P0.selfDKGResultSignature",
					verifyCallee: `invoke:pkg/tecdsa/dkg\.ResultSigner\.VerifySignature`, litType: "SignedResult", litRel: "pkg/tecdsa/dkg", litHash: "ResultHash"},
				{rel: "pkg/protocol/inactivity", fn: "signingMember.verifyInactivityClaimSignatures", hashField: "claimHash", prefField: "preferredInactivityClaimHash",
					senderField: "senderID", selfIndex: "P0.memberIndex", selfSig: "P0.selfInactivityClaimSignature",
					verifyCallee: `invoke:pkg/protocol/inactivity\.ClaimSigner\.VerifySignature`, litType: "SignedClaimHash", litRel: "pkg/protocol/inactivity", litHash: "ClaimHash"},
			}
			for _, v := range vs {
				fn := r.MustFn("C13.verify", v.rel, v.fn)
				if fn == nil {
					continue
				}
				nMsg, nSelf := 0, 0
				EachInstr(fn, func(in ssa.Instruction) {
					mu, ok := in.(*ssa.MapUpdate)
					if !ok {
						return
					}
					key, val := Desc(mu.Key), Desc(mu.Value)
					if key == v.selfIndex {
						nSelf++
						r.Cond(val == v.selfSig, "C13.self", FnName(fn)+"#self", in.Pos(), "own entry must hold the member's own signature; got "+val)
						return
					}
					m := re(`^(P1\[[^\]]+\])\.` + v.senderField + `$`).FindStringSubmatch(key)
					if m == nil {
						r.Fail("C13.self", FnName(fn)+"#store", in.Pos(), "unexpected store into the signature map: key "+abbr(key, 2), nil, nil)
						return
					}
					nMsg++
					al := map[string]string{m[1]: "MSG"}
					r.Cond(alias(val, al) == "MSG.signature", "C13.verify", FnName(fn)+"#value", in.Pos(), "stored value must be that message's signature; got "+abbr(alias(val, al), 2))
					facts := aliasAll(ImpliedFacts(mu.Block(), 1), al)
					need := []string{eitherOrder(`MSG\.`+v.hashField, `P0\.`+v.prefField),
						`^\+` + v.verifyCallee + `\(.*\)#0$`, `^\+\(` + v.verifyCallee + `\(.*\)#1 == nil\)$`}
					need = append(need, v.extra...)
					r.Check("C13.verify", FnName(fn)+"#store", in.Pos(), facts, need...)
					// arguments of the verify call
					for _, c := range Sites(fn, `^`+v.verifyCallee+`$`, false) {
						args := c.Common().Args
						if v.litType == "" {
							got := []string{alias(Desc(args[0]), al), alias(Desc(args[1]), al), alias(Desc(args[2]), al)}
							ok := re(`^&?MSG\.`+v.hashField+`\[:\]$`).MatchString(got[0]) && got[1] == "MSG.signature" && got[2] == "MSG.publicKey"
							r.Cond(ok, "C13.verify", FnName(fn)+"#verify-args", c.Pos(), "verification must use that message's hash, signature and public key; got "+strings.Join(got, ", "))
						} else {
							ok := false
							for _, sl := range structLits(fn, v.litRel, v.litType) {
								if args[0] == ssa.Value(sl.Alloc) {
									h, s, p := "", "", ""
									if x := sl.Fields[v.litHash]; x != nil {
										h = alias(Desc(x), al)
									}
									if x := sl.Fields["Signature"]; x != nil {
										s = alias(Desc(x), al)
									}
									if x := sl.Fields["PublicKey"]; x != nil {
										p = alias(Desc(x), al)
									}
									ok = h == "MSG."+v.hashField && s == "MSG.signature" && p == "MSG.publicKey"
								}
							}
							r.Cond(ok, "C13.verify", FnName(fn)+"#verify-args", c.Pos(), "the signed object passed to VerifySignature must carry that message's hash, signature and public key")
						}
					}
				})
				if nMsg != 1 || nSelf != 1 {
					r.Undecided("C13.self", FnName(fn), "expected exactly one message store and one self store into the map")
				}
				// the returned map is the one stored into
				for _, p := range ReturnPaths(fn, 0, func(ssa.Value) bool { return true }) {
					r.Cond(strings.HasPrefix(Desc(p.Val), "make:map["), "C13.self", FnName(fn)+"#return", p.Ret.Pos(), "must return the freshly built map")
				}
			}
			// key binding at receivers
			for _, rc := range [][2]string{{"pkg/beacon/dkg/result", "resultSigningState.Receive"}, {"pkg/tecdsa/dkg", "resultSigningState.Receive"}, {"pkg/protocol/inactivity", "claimSigningState.Receive"}} {
				fn := r.MustFn("C13.key-binding", rc[0], rc[1])
				if fn == nil {
					continue
				}
				effs := msgEffects(fn)
				if len(effs) == 0 {
					r.Undecided("C13.key-binding", FnName(fn), "no admitted-message effect found")
				}
				for _, e := range effs {
					r.Check("C13.key-binding", FnName(fn)+"#"+e.Kind, e.Instr.Pos(), effectFacts(e),
						`^\+call:bytes\.Equal\(MSG\.publicKey, invoke:pkg/net\.Message\.SenderPublicKey\(NET\)\)$|^\+call:bytes\.Equal\(invoke:pkg/net\.Message\.SenderPublicKey\(NET\), MSG\.publicKey\)$`)
				}
			}
			// dedup'd inputs
			for _, v := range vs[1:] {
				target := v.rel + "." + v.fn
				n := 0
				for _, f := range r.W.AllFuncs {
					for _, c := range CallsMatching(f, `^`+q(target)+`$`) {
						n++
						d := Desc(c.Common().Args[1])
						r.Cond(re(`^call:`+q(v.rel)+`\.receivedMessages\[.*\]\(.*BaseAsyncState\)$`).MatchString(d), "C13.dedup", FnName(f)+"#input", c.Pos(), "verifier input must be receivedMessages[T](history); got "+abbr(d, 1))
					}
				}
				if n == 0 {
					r.Undecided("C13.dedup", target, "no call site of the verifier found")
				}
				// receivedMessages dedups by SenderID
				if rm := r.W.Fn(v.rel, "receivedMessages"); rm != nil {
					ok := false
					for _, c := range Sites(rm, `^pkg/protocol/state\.DeduplicateMessagesPayloads\[`, false) {
						if cl := closureOf(c.Common().Args[1]); cl != nil {
							for _, p := range ReturnPaths(cl, 0, func(ssa.Value) bool { return true }) {
								if re(`^call:strconv\.Itoa\(conv:int\(invoke:.*\.SenderID\(P0\)\)\)$`).MatchString(Desc(p.Val)) {
									ok = true
								}
							}
						}
					}
					r.Cond(ok, "C13.dedup", FnName(rm)+"#key", rm.Pos(), "history must be deduplicated by the sender index")
				} else {
					r.Undecided("C13.dedup", v.rel+".receivedMessages", "not found")
				}
			}
			// adapters
			for _, ad := range [][3]string{{"pkg/tbtc", "dkgResultSigner.VerifySignature", "ResultHash"}, {"pkg/tbtc", "inactivityClaimSigner.VerifySignature", "ClaimHash"}} {
				fn := r.MustFn("C13.adapter", ad[0], ad[1])
				if fn == nil {
					continue
				}
				ok := false
				for _, c := range Sites(fn, `^invoke:pkg/chain\.Signing\.VerifyWithPublicKey$`, false) {
					a := c.Common().Args
					if re(`^&?P1\.`+ad[2]+`\[:\]$`).MatchString(Desc(a[0])) && Desc(a[1]) == "P1.Signature" && Desc(a[2]) == "P1.PublicKey" {
						ok = true
						nFrom := 0
						for _, p := range ReturnPaths(fn, 0, func(ssa.Value) bool { return true }) {
							cv := callValue(c)
							if cv != nil && derives(p.Val, cv) {
								nFrom++
								continue
							}
							if cb, isC := constBool(p.Val); isC && !cb {
								continue // a failing path may say false
							}
							ok = false // a verdict that does not come from the verification call
						}
						if nFrom == 0 {
							ok = false
						}
					}
				}
				r.Cond(ok, "C13.adapter", FnName(fn), fn.Pos(), "must return VerifyWithPublicKey(hash[:], Signature, PublicKey) of the signed object")
			}
			// thresholds
			subs := []struct{ rel, fn, callee, thr string }{
				{"pkg/beacon/dkg/result", "SubmittingMember.SubmitDKGResult", `^invoke:pkg/beacon/chain\.Interface\.SubmitDKGResult$`,
					`^\+\(\([^ ]*\.HonestThreshold \+ \(\([^ ]*\.GroupSize - [^ ]*\.HonestThreshold\) / const:2\)\) <= len\(P2\)\)$`},
				{"pkg/tbtc", "dkgResultSubmitter.SubmitResult", `^invoke:pkg/tbtc\.Chain\.SubmitDKGResult$`, `^\+\(P0\.groupParameters\.GroupQuorum <= len\(P4\)\)$`},
				{"pkg/tbtc", "inactivityClaimSubmitter.SubmitClaim", `^invoke:pkg/tbtc\.Chain\.SubmitInactivityClaim$`, `^\+\(P0\.groupParameters\.HonestThreshold <= len\(P4\)\)$`},
			}
			for _, s := range subs {
				fn := r.MustFn("C13.threshold", s.rel, s.fn)
				r.CheckCalls("C13.threshold", fn, s.callee, 1, s.thr)
			}
		},
	})
}
