package main

import (
	"bufio"
	"encoding/json"
	"fmt"
	"go/token"
	"os"
	"path/filepath"
	"sort"
	"strconv"
	"strings"
	"time"
)

type Obligation struct {
	Rule      string   `json:"rule"`
	Construct string   `json:"construct"`
	Pos       string   `json:"pos"`
	Status    string   `json:"status"` // discharged | violated | undecided | known-finding
	Need      []string `json:"need,omitempty"`
	Found     []string `json:"found,omitempty"`
	Note      string   `json:"note,omitempty"`
}

type RuleInfo struct {
	Name       string `json:"name"`
	Text       string `json:"text"`
	Floor      int    `json:"floor"`
	Sites      int    `json:"sites"`
	Discharged int    `json:"discharged"`
}

type Run struct {
	W           *World
	ID          string
	Tier        string
	Obl         []*Obligation
	rules       map[string]*RuleInfo
	ruleOrder   []string
	Explanation string
	NotDecided  string
	Assumptions []string
	Exhaustive  bool
	Extra       map[string]interface{}
	start       time.Time
}

func (r *Run) Rule(name, text string, floor int) {
	if r.rules == nil {
		r.rules = map[string]*RuleInfo{}
	}
	if _, ok := r.rules[name]; !ok {
		r.rules[name] = &RuleInfo{Name: name, Text: text, Floor: floor}
		r.ruleOrder = append(r.ruleOrder, name)
	}
}

func (r *Run) add(o *Obligation) {
	if _, ok := r.rules[o.Rule]; !ok {
		r.Rule(o.Rule, "", 0)
	}
	r.Obl = append(r.Obl, o)
}

func (r *Run) Ok(rule, construct string, pos token.Pos, note string) {
	r.add(&Obligation{Rule: rule, Construct: construct, Pos: r.W.Pos(pos), Status: "discharged", Note: note})
}

func (r *Run) Fail(rule, construct string, pos token.Pos, note string, need, found []string) {
	r.add(&Obligation{Rule: rule, Construct: construct, Pos: r.W.Pos(pos), Status: "violated", Note: note, Need: need, Found: found})
}

func (r *Run) Undecided(rule, construct string, note string) {
	r.add(&Obligation{Rule: rule, Construct: construct, Pos: "-", Status: "undecided", Note: "undecided: " + note})
}

// Check discharges the obligation when every needed pattern matches a fact.
func (r *Run) Check(rule, construct string, pos token.Pos, facts []string, need ...string) bool {
	miss := MissingFacts(facts, need...)
	if len(miss) == 0 {
		r.add(&Obligation{Rule: rule, Construct: construct, Pos: r.W.Pos(pos), Status: "discharged", Need: need, Found: trim(facts, 12)})
		return true
	}
	r.add(&Obligation{Rule: rule, Construct: construct, Pos: r.W.Pos(pos), Status: "violated",
		Note: "missing dominating fact(s)", Need: miss, Found: trim(facts, 40)})
	return false
}

// Cond discharges when ok, violates otherwise.
func (r *Run) Cond(ok bool, rule, construct string, pos token.Pos, note string) bool {
	if ok {
		r.Ok(rule, construct, pos, note)
	} else {
		r.Fail(rule, construct, pos, note, nil, nil)
	}
	return ok
}

func trim(s []string, n int) []string {
	if len(s) > n {
		return append(append([]string{}, s[:n]...), fmt.Sprintf("… %d more", len(s)-n))
	}
	return s
}

// ---------------------------------------------------------------- known findings

type knownFinding struct {
	Property, Rule, Construct, Text string
}

func verifRoot() string {
	if d := os.Getenv("KC_VERIF"); d != "" {
		return d
	}
	if exe, err := os.Executable(); err == nil {
		d := filepath.Dir(filepath.Dir(exe))
		if _, err := os.Stat(filepath.Join(d, "properties.jsonl")); err == nil {
			return d
		}
	}
	return "/verif"
}

func loadKnownFindings() []knownFinding {
	f, err := os.Open(filepath.Join(verifRoot(), "known-findings.txt"))
	if err != nil {
		return nil
	}
	defer f.Close()
	var out []knownFinding
	sc := bufio.NewScanner(f)
	for sc.Scan() {
		line := strings.TrimSpace(sc.Text())
		if !strings.HasPrefix(line, "finding:") {
			continue
		}
		kf := knownFinding{}
		rest := strings.TrimSpace(strings.TrimPrefix(line, "finding:"))
		fields := strings.Fields(rest)
		n := 0
		for _, fl := range fields {
			switch {
			case strings.HasPrefix(fl, "property="):
				kf.Property = strings.TrimPrefix(fl, "property=")
				n++
			case strings.HasPrefix(fl, "rule="):
				kf.Rule = strings.TrimPrefix(fl, "rule=")
				n++
			case strings.HasPrefix(fl, "construct="):
				kf.Construct = strings.TrimPrefix(fl, "construct=")
				n++
			default:
				goto done
			}
		}
	done:
		kf.Text = strings.Join(fields[n:], " ")
		if kf.Property != "" && kf.Rule != "" && kf.Construct != "" {
			out = append(out, kf)
		}
	}
	return out
}

// ---------------------------------------------------------------- finish

func (r *Run) Finish() int {
	root := verifRoot()
	// floors
	counts := map[string]int{}
	disc := map[string]int{}
	for _, o := range r.Obl {
		counts[o.Rule]++
		if o.Status == "discharged" {
			disc[o.Rule]++
		}
	}
	for _, name := range r.ruleOrder {
		ri := r.rules[name]
		ri.Sites, ri.Discharged = counts[name], disc[name]
		if ri.Sites < ri.Floor {
			r.Obl = append(r.Obl, &Obligation{Rule: name, Construct: "floor", Pos: "-", Status: "undecided",
				Note: fmt.Sprintf("undecided: rule matched %d site(s), below the floor of %d confirmed by reading; the anchors moved or the rule no longer sees them", ri.Sites, ri.Floor)})
		}
	}
	known := loadKnownFindings()
	var bad []*Obligation
	nKnown := 0
	for _, o := range r.Obl {
		if o.Status != "violated" {
			if o.Status == "undecided" {
				bad = append(bad, o)
			}
			continue
		}
		matched := false
		for _, k := range known {
			if k.Property == r.ID && k.Rule == o.Rule && k.Construct == o.Construct {
				fmt.Printf("KNOWN-FINDING: property=%s rule=%s construct=%s %s (%s)\n", r.ID, o.Rule, o.Construct, k.Text, o.Pos)
				o.Status = "known-finding"
				matched = true
				nKnown++
				break
			}
		}
		if !matched {
			bad = append(bad, o)
		}
	}
	total := len(r.Obl)
	discharged := 0
	for _, o := range r.Obl {
		if o.Status == "discharged" {
			discharged++
		}
	}
	wall := time.Since(r.start).Seconds()
	seed := 0
	if s := os.Getenv("VERIF_SEED"); s != "" {
		if n, err := strconv.Atoi(s); err == nil {
			seed = n
		}
	}
	// samples: first obligations of each rule
	perRule := map[string]int{}
	var samples []*Obligation
	for _, o := range r.Obl {
		if perRule[o.Rule] < 3 || o.Status != "discharged" {
			perRule[o.Rule]++
			samples = append(samples, o)
		}
	}
	if len(samples) > 60 {
		samples = samples[:60]
	}
	var rules []*RuleInfo
	var ruleTexts []string
	for _, n := range r.ruleOrder {
		rules = append(rules, r.rules[n])
		ruleTexts = append(ruleTexts, n+": "+r.rules[n].Text)
	}
	expl := r.Explanation
	if r.NotDecided != "" {
		expl += " NOT DECIDED by this check: " + r.NotDecided
	}
	nfuncs, npk := 0, 0
	if r.W != nil {
		nfuncs, npk = len(r.W.AllFuncs), len(r.W.Pkgs)
	}
	cov := map[string]interface{}{
		"explanation":        expl,
		"obligations":        total,
		"discharged":         discharged,
		"known_findings":     nKnown,
		"rule":               strings.Join(ruleTexts, " || "),
		"rules":              rules,
		"samples":            samples,
		"checker_cmd":        fmt.Sprintf("bin/kcverif check %s --tier %s", r.ID, r.Tier),
		"trusted_base":       []string{"go/types type checker", "golang.org/x/tools v0.29.0 go/ssa builder and dominator tree", "kcverif rule tables (checker/*.go)"},
		"exhaustive":         r.Exhaustive,
		"packages_analysed":  npk,
		"functions_analysed": nfuncs,
	}
	if r.W != nil {
		cov["load_s"] = r.W.LoadS
		cov["whole_program"] = r.W.whole
	}
	for k, v := range r.Extra {
		cov[k] = v
	}
	ev := map[string]interface{}{
		"property_id": r.ID,
		"tier":        r.Tier,
		"seed":        seed,
		"level":       "other",
		"coverage":    cov,
		"assumptions": append([]string{"source analysed is the working tree at " + repoDir() + " (non-test files, default build tags, GOOS/GOARCH of this host)"}, r.Assumptions...),
		"wall_s":      wall,
		"violations":  len(bad),
	}
	os.MkdirAll(filepath.Join(root, "evidence"), 0o755)
	writeJSON(filepath.Join(root, "evidence", r.ID+".json"), ev)

	fmt.Printf("property=%s tier=%s obligations=%d discharged=%d known-findings=%d undischarged=%d wall=%.1fs\n",
		r.ID, r.Tier, total, discharged, nKnown, len(bad), wall)
	for _, n := range r.ruleOrder {
		ri := r.rules[n]
		fmt.Printf("  rule %-28s sites=%d discharged=%d floor=%d\n", ri.Name, ri.Sites, ri.Discharged, ri.Floor)
	}
	if len(bad) == 0 {
		return 0
	}
	os.MkdirAll(filepath.Join(root, "reports"), 0o755)
	rp := filepath.Join(root, "reports", r.ID+"."+r.Tier+".json")
	sort.SliceStable(bad, func(i, j int) bool { return bad[i].Rule+bad[i].Construct < bad[j].Rule+bad[j].Construct })
	writeJSON(rp, map[string]interface{}{"property_id": r.ID, "tier": r.Tier, "undischarged": bad})
	for i, o := range bad {
		if i == 15 {
			fmt.Printf("  … %d more (see %s)\n", len(bad)-i, rp)
			break
		}
		line := fmt.Sprintf("  %s rule=%s construct=%s at %s: %s", strings.ToUpper(o.Status), o.Rule, o.Construct, o.Pos, o.Note)
		if len(o.Need) > 0 {
			line += fmt.Sprintf(" need=%q", o.Need)
		}
		if len(line) > 420 {
			line = line[:420] + "…"
		}
		fmt.Println(line)
	}
	fmt.Printf("VIOLATION property=%s replay=%s\n", r.ID, rp)
	return 1
}

func writeJSON(path string, v interface{}) {
	b, err := json.MarshalIndent(v, "", " ")
	if err != nil {
		fmt.Fprintln(os.Stderr, "json:", err)
		return
	}
	if err := os.WriteFile(path, append(b, '\n'), 0o644); err != nil {
		fmt.Fprintln(os.Stderr, "write:", err)
	}
}
