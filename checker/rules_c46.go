package main

import (
	"fmt"
	"go/constant"
	"go/types"
	"strings"

	"golang.org/x/tools/go/ssa"
)

func constIntOf(v ssa.Value) (int64, bool) {
	if c, ok := v.(*ssa.Const); ok && c.Value != nil && c.Value.Kind() == constant.Int {
		return constant.Int64Val(c.Value)
	}
	return 0, false
}

func init() {
	register(&Prop{
		ID:        "C46",
		Technique: "static analysis: constant evaluation of every action's validity, safety margin and broadcast timeout resolved through its constructor and proposal type, affine forms of the deadlines handed to the signing and wait primitives (go/ssa, go/types)",
		Explanation: "Every deadline of a wallet action is affine in the coordination window's end block, so the property over all start blocks reduces to inequalities between package constants, which the check evaluates from the source on every run: for each action that signs a Bitcoin transaction (deposit sweep, redemption, moving funds, moved funds sweep) the constructor's signingTimeoutSafetyMarginBlocks M and broadcastTimeout B and the proposal type's ValidityBlocks() V satisfy V − M ≥ signingAttemptsLimit × signingAttemptMaximumBlocks() (room for one complete retry loop of a message) and B / 12 s ≤ M (the broadcast ends before expiry at the nominal block time); " +
			"signTransaction is called with (proposalProcessingStartBlock, proposalExpiryBlock − M) under M ≤ expiry; the signing context is cancelled at that timeout block and signBatch starts at that start block; the executor's loop timeout is start + limit × attemptMax; the broadcast runs under context.WithTimeout(B); " +
			"heartbeat: the signing context ends at expiry − heartbeatInactivityClaimValidityBlocks with V − that ≥ limit × attemptMax, the claim context at expiry − heartbeatTimeoutSafetyMarginBlocks, later than the signing deadline; processCoordinationResult computes expiry = window end + proposal.ValidityBlocks() and hands (start, expiry) to each handler unchanged.",
		NotDecided: "real block times (the 12 s nominal time is the property's stated assumption); that tss signing of several messages of one batch fits (the property asks for one message); unsigned underflow other than the explicit expiry ≥ margin guards.",
		Fn: func(r *Run) {
			r.Rule("C46.constants", "V − M ≥ limit·attemptMax; B/12s ≤ M; heartbeat windows nest", 6)
			r.Rule("C46.deadlines", "deadline arguments are expiry − margin (guarded), start is the processing start block", 10)
			r.Rule("C46.expiry", "expiry = window end + ValidityBlocks(), passed unchanged to the handlers", 5)

			limit := atoi64(r.PkgConst("C46.constants", "pkg/tbtc", "signingAttemptsLimit"))
			var attemptMax int64 = -1
			if f := r.W.Fn("pkg/tbtc", "signingAttemptMaximumBlocks"); f != nil {
				if c, ok := constResult(f, 6); ok {
					attemptMax = c.C
				}
			}
			if limit <= 0 || attemptMax <= 0 {
				r.Undecided("C46.constants", "signing loop", "signingAttemptsLimit / signingAttemptMaximumBlocks not constant")
				return
			}
			loopBlocks := limit * attemptMax

			// constructors that set signingTimeoutSafetyMarginBlocks
			nActions := 0
			for _, fn := range r.W.AllFuncs {
				if fnPkgRel(fn) != "pkg/tbtc" || fn.Parent() != nil {
					continue
				}
				var margin, bcast int64 = -1, -1
				var actionType *types.Named
				EachInstr(fn, func(in ssa.Instruction) {
					st, ok := in.(*ssa.Store)
					if !ok {
						return
					}
					fa, ok := st.Addr.(*ssa.FieldAddr)
					if !ok {
						return
					}
					f := fieldName(fa.X.Type().Underlying().(*types.Pointer).Elem(), fa.Field)
					switch f {
					case "signingTimeoutSafetyMarginBlocks":
						if n, ok := constIntOf(st.Val); ok {
							margin = n
							actionType = namedOf(fa.X.Type())
						}
					case "broadcastTimeout":
						if n, ok := constIntOf(st.Val); ok {
							bcast = n
						}
					}
				})
				if actionType == nil {
					continue
				}
				nActions++
				name := actionType.Obj().Name()
				// the proposal type: a constructor parameter *XProposal
				var validity int64 = -1
				for _, p := range fn.Params {
					if n := namedOf(p.Type()); n != nil && strings.HasSuffix(n.Obj().Name(), "Proposal") {
						if m := methodOf(r.W, n, "ValidityBlocks"); m != nil {
							if c, ok := constResult(m, 6); ok {
								validity = c.C
							}
						}
					}
				}
				if validity < 0 || margin < 0 || bcast < 0 {
					r.Undecided("C46.constants", name, fmt.Sprintf("validity %d, margin %d, broadcast timeout %d: not all resolved to constants", validity, margin, bcast))
					continue
				}
				r.Cond(validity-margin >= loopBlocks, "C46.constants", name+"#signing-window", fn.Pos(),
					fmt.Sprintf("validity %d − margin %d = %d ≥ %d × %d = %d", validity, margin, validity-margin, limit, attemptMax, loopBlocks))
				const blockNs = 12_000_000_000
				needBlocks := (bcast + blockNs - 1) / blockNs
				r.Cond(needBlocks <= margin, "C46.constants", name+"#broadcast-window", fn.Pos(),
					fmt.Sprintf("broadcast timeout %d s = %d blocks at 12 s ≤ margin %d", bcast/1_000_000_000, needBlocks, margin))
				// the action's execute: signTransaction(start, expiry − margin)
				if ex := methodOf(r.W, actionType, "execute"); ex != nil && ex.Blocks != nil {
					for _, c := range Sites(ex, `\.signTransaction$`, false) {
						a := c.Common().Args
						// start = processing start block + d, d ≥ 0 a constant (moving funds
						// waits for its commitment to be confirmed first)
						sa := Affine(a[len(a)-2])
						okStart := len(sa.T) == 1 && sa.T["P0.proposalProcessingStartBlock"] == 1 && sa.C >= 0
						okEnd := Affine(a[len(a)-1]).String() == "1*P0.proposalExpiryBlock + -1*P0.signingTimeoutSafetyMarginBlocks + 0"
						r.Cond(okStart && okEnd && validity-margin-sa.C >= loopBlocks, "C46.deadlines", name+".execute#signTransaction", c.Pos(),
							fmt.Sprintf("signs from processing start + %d (≥ 0) until expiry − margin; window %d − %d − %d = %d ≥ %d", sa.C, validity, margin, sa.C, validity-margin-sa.C, loopBlocks))
						r.Check("C46.deadlines", name+".execute#margin-guard", c.Pos(), Facts(c.Block()), `^\+\(P0\.signingTimeoutSafetyMarginBlocks <= P0\.proposalExpiryBlock\)$`)
					}
					for _, c := range Sites(ex, `\.broadcastTransaction$`, false) {
						ok := false
						for _, a := range c.Common().Args {
							if Desc(a) == "P0.broadcastTimeout" {
								ok = true
							}
						}
						r.Cond(ok, "C46.deadlines", name+".execute#broadcastTransaction", c.Pos(), "broadcast bounded by the action's broadcastTimeout")
					}
				}
				// constructor passes start/expiry parameters into the action unchanged
				okPass := 0
				EachInstr(fn, func(in ssa.Instruction) {
					if st, ok := in.(*ssa.Store); ok {
						ad := Desc(st.Addr)
						if strings.HasSuffix(ad, ".proposalProcessingStartBlock") || strings.HasSuffix(ad, ".proposalExpiryBlock") {
							if _, isP := st.Val.(*ssa.Parameter); isP {
								okPass++
							}
						}
					}
				})
				r.Cond(okPass == 2, "C46.deadlines", name+"#constructor", fn.Pos(), "start and expiry blocks stored as given")
			}
			if nActions < 4 {
				r.Undecided("C46.constants", "actions", fmt.Sprintf("expected 4 transaction-signing actions, found %d", nActions))
			}

			// wallet transaction executor
			if fn := r.MustFn("C46.deadlines", "pkg/tbtc", "walletTransactionExecutor.signTransaction"); fn != nil {
				for _, c := range Sites(fn, `^pkg/tbtc\.withCancelOnBlock$`, false) {
					r.Cond(Desc(c.Common().Args[1]) == "P4", "C46.deadlines", FnName(fn)+"#signing-context", c.Pos(), "signing context cancelled at the given timeout block")
				}
				for _, c := range Sites(fn, `\.signBatch$`, false) {
					a := c.Common().Args
					r.Cond(Desc(a[len(a)-1]) == "P3" && strings.HasPrefix(Desc(a[len(a)-3]), "call:pkg/tbtc.withCancelOnBlock("), "C46.deadlines", FnName(fn)+"#signBatch", c.Pos(), "signBatch runs under that context from the given start block")
				}
			}
			if fn := r.MustFn("C46.deadlines", "pkg/tbtc", "walletTransactionExecutor.broadcastTransaction"); fn != nil {
				n := 0
				for _, c := range Sites(fn, `^context\.WithTimeout$`, false) {
					n++
					r.Cond(re(`^P\d$`).MatchString(Desc(c.Common().Args[1])), "C46.deadlines", FnName(fn)+"#WithTimeout", c.Pos(), "broadcast context bounded by the timeout parameter")
				}
				if n == 0 {
					r.Undecided("C46.deadlines", FnName(fn), "no context.WithTimeout")
				}
			}
			if fn := r.MustFn("C46.deadlines", "pkg/tbtc", "signingExecutor.sign"); fn != nil {
				ok := false
				EachInstr(fn, func(in ssa.Instruction) {
					if bo, isB := in.(*ssa.BinOp); isB && bo.Op.String() == "+" {
						a := Affine(bo)
						if a.T["P3"] == 1 && len(a.T) == 2 {
							for k, v := range a.T {
								if k == "P0.signingAttemptsLimit" && v == attemptMax {
									ok = true
								}
							}
						}
					}
				})
				r.Cond(ok, "C46.deadlines", FnName(fn)+"#loop-timeout", fn.Pos(), fmt.Sprintf("loop timeout = start + signingAttemptsLimit × %d", attemptMax))
			}
			// node wires the constant limit into the executor
			r.Cond(limit > 0, "C46.constants", "signingAttemptsLimit", 0, fmt.Sprintf("signingAttemptsLimit = %d, signingAttemptMaximumBlocks() = %d", limit, attemptMax))

			// heartbeat
			hbV := atoi64(r.PkgConst("C46.constants", "pkg/tbtc", "heartbeatTotalProposalValidityBlocks"))
			hbClaim := atoi64(r.PkgConst("C46.constants", "pkg/tbtc", "heartbeatInactivityClaimValidityBlocks"))
			hbSafe := atoi64(r.PkgConst("C46.constants", "pkg/tbtc", "heartbeatTimeoutSafetyMarginBlocks"))
			r.Cond(hbV-hbClaim >= loopBlocks && hbClaim > hbSafe && hbSafe > 0, "C46.constants", "heartbeatAction#windows", 0,
				fmt.Sprintf("validity %d − claim window %d = %d ≥ %d; claim window %d > safety margin %d > 0", hbV, hbClaim, hbV-hbClaim, loopBlocks, hbClaim, hbSafe))
			if hp := r.W.Fn("pkg/tbtc", "HeartbeatProposal.ValidityBlocks"); hp != nil {
				c, ok := constResult(hp, 6)
				r.Cond(ok && c.C == hbV, "C46.constants", "HeartbeatProposal.ValidityBlocks", hp.Pos(), "returns heartbeatTotalProposalValidityBlocks")
			}
			if fn := r.MustFn("C46.deadlines", "pkg/tbtc", "heartbeatAction.execute"); fn != nil {
				var ends []string
				for _, c := range Sites(fn, `^pkg/tbtc\.withCancelOnBlock$`, false) {
					a := Affine(c.Common().Args[1]).String()
					ends = append(ends, a)
					switch a {
					case fmt.Sprintf("1*P0.expiryBlock + -%d", hbClaim):
						r.Check("C46.deadlines", FnName(fn)+"#signing-deadline", c.Pos(), Facts(c.Block()), fmt.Sprintf(`^\+\(const:%d <= P0\.expiryBlock\)$`, hbClaim))
					case fmt.Sprintf("1*P0.expiryBlock + -%d", hbSafe):
						r.Ok("C46.deadlines", FnName(fn)+"#claim-deadline", c.Pos(), "claim context ends at expiry − safety margin")
					default:
						r.Fail("C46.deadlines", FnName(fn)+"#deadline", c.Pos(), "unexpected deadline "+a, nil, nil)
					}
				}
				r.Cond(len(ends) == 2, "C46.deadlines", FnName(fn)+"#two-deadlines", fn.Pos(), "signing and claim deadlines: "+strings.Join(ends, " ; "))
				for _, c := range Sites(fn, `heartbeatSigningExecutor\.sign$`, false) {
					a := c.Common().Args
					r.Cond(Desc(a[len(a)-1]) == "P0.startBlock", "C46.deadlines", FnName(fn)+"#sign-start", c.Pos(), "signing starts at the action's start block")
				}
			}
			// expiry computation and hand-over
			if fn := r.MustFn("C46.expiry", "pkg/tbtc", "processCoordinationResult"); fn != nil {
				n := 0
				for _, c := range Sites(fn, `^pkg/tbtc\.node\.handle\w+Proposal$`, false) {
					n++
					a := c.Common().Args
					st, ex := a[len(a)-2], a[len(a)-1]
					okS := Desc(st) == "call:pkg/tbtc.coordinationWindow.endBlock(P1.window)"
					okE := Affine(ex).String() == "1*call:pkg/tbtc.coordinationWindow.endBlock(P1.window) + 1*invoke:pkg/tbtc.CoordinationProposal.ValidityBlocks(P1.proposal) + 0"
					r.Cond(okS && okE, "C46.expiry", FnName(fn)+"#"+shortCallee(c), c.Pos(), "handler gets (window end, window end + proposal.ValidityBlocks())")
				}
				if n < 5 {
					r.Undecided("C46.expiry", FnName(fn), fmt.Sprintf("expected 5 handler calls, found %d", n))
				}
			}
		},
	})
	witness(Witness{Prop: "C46", Name: "redemption-validity-too-short", File: "pkg/tbtc/redemption.go",
		Old: "\tredemptionProposalValidityBlocks = 600", New: "\tredemptionProposalValidityBlocks = 500", Rule: "C46.constants"})
	witness(Witness{Prop: "C46", Name: "broadcast-longer-than-margin", File: "pkg/tbtc/moving_funds.go",
		Old: "\tmovingFundsBroadcastTimeout = 15 * time.Minute", New: "\tmovingFundsBroadcastTimeout = 75 * time.Minute", Rule: "C46.constants"})
	witness(Witness{Prop: "C46", Name: "sign-until-expiry", File: "pkg/tbtc/deposit_sweep.go",
		Old: "\t\tdsa.proposalExpiryBlock-dsa.signingTimeoutSafetyMarginBlocks,\n\t)", New: "\t\tdsa.proposalExpiryBlock,\n\t)", Rule: "C46.deadlines"})
}
