package main

import (
	"fmt"
	"go/types"
	"strings"

	"golang.org/x/tools/go/ssa"
)

// structFieldStores: stores into field `field` of the receiver P0 in fn.
func receiverFieldStores(fn *ssa.Function, field string) []*ssa.Store {
	var out []*ssa.Store
	EachInstr(fn, func(in ssa.Instruction) {
		if st, ok := in.(*ssa.Store); ok && Desc(st.Addr) == "&P0."+field {
			out = append(out, st)
		}
	})
	return out
}

// affOverField renders the affine form of v with the load of P0.<field> as symbol F.
func affOverField(v ssa.Value, field string) string {
	return strings.ReplaceAll(Affine(v).String(), "P0."+field, "F")
}

func init() {
	type loopSpec struct {
		typ, announce, maxBlocks, attemptCallee string
		delay, active, protocol                 string
		notLate                                 bool
		startIdx, timeoutIdx                    int // field indexes in the attempt params literal
	}
	loops := []loopSpec{
		{"signingRetryLoop", `^invoke:pkg/tbtc\.signingAnnouncer\.Announce$`, "signingAttemptMaximumBlocks", "P4",
			"signingAttemptAnnouncementDelayBlocks", "signingAttemptAnnouncementActiveBlocks", "signingAttemptMaximumProtocolBlocks", true, 1, 2},
		{"dkgRetryLoop", `^invoke:pkg/tbtc\.dkgAnnouncer\.Announce$`, "dkgAttemptMaximumBlocks", "P3",
			"dkgAttemptAnnouncementDelayBlocks", "dkgAttemptAnnouncementActiveBlocks", "dkgAttemptMaximumProtocolBlocks", false, 1, 2},
	}
	register(&Prop{
		ID:        "C11",
		Technique: "static analysis: affine normal forms of every block height of an attempt over the symbol attemptStartBlock, who-writes on the attempt counters, dominator facts on the announce call (go/ssa, constant evaluation)",
		Explanation: "signingRetryLoop.start and dkgRetryLoop.start: attemptCounter is written only by the unconditional +1 at the loop head and attemptStartBlock only by `+= attemptMaximumBlocks()` under attemptCounter > 1 (every failure path re-enters the loop head, so attempt n has start block s + (n−1)·max on every member, whatever happened in earlier attempts); " +
			"with F the attempt's start block, the announcement is awaited at F + delay, cancelled at F + delay + active, the attempt is handed startBlock = F + delay + active and timeoutBlock = F + delay + active + protocolBlocks, all as constants of the package, and timeoutBlock − F ≤ attemptMaximumBlocks() so attempt n+1 (starting at F + max) begins only after attempt n has timed out; " +
			"the signing loop calls Announce only under announcementEndBlock > currentBlock with an error-free current-block query (a member never joins an attempt whose announcement phase has passed). The key-generation loop has no such explicit test (its announce context is cancelled at the end block instead); that sibling difference is recorded, not asserted.",
		NotDecided: "unsigned overflow of the block arithmetic; that waitForBlockFn returns at the requested block; late members in the key-generation loop.",
		Fn: func(r *Run) {
			r.Rule("C11.counters", "attemptCounter: only +1 at the loop head; attemptStartBlock: only += max under counter > 1", 4)
			r.Rule("C11.windows", "announce at F+delay .. F+delay+active; attempt [F+delay+active, +protocol]; timeout − F ≤ max", 8)
			r.Rule("C11.not-late", "signing: Announce only while the announcement window is still open", 1)
			for _, s := range loops {
				fn := r.MustFn("C11.windows", "pkg/tbtc", s.typ+".start")
				if fn == nil {
					continue
				}
				name := FnName(fn)
				delay := atoi64(r.PkgConst("C11.windows", "pkg/tbtc", s.delay))
				active := atoi64(r.PkgConst("C11.windows", "pkg/tbtc", s.active))
				proto := atoi64(r.PkgConst("C11.windows", "pkg/tbtc", s.protocol))
				maxFn := r.W.Fn("pkg/tbtc", s.maxBlocks)
				var max int64 = -1
				if maxFn != nil {
					if c, ok := constResult(maxFn, 6); ok {
						max = c.C
					}
				}
				if max < 0 {
					r.Undecided("C11.windows", "pkg/tbtc."+s.maxBlocks, "not a compile-time constant")
					continue
				}
				// counters
				cs := receiverFieldStores(fn, "attemptCounter")
				okC := len(cs) == 1
				for _, st := range cs {
					if Affine(st.Val).String() != "1*P0.attemptCounter + 1" || len(Facts(st.Block())) != 0 {
						okC = false
					}
					// at the loop head: the block is a loop header's first body block reached on every iteration
					if !dominatesAllLoopBlocks(fn, st.Block()) {
						okC = false
					}
				}
				r.Cond(okC, "C11.counters", name+"#attemptCounter", fn.Pos(), "written once: counter+1, unconditionally, in the block every iteration starts with")
				ss := receiverFieldStores(fn, "attemptStartBlock")
				okS := len(ss) == 1
				for _, st := range ss {
					if affOverField(st.Val, "attemptStartBlock") != fmt.Sprintf("1*F + %d", max) {
						okS = false
					}
					if !HasFact(Facts(st.Block()), `^\+\(const:1 < P0\.attemptCounter\)$`) {
						okS = false
					}
				}
				r.Cond(okS, "C11.counters", name+"#attemptStartBlock", fn.Pos(), fmt.Sprintf("written once: += %s() = %d, under attemptCounter > 1", s.maxBlocks, max))
				// windows
				want := func(k int64) string { return fmt.Sprintf("1*F + %d", k) }
				nWait := 0
				for _, c := range Sites(fn, `^dyn$`, true) {
					if !re(`P2\)?$`).MatchString(Desc(c.Common().Value)) || len(c.Common().Args) != 2 {
						continue
					}
					a := affOverField(c.Common().Args[1], "attemptStartBlock")
					switch a {
					case want(delay):
						nWait++
						r.Ok("C11.windows", name+"#wait-announcement-start", c.Pos(), "waitForBlockFn(F + delay)")
					case want(delay + active):
						r.Ok("C11.windows", name+"#wait-announcement-end", c.Pos(), "announce context cancelled at F + delay + active")
					default:
						r.Fail("C11.windows", name+"#wait", c.Pos(), "waitForBlockFn on a block that is neither F+delay nor F+delay+active: "+a, nil, nil)
					}
				}
				if nWait == 0 {
					r.Undecided("C11.windows", name+"#wait-announcement-start", "no wait for the announcement start block found")
				}
				for _, c := range Sites(fn, `^pkg/tbtc\.withCancelOnBlock$`, false) {
					a := affOverField(c.Common().Args[1], "attemptStartBlock")
					r.Cond(a == want(delay+active) || a == want(delay+active+proto), "C11.windows", name+"#withCancelOnBlock", c.Pos(), "contexts are cancelled at the announcement end or at the attempt timeout; got "+a)
				}
				// attempt params literal
				nLit := 0
				EachInstr(fn, func(in ssa.Instruction) {
					st, ok := in.(*ssa.Store)
					if !ok {
						return
					}
					fa, ok := st.Addr.(*ssa.FieldAddr)
					if !ok || !strings.HasSuffix(typeName(fa.X.Type()), "AttemptParams") {
						return
					}
					f := fieldName(fa.X.Type().Underlying().(*types.Pointer).Elem(), fa.Field)
					a := affOverField(st.Val, "attemptStartBlock")
					switch f {
					case "startBlock":
						nLit++
						r.Cond(a == want(delay+active), "C11.windows", name+"#attempt.startBlock", in.Pos(), "attempt starts when the announcement ends: "+a)
					case "timeoutBlock":
						nLit++
						r.Cond(a == want(delay+active+proto), "C11.windows", name+"#attempt.timeoutBlock", in.Pos(), "attempt times out protocolBlocks later: "+a)
					case "number":
						r.Cond(Desc(st.Val) == "P0.attemptCounter", "C11.windows", name+"#attempt.number", in.Pos(), "attempt number is the counter")
					}
				})
				if nLit != 2 {
					r.Undecided("C11.windows", name+"#attempt-params", "start/timeout block of the attempt not found")
				}
				r.Cond(delay+active+proto <= max, "C11.windows", name+"#non-overlap", fn.Pos(), fmt.Sprintf("timeout − F = %d ≤ %s() = %d", delay+active+proto, s.maxBlocks, max))
				// announce
				for _, c := range Sites(fn, s.announce, false) {
					sess := Desc(c.Common().Args[len(c.Common().Args)-1])
					r.Cond(strings.HasPrefix(sess, `call:fmt.Sprintf(const:"%v-%v"`), "C11.windows", name+"#announce-session", c.Pos(), "announcement session id carries the attempt number")
					// the attempt's announcement starts only after the wait for its start block succeeded
					r.Check("C11.windows", name+"#announce-after-start-wait", c.Pos(), Facts(c.Block()), `^\+\(dyn:P2\(P1, .*\) == nil\)$`)
					if s.notLate {
						ok := false
						for _, g := range CmpGuards(c.Block()) {
							if g.Strict && affOverField(g.Hi, "attemptStartBlock") == want(delay+active) && strings.HasPrefix(Desc(g.Lo), "dyn:P3()") {
								ok = true
							}
						}
						r.Cond(ok && HasFact(Facts(c.Block()), `^\+\(dyn:P3\(\)#1 == nil\)$`), "C11.not-late", name+"#Announce", c.Pos(), "Announce only under currentBlock < announcementEndBlock (error-free query)")
					}
				}
			}
		},
	})

	register(&Prop{
		ID:        "C10",
		Technique: "static analysis: determinism effects (map-iteration order, RNG seed provenance, sort-before-return), dominator guard facts on inclusion, base-consistent position↔index pairing (go/ssa)",
		Explanation: "pkg/tbtc retry loops: (1) the ready list handed to the selection is canonical: Announcer.Announce sorts the ready indexes (built from a map) before returning them and UnreadyMembers sorts its result; (2) the selection functions of both loops read no map in iteration order into an ordered result, draw randomness only from rand.New(rand.NewSource(attemptSeed + attemptCounter)) — fields fixed per wallet message/seed and attempt — and sort before the seeded shuffle; " +
			"(3) a member index is included only when qualified[operator of position p] ∧ contains(ready, p+1) for the same position p of the operator list, every other index is excluded, and the qualified set comes from the retry package evaluated on the operators of the ready indexes (operators[index−1]) with retry count attemptCounter−1 and the threshold/quorum of the group parameters; " +
			"(4) signing: when more than HonestThreshold members qualify, the surplus included[threshold:] of the sorted-then-seeded-shuffled list is excluded and the exclusion list is sorted, so exactly the threshold number take part.",
		NotDecided: "the cardinality claims as arithmetic (that at least the quorum remains when the retry selection succeeds is C09's seat bound); equality of math/rand's shuffle across Go versions.",
		Fn: func(r *Run) {
			r.Rule("C10.canonical-ready", "ready/unready lists are sorted before they are returned", 2)
			r.Rule("C10.deterministic", "no map-order leak, seeded local RNG only, sort before shuffle", 5)
			r.Rule("C10.ready-only", "included ⇔ qualified[operators[p]] ∧ contains(ready, p+1)", 4)
			r.Rule("C10.qualified", "qualified set = retry selection over the ready members' operators", 4)
			r.Rule("C10.exact-threshold", "signing: surplus beyond the threshold is excluded after sort + seeded shuffle", 2)

			for _, n := range []string{"Announcer.Announce", "UnreadyMembers"} {
				if fn := r.MustFn("C10.canonical-ready", "pkg/protocol/announcer", n); fn != nil {
					leaks, _ := MapOrderLeaks(fn)
					// every non-nil result slice is dominated by a sort of it
					sorted := true
					for _, b := range fn.Blocks {
						ret, ok := b.Instrs[len(b.Instrs)-1].(*ssa.Return)
						if !ok || isNilConst(RetResults(ret)[0]) {
							continue
						}
						if sl, isSl := RetResults(ret)[0].(*ssa.Slice); isSl && isSliceLiteral(sl) {
							continue // a literal list
						}
						okS := false
						for _, c := range CallsMatching(fn, `^sort\.Slice$`) {
							arg := unwrapIface(c.Common().Args[0])
							if InstrBefore(c.(ssa.Instruction), ret) && (derives(arg, RetResults(ret)[0]) || derives(RetResults(ret)[0], arg) || sameAccum(fn, arg, RetResults(ret)[0])) {
								okS = true
							}
						}
						if !okS {
							sorted = false
						}
					}
					r.Cond(len(leaks) == 0 && sorted, "C10.canonical-ready", FnName(fn), fn.Pos(), "returned list sorted ascending before return; no map-order leak")
				}
			}
			type sel struct{ typ, opsField, thresholdField, retryFn string }
			for _, s := range []sel{
				{"signingRetryLoop", "signingGroupOperators", "HonestThreshold", "pkg/tecdsa/retry.EvaluateRetryParticipantsForSigning"},
				{"dkgRetryLoop", "selectedOperators", "GroupQuorum", "pkg/tecdsa/retry.EvaluateRetryParticipantsForKeyGeneration"},
			} {
				var fns []*ssa.Function
				for _, m := range []string{"performMembersSelection", "qualifiedOperatorsSet", "excludedMembersIndexes"} {
					if f := r.W.Fn("pkg/tbtc", s.typ+"."+m); f != nil {
						fns = append(fns, WithClosures(f)...)
					}
				}
				if len(fns) < 2 {
					r.Undecided("C10.deterministic", s.typ, "selection functions not found")
					continue
				}
				for _, fn := range fns {
					leaks, _ := MapOrderLeaks(fn)
					nd := NondetCalls(fn)
					okSeed := true
					for _, c := range CallsMatching(fn, `^math/rand\.NewSource$`) {
						_, ts := AffineTerms(c.Common().Args[0])
						for _, t := range ts {
							if !re(`^P0\.attempt(Seed|Counter)$`).MatchString(Desc(t.V)) {
								okSeed = false
							}
						}
					}
					okShuffle := true
					for _, c := range CallsMatching(fn, `^math/rand\.Rand\.Shuffle$`) {
						before := false
						for _, sc := range CallsMatching(fn, `^sort\.Slice$`) {
							if InstrBefore(sc.(ssa.Instruction), c.(ssa.Instruction)) {
								before = true
							}
						}
						if !before || !strings.HasPrefix(Desc(c.Common().Args[0]), "call:math/rand.New(call:math/rand.NewSource(") {
							okShuffle = false
						}
					}
					if fn.Parent() == nil {
						r.Cond(len(leaks) == 0 && len(nd) == 0 && okSeed && okShuffle, "C10.deterministic", FnName(fn), fn.Pos(),
							fmt.Sprintf("map-order leaks %d, global/clock sources %d, seed from attemptSeed/attemptCounter %v, sorted before seeded shuffle %v", len(leaks), len(nd), okSeed, okShuffle))
					}
				}
				// inclusion predicate
				var host *ssa.Function
				for _, fn := range fns {
					if fn.Parent() == nil && len(CallsMatching(fn, `slices\.Contains\[`)) > 0 {
						host = fn
					}
				}
				if host == nil {
					r.Undecided("C10.ready-only", s.typ, "no inclusion test found")
					continue
				}
				for _, c := range CallsMatching(host, `slices\.Contains\[`) {
					a := c.Common().Args
					// contains(ready param, position + 1)
					k, ts := AffineTerms(a[1])
					var pos ssa.Value
					okIdx := false
					if len(ts) == 1 && ts[0].K == 1 {
						if bo, isB := stripConv(ts[0].V).(*ssa.BinOp); isB {
							_ = bo
						}
						pos = ts[0].V
						okIdx = k == 1 || k == 2 // position may be the range temp (phi+1) or the phi itself
					}
					isReady := false
					if p, isP := a[0].(*ssa.Parameter); isP && strings.Contains(p.Name(), "ready") {
						isReady = true
					}
					// the qualified lookup keyed by operators[same position]
					var lk *ssa.Lookup
					for _, g := range Guards(c.Block()) {
						if ex, isEx := g.Cond.(*ssa.Lookup); isEx && g.Pol {
							lk = ex
						}
					}
					okKey := false
					if lk != nil {
						if ld, isLd := lk.Index.(*ssa.UnOp); isLd {
							if ia, isIA := ld.X.(*ssa.IndexAddr); isIA && Desc(ia.X) == "P0."+s.opsField {
								_, its := AffineTerms(ia.Index)
								okKey = len(its) == 1 && pos != nil && its[0].V == pos
							}
						}
					}
					r.Cond(okIdx && isReady && okKey, "C10.ready-only", FnName(host)+"#predicate", c.Pos(),
						"membership in the ready list is tested for position+1 only after qualified[operators[position]] held, for the same position")
					// what the predicate guards
					for _, ap := range appendsIn(host) {
						facts := Guards(ap.Block())
						incl := false
						for _, g := range facts {
							if cv := callValue(c); cv != nil && g.Cond == cv && g.Pol {
								incl = true
							}
						}
						elem := appendedElem(ap)
						if elem == nil || !dependsOn(elem, pos, nil) {
							continue
						}
						if strings.Contains(accumName(ap), "included") {
							r.Cond(incl, "C10.ready-only", FnName(host)+"#include", ap.Pos(), "an index is included only under qualified ∧ ready")
						} else if strings.Contains(accumName(ap), "excluded") && len(facts) > 0 {
							// excluded under ¬(qualified ∧ ready): the guard is the negated
							// conjunction value whose only non-constant input is the ready test
							okX := false
							for _, g := range RawGuards(ap.Block()) {
								phi, isPhi := g.Cond.(*ssa.Phi)
								if !isPhi || g.Pol {
									continue
								}
								nonConst, allFalse := 0, true
								for _, e := range phi.Edges {
									if cb, isC := constBool(e); isC {
										if cb {
											allFalse = false
										}
										continue
									}
									nonConst++
									if cv := callValue(c); cv == nil || e != cv {
										allFalse = false
									}
								}
								if nonConst == 1 && allFalse {
									okX = true
								}
							}
							if okX {
								r.Ok("C10.ready-only", FnName(host)+"#exclude", ap.Pos(), "an index is excluded exactly when qualified ∧ ready fails")
							}
						}
					}
				}
				// qualified set
				if q := r.W.Fn("pkg/tbtc", s.typ+".qualifiedOperatorsSet"); q != nil {
					for _, c := range CallsMatching(q, `^`+q_(s.retryFn)+`$`) {
						a := c.Common().Args
						okSeed := Desc(a[1]) == "P0.attemptSeed"
						okRetry := Affine(a[2]).String() == "1*P0.attemptCounter + -1"
						okCount := strings.Contains(Desc(a[3]), "P0.groupParameters."+s.thresholdField)
						acc := accumOf(Accumulations(q), unwrapIface(a[0]))
						okOps := false
						if acc != nil && sameValue(acc.Source, q.Params[1]) {
							okOps = true
							for _, ap := range acc.Appends {
								e := appendedElem(ap)
								ld, isLd := e.(*ssa.UnOp)
								if !isLd {
									okOps = false
									continue
								}
								ia, isIA := ld.X.(*ssa.IndexAddr)
								if !isIA || Desc(ia.X) != "P0."+s.opsField || indexBase(ia.Index, 8) != 0 {
									okOps = false
								}
							}
						}
						r.Cond(okSeed && okRetry && okCount && okOps, "C10.qualified", FnName(q)+"#retry-call", c.Pos(),
							fmt.Sprintf("retry selection over operators[readyIndex−1] (%v), seed attemptSeed (%v), retry count attemptCounter−1 (%v), count %s (%v)", okOps, okSeed, okRetry, s.thresholdField, okCount))
					}
					for _, p := range SuccessReturns(q) {
						d := Desc(RetResults(p.Ret)[0])
						r.Cond(strings.HasPrefix(d, "call:pkg/chain.Addresses.Set("), "C10.qualified", FnName(q)+"#return", p.Ret.Pos(), "the qualified operators are returned as a set (order-free)")
					}
				}
			}
			// exact threshold (signing)
			if fn := r.MustFn("C10.exact-threshold", "pkg/tbtc", "signingRetryLoop.excludedMembersIndexes"); fn != nil {
				n := 0
				EachInstr(fn, func(in ssa.Instruction) {
					sl, ok := in.(*ssa.Slice)
					if !ok || sl.Low == nil || sl.High != nil || Desc(stripConv(sl.Low)) != "P0.groupParameters.HonestThreshold" {
						return
					}
					n++
					okG := false
					for _, g := range CmpGuards(in.Block()) {
						if g.Strict && Desc(stripConv(g.Lo)) == "P0.groupParameters.HonestThreshold" && isLenOf(g.Hi) != nil {
							okG = true
						}
					}
					shuffled := false
					for _, c := range CallsMatching(fn, `^math/rand\.Rand\.Shuffle$`) {
						if InstrBefore(c.(ssa.Instruction), in) {
							shuffled = true
						}
					}
					r.Cond(okG && shuffled, "C10.exact-threshold", FnName(fn)+"#surplus", in.Pos(), "included[threshold:] is cut only when more than the threshold qualified, after the seeded shuffle")
				})
				if n == 0 {
					r.Undecided("C10.exact-threshold", FnName(fn), "surplus cut not found")
				}
				// the returned exclusion list is sorted after the surplus was added
				for _, b := range fn.Blocks {
					if ret, ok := b.Instrs[len(b.Instrs)-1].(*ssa.Return); ok {
						_ = ret
					}
				}
				sorts := CallsMatching(fn, `^sort\.Slice$`)
				r.Cond(len(sorts) >= 2, "C10.exact-threshold", FnName(fn)+"#sorted-exclusions", fn.Pos(), "the included list is sorted before the shuffle and the exclusion list after the surplus was appended")
			}
		},
	})
	witness(Witness{Prop: "C11", Name: "start-block-advanced-unconditionally", File: "pkg/tbtc/signing_loop.go",
		Old: "\t\tif srl.attemptCounter > 1 {\n\t\t\tsrl.attemptStartBlock = srl.attemptStartBlock +", New: "\t\tif srl.attemptCounter > 0 {\n\t\t\tsrl.attemptStartBlock = srl.attemptStartBlock +", Rule: "C11.counters"})
	witness(Witness{Prop: "C11", Name: "late-member-announces", File: "pkg/tbtc/signing_loop.go",
		Old: "\t\tif announcementEndBlock <= currentBlock {", New: "\t\tif announcementEndBlock+signingAttemptMaximumProtocolBlocks <= currentBlock {", Rule: "C11.not-late"})
	witness(Witness{Prop: "C11", Name: "dkg-timeout-beyond-window", File: "pkg/tbtc/dkg_loop.go",
		Old: "\t\ttimeoutBlock := announcementEndBlock + dkgAttemptMaximumProtocolBlocks", New: "\t\ttimeoutBlock := announcementEndBlock + dkgAttemptMaximumProtocolBlocks + dkgAttemptCoolDownBlocks + 1", Rule: "C11.windows"})
	witness(Witness{Prop: "C10", Name: "announce-unsorted", File: "pkg/protocol/announcer/announcer.go",
		Old: "\tsort.Slice(readyMembersIndexes, func(i, j int) bool {\n\t\treturn readyMembersIndexes[i] < readyMembersIndexes[j]\n\t})\n", New: "\tsort.Slice(readyMembersIndexes[:0], func(i, j int) bool {\n\t\treturn readyMembersIndexes[i] < readyMembersIndexes[j]\n\t})\n", Rule: "C10.canonical-ready"})
	witness(Witness{Prop: "C10", Name: "include-unready", File: "pkg/tbtc/signing_loop.go",
		Old: "\t\tif qualifiedOperatorsSet[operator] &&\n\t\t\tslices.Contains(readyMembersIndexes, memberIndex) {", New: "\t\tif qualifiedOperatorsSet[operator] ||\n\t\t\tslices.Contains(readyMembersIndexes, memberIndex) {", Rule: "C10.ready-only"})
	witness(Witness{Prop: "C10", Name: "retry-count-off", File: "pkg/tbtc/dkg_loop.go",
		Old: "\tretryCount := drl.attemptCounter - 1\n", New: "\tretryCount := drl.attemptCounter\n", Rule: "C10.qualified"})
}

func q_(s string) string { return q(s) }

// isSliceLiteral: x[:] of a compiler-made array for a composite literal.
func isSliceLiteral(sl *ssa.Slice) bool {
	al, ok := sl.X.(*ssa.Alloc)
	return ok && (al.Comment == "slicelit" || !al.Heap)
}

// unwrapIface strips interface and named-type conversions.
func unwrapIface(v ssa.Value) ssa.Value {
	for i := 0; i < 6; i++ {
		switch x := v.(type) {
		case *ssa.MakeInterface:
			v = x.X
		case *ssa.ChangeType:
			v = x.X
		case *ssa.ChangeInterface:
			v = x.X
		default:
			return v
		}
	}
	return v
}

func atoi64(s string) int64 {
	var n int64
	neg := false
	for i, ch := range s {
		if i == 0 && ch == '-' {
			neg = true
			continue
		}
		if ch < '0' || ch > '9' {
			return 0
		}
		n = n*10 + int64(ch-'0')
	}
	if neg {
		return -n
	}
	return n
}

// dominatesAllLoopBlocks: b is executed at the start of every iteration of the
// function's outermost loop (it dominates every other block of that loop
// except the header's own bookkeeping).
func dominatesAllLoopBlocks(fn *ssa.Function, b *ssa.BasicBlock) bool {
	all := Loops(fn)
	for _, l := range all {
		if !l.Blocks[b] {
			continue
		}
		outer := true
		for _, o := range all {
			if o.Header != l.Header && o.Blocks[l.Header] {
				outer = false
			}
		}
		if !outer {
			continue
		}
		for x := range l.Blocks {
			if x != l.Header && !dominates(b, x) {
				return false
			}
		}
		return true
	}
	return false
}

func appendsIn(fn *ssa.Function) []*ssa.Call {
	var out []*ssa.Call
	EachInstr(fn, func(in ssa.Instruction) {
		if c := isAppendInstr(in); c != nil {
			out = append(out, c)
		}
	})
	return out
}

// appendedElem: the single element appended by `append(xs, e)`.
func appendedElem(ap *ssa.Call) ssa.Value {
	if len(ap.Call.Args) != 2 {
		return nil
	}
	sl, ok := ap.Call.Args[1].(*ssa.Slice)
	if !ok {
		return nil
	}
	va, ok := sl.X.(*ssa.Alloc)
	if !ok {
		return nil
	}
	var e ssa.Value
	for _, ref := range *va.Referrers() {
		if ia, ok := ref.(*ssa.IndexAddr); ok {
			for _, r2 := range *ia.Referrers() {
				if st, ok := r2.(*ssa.Store); ok && st.Addr == ia {
					e = st.Val
				}
			}
		}
	}
	return e
}

// accumName: source-level name of the slice an append feeds (from the phi's
// or alloc's comment), best effort for reports.
func accumName(ap *ssa.Call) string {
	var names []string
	seen := map[ssa.Value]bool{}
	var walk func(v ssa.Value, d int)
	walk = func(v ssa.Value, d int) {
		if v == nil || d == 0 || seen[v] {
			return
		}
		seen[v] = true
		switch x := v.(type) {
		case *ssa.Phi:
			names = append(names, x.Comment)
			for _, e := range x.Edges {
				walk(e, d-1)
			}
		case *ssa.Call:
			if a := isAppend(x); a != nil {
				walk(a.Call.Args[0], d-1)
			}
		case *ssa.UnOp:
			if al, ok := x.X.(*ssa.Alloc); ok {
				names = append(names, al.Comment)
			}
		}
	}
	walk(ap.Call.Args[0], 6)
	if ap.Referrers() != nil {
		for _, ref := range *ap.Referrers() {
			if phi, ok := ref.(*ssa.Phi); ok {
				names = append(names, phi.Comment)
			}
			if st, ok := ref.(*ssa.Store); ok {
				if al, ok := st.Addr.(*ssa.Alloc); ok {
					names = append(names, al.Comment)
				}
			}
		}
	}
	return strings.Join(names, ",")
}

// sameAccum: a and b belong to the same append accumulation of fn, or b is an
// address-taken local that a was loaded from.
func sameAccum(fn *ssa.Function, a, b ssa.Value) bool {
	for _, acc := range Accumulations(fn) {
		if acc.Vals[a] && acc.Vals[b] {
			return true
		}
	}
	la, ok1 := a.(*ssa.UnOp)
	lb, ok2 := b.(*ssa.UnOp)
	return ok1 && ok2 && la.X == lb.X
}
