package main

import (
	"fmt"
	"go/token"
	"go/types"
	"sort"
	"strings"

	"golang.org/x/tools/go/ssa"
)

func structKey(t types.Type, field int) string {
	n := namedOf(t)
	if n == nil {
		return ""
	}
	name := n.Obj().Name()
	if name == "internalTransaction" {
		name = "MsgTx"
	}
	return name + "." + fieldName(t, field)
}

// fieldRead: v (after conversions) is the value of a struct field; returns
// "Struct.field" and the index value of the slice element the struct came from
// (nil when not an element).
func fieldRead(v ssa.Value) (string, ssa.Value) {
	v = stripConv(v)
	var fa *ssa.FieldAddr
	switch x := v.(type) {
	case *ssa.UnOp:
		if x.Op != token.MUL {
			return "", nil
		}
		f, ok := x.X.(*ssa.FieldAddr)
		if !ok {
			return "", nil
		}
		fa = f
	case *ssa.Field:
		return structKey(x.X.Type(), x.Field), nil
	default:
		return "", nil
	}
	key := structKey(fa.X.Type(), fa.Field)
	// walk down to the slice element
	cur := fa.X
	for i := 0; i < 6; i++ {
		switch y := cur.(type) {
		case *ssa.FieldAddr:
			cur = y.X
		case *ssa.UnOp:
			cur = y.X
		case *ssa.IndexAddr:
			return key, y.Index
		default:
			return key, nil
		}
	}
	return key, nil
}

type leafCopy struct {
	Dst, Src string
	Idx      ssa.Value // index of the source element
	Root     *ssa.Alloc
	Pos      token.Pos
}

// leafCopies: stores `dstStruct.field <- (conv of) srcStruct.field` in fn.
func leafCopies(fn *ssa.Function) []leafCopy {
	var out []leafCopy
	EachInstr(fn, func(in ssa.Instruction) {
		st, ok := in.(*ssa.Store)
		if !ok {
			return
		}
		fa, ok := st.Addr.(*ssa.FieldAddr)
		if !ok {
			return
		}
		src, idx := fieldRead(st.Val)
		if src == "" {
			return
		}
		dst := structKey(fa.X.Type(), fa.Field)
		// embedded promotion: &P0.MsgTx.Version has X = &P0.MsgTx (FieldAddr) of type *wire.MsgTx
		var root *ssa.Alloc
		cur := fa.X
		for i := 0; i < 4; i++ {
			switch y := cur.(type) {
			case *ssa.FieldAddr:
				cur = y.X
			case *ssa.Alloc:
				root = y
			}
		}
		out = append(out, leafCopy{Dst: dst, Src: src, Idx: idx, Root: root, Pos: in.Pos()})
	})
	return out
}

func init() {
	const bp = "pkg/bitcoin"
	register(&Prop{
		ID:        "C29",
		Technique: "static analysis: writer/reader table agreement — field-copy relations of the two transaction converters must be inverse and complete; block-header field/offset/width tables of Serialize and Deserialize must coincide and tile the 80 bytes; byte-order handling of NewHash and Hash.Hex must mirror; sub-serialization ranges by affine forms (go/ssa, go/types)",
		Explanation: "Round-trip equality is value-level, but it has structural necessary conditions that live in this repository's code (the byte codec itself is btcd's wire package): " +
			"(1) Transaction.Serialize goes through internalTransaction.fromTransaction and Deserialize through toTransaction; the leaf field copies of the two converters are inverse relations, cover every leaf field of Transaction, TransactionInput, TransactionOutpoint and TransactionOutput, and copy element i to element i; " +
			"(2) Deserialize assigns all four Transaction fields from the converted value and nothing on failure; " +
			"(3) Serialize(Standard) uses SerializeNoWitness, Serialize(Witness) uses Serialize; Hash() hashes the Standard form (so it ignores witness data), WitnessHash() the Witness form; " +
			"(4) SerializeInputs is Serialize(Standard)[4 : 4+size(inputs)] and SerializeOutputs is [len−4−size(outputs) : len−4], sizes being the compact-size prefix plus the elements' serialized sizes; SerializeVersion/Locktime are the little-endian 4 bytes of the fields; " +
			"(5) BlockHeader.Serialize and Deserialize use the same (field, offset, width, little-endian) table, the fields tile the 80 bytes without gap or overlap; " +
			"(6) NewHash reverses exactly under ReversedByteOrder and Hash.Hex reverses (i ↔ 31−i over half the length) exactly under ReversedByteOrder; both reject other orders; " +
			"(7) Script.ToVarLenData = compact-size(len) ‖ script and NewScriptFromVarLenData returns the bytes after the prefix only when prefix length + declared length = total length.",
		NotDecided: "that btcd's wire encoder and decoder invert each other, and equality of values as such.",
		Fn: func(r *Run) {
			r.Rule("C29.converters", "fromTransaction and toTransaction copy inverse, complete, index-aligned field relations", 18)
			r.Rule("C29.deserialize", "Deserialize assigns every Transaction field from the decoded value; nothing on failure", 5)
			r.Rule("C29.formats", "format selection and the two hashes", 5)
			r.Rule("C29.sub-ranges", "inputs/outputs/version/locktime serializations are the matching parts of the full serialization", 4)
			r.Rule("C29.header-layout", "BlockHeader writer and reader tables coincide and tile the header", 3)
			r.Rule("C29.byte-order", "NewHash and Hash.Hex treat the two byte orders symmetrically", 5)
			r.Rule("C29.var-len", "compact-size prefixed script encode/decode agree", 2)

			// ---- (1) converters
			from := r.MustFn("C29.converters", bp, "internalTransaction.fromTransaction")
			to := r.MustFn("C29.converters", bp, "internalTransaction.toTransaction")
			if from != nil && to != nil {
				fc, tc := leafCopies(from), leafCopies(to)
				rel := func(cs []leafCopy, inverse bool) map[string]string {
					m := map[string]string{}
					for _, c := range cs {
						if inverse {
							m[c.Src] = c.Dst
						} else {
							m[c.Dst] = c.Src
						}
					}
					return m
				}
				a, b := rel(fc, false), rel(tc, true) // both: wire field → bitcoin field
				var keys []string
				for k := range a {
					keys = append(keys, k)
				}
				for k := range b {
					if _, ok := a[k]; !ok {
						keys = append(keys, k)
					}
				}
				sort.Strings(keys)
				for _, k := range keys {
					r.Cond(a[k] != "" && a[k] == b[k], "C29.converters", "wire:"+k, from.Pos(), fmt.Sprintf("written from %q, read back into %q", a[k], b[k]))
				}
				// coverage of the repository's leaf fields
				covered := map[string]bool{}
				for _, v := range a {
					covered[v] = true
				}
				if pkg := r.W.Pkg(bp); pkg != nil {
					for _, tn := range []string{"Transaction", "TransactionInput", "TransactionOutpoint", "TransactionOutput"} {
						t := pkg.Type(tn)
						if t == nil {
							r.Undecided("C29.converters", bp+"."+tn, "type not found")
							continue
						}
						st := t.Type().Underlying().(*types.Struct)
						for i := 0; i < st.NumFields(); i++ {
							ft := st.Field(i).Type()
							if p, isP := ft.Underlying().(*types.Pointer); isP && namedOf(p) != nil {
								continue // container: pointer to a struct
							}
							if s, isS := ft.Underlying().(*types.Slice); isS {
								if p, isP := s.Elem().Underlying().(*types.Pointer); isP && namedOf(p) != nil {
									continue // container: list of structs
								}
							}
							k := tn + "." + st.Field(i).Name()
							r.Cond(covered[k], "C29.converters", "field:"+k, st.Field(i).Pos(), "the field is carried into the wire form and back")
						}
					}
				}
				// index alignment: the literal stored at dst[i] reads src[i]
				for _, fn := range []*ssa.Function{from, to} {
					n, okAll := 0, true
					EachInstr(fn, func(in ssa.Instruction) {
						st, ok := in.(*ssa.Store)
						if !ok {
							return
						}
						ia, ok := st.Addr.(*ssa.IndexAddr)
						if !ok {
							return
						}
						al, ok := st.Val.(*ssa.Alloc)
						if !ok {
							return
						}
						n++
						for _, c := range leafCopies(fn) {
							owner := c.Root
							// nested literal (Outpoint): its owner is the literal it is stored into
							if owner != nil && owner != al {
								for _, ref := range *owner.Referrers() {
									if s2, isSt := ref.(*ssa.Store); isSt && s2.Val == ssa.Value(owner) {
										if fa2, isFA := s2.Addr.(*ssa.FieldAddr); isFA && fa2.X == ssa.Value(al) {
											owner = al
										}
									}
								}
							}
							if owner == al && c.Idx != ia.Index {
								okAll = false
							}
						}
					})
					r.Cond(n == 2 && okAll, "C29.converters", FnName(fn)+"#index-aligned", fn.Pos(), "element i of inputs/outputs is built from element i of the source")
				}
			}
			// ---- (2) Deserialize
			if fn := r.MustFn("C29.deserialize", bp, "Transaction.Deserialize"); fn != nil {
				name := FnName(fn)
				got := map[string]string{}
				EachInstr(fn, func(in ssa.Instruction) {
					if st, ok := in.(*ssa.Store); ok {
						if fa, ok := st.Addr.(*ssa.FieldAddr); ok && fa.X == ssa.Value(fn.Params[0]) {
							got[fieldName(fa.X.Type(), fa.Field)] = Desc(st.Val)
							r.Check("C29.deserialize", name+"#only-on-success/"+fieldName(fa.X.Type(), fa.Field), in.Pos(), Facts(in.Block()), okOf(`github\.com/btcsuite/btcd/wire\.MsgTx\.Deserialize`))
						}
					}
				})
				conv := "call:pkg/bitcoin.internalTransaction.toTransaction(call:pkg/bitcoin.newInternalTransaction())"
				okAll := len(got) == 4
				for _, f := range []string{"Version", "Inputs", "Outputs", "Locktime"} {
					if got[f] != conv+"."+f {
						okAll = false
					}
				}
				r.Cond(okAll, "C29.deserialize", name+"#fields", fn.Pos(), "all four fields come from the decoded transaction")
			}
			// ---- (3) formats and hashes
			if fn := r.MustFn("C29.formats", bp, "Transaction.Serialize"); fn != nil {
				std, wit := r.PkgConst("C29.formats", bp, "Standard"), r.PkgConst("C29.formats", bp, "Witness")
				for _, c := range Sites(fn, `^github\.com/btcsuite/btcd/wire\.MsgTx\.(SerializeNoWitness|Serialize)$`, false) {
					want := wit
					if strings.HasSuffix(CalleeName(c), "NoWitness") {
						want = std
					}
					r.Check("C29.formats", FnName(fn)+"#"+shortCallee(c), c.Pos(), Facts(c.Block()), `^\+\(const:`+q(want)+` == phi\{P1\[const:0\] \| const:`+q(wit)+`\}\)$`)
				}
				// the serialized object is the converted receiver
				okFrom := false
				for _, c := range Sites(fn, `^pkg/bitcoin\.internalTransaction\.fromTransaction$`, false) {
					okFrom = Desc(c.Common().Args[1]) == "P0" && c.Block() == fn.Blocks[0]
				}
				r.Cond(okFrom, "C29.formats", FnName(fn)+"#from-receiver", fn.Pos(), "the wire form is built from the receiver before the format is chosen")
			}
			for _, hv := range [][2]string{{"Transaction.Hash", "Standard"}, {"Transaction.WitnessHash", "Witness"}} {
				if fn := r.MustFn("C29.formats", bp, hv[0]); fn != nil {
					c := r.PkgConst("C29.formats", bp, hv[1])
					ok := false
					for _, b := range fn.Blocks {
						if ret, isRet := b.Instrs[len(b.Instrs)-1].(*ssa.Return); isRet && len(ret.Results) == 1 {
							d := Desc(ret.Results[0])
							ok = strings.HasPrefix(d, "call:pkg/bitcoin.ComputeHash(call:pkg/bitcoin.Transaction.Serialize(P0, ")
						}
					}
					// the single variadic element is the format constant
					for _, s := range Sites(fn, `^pkg/bitcoin\.Transaction\.Serialize$`, false) {
						es := litElems(s.Common().Args[1])
						ok = ok && len(es) == 1 && len(es[0]) == 1 && Desc(es[0][0].Val) == "const:"+c
					}
					r.Cond(ok, "C29.formats", FnName(fn), fn.Pos(), "double-SHA256 of the "+hv[1]+" serialization")
				}
			}
			// ---- (4) sub-ranges
			if fn := r.MustFn("C29.sub-ranges", bp, "Transaction.SerializeInputs"); fn != nil {
				ok := false
				for _, b := range fn.Blocks {
					if ret, isRet := b.Instrs[len(b.Instrs)-1].(*ssa.Return); isRet {
						if sl, isSl := ret.Results[0].(*ssa.Slice); isSl && sl.Low != nil && sl.High != nil {
							lo, _ := constInt(sl.Low)
							c, ts := AffineTerms(sl.High)
							ok = lo == 4 && c == 4 && len(ts) == 1 && ts[0].K == 1 && sizeAccum(ts[0].V, "TxIn") && strings.HasPrefix(Desc(sl.X), "call:pkg/bitcoin.Transaction.Serialize(P0, ")
						}
					}
				}
				r.Cond(ok, "C29.sub-ranges", FnName(fn), fn.Pos(), "Serialize(Standard)[4 : 4 + varint(len(inputs)) + Σ input sizes]")
			}
			if fn := r.MustFn("C29.sub-ranges", bp, "Transaction.SerializeOutputs"); fn != nil {
				ok := false
				for _, b := range fn.Blocks {
					if ret, isRet := b.Instrs[len(b.Instrs)-1].(*ssa.Return); isRet {
						if sl, isSl := ret.Results[0].(*ssa.Slice); isSl && sl.Low != nil && sl.High != nil {
							hc, hts := AffineTerms(sl.High)
							lc, lts := AffineTerms(sl.Low)
							okHigh := hc == -4 && len(hts) == 1 && hts[0].K == 1 && isLenOf(hts[0].V) != nil && isLenOf(hts[0].V) == sl.X
							okLow := lc == -4 && len(lts) == 2
							if okLow {
								nLen, nAcc := 0, 0
								for _, t := range lts {
									if t.K == 1 && isLenOf(t.V) != nil && isLenOf(t.V) == sl.X {
										nLen++
									}
									if t.K == -1 && sizeAccum(t.V, "TxOut") {
										nAcc++
									}
								}
								okLow = nLen == 1 && nAcc == 1
							}
							ok = okHigh && okLow && strings.HasPrefix(Desc(sl.X), "call:pkg/bitcoin.Transaction.Serialize(P0, ")
						}
					}
				}
				r.Cond(ok, "C29.sub-ranges", FnName(fn), fn.Pos(), "Serialize(Standard)[len − 4 − (varint(len(outputs)) + Σ output sizes) : len − 4]")
			}
			for _, fv := range [][2]string{{"Transaction.SerializeVersion", "conv:uint32(P0.Version)"}, {"Transaction.SerializeLocktime", "P0.Locktime"}} {
				if fn := r.MustFn("C29.sub-ranges", bp, fv[0]); fn != nil {
					ok := false
					for _, c := range Sites(fn, `^encoding/binary\.littleEndian\.PutUint32$`, false) {
						ok = Desc(c.Common().Args[2]) == fv[1] && strings.HasSuffix(Desc(c.Common().Args[1]), "[:]")
					}
					r.Cond(ok, "C29.sub-ranges", FnName(fn), fn.Pos(), "little-endian 4 bytes of the field")
				}
			}
			// ---- (5) block header
			ser := r.MustFn("C29.header-layout", bp, "BlockHeader.Serialize")
			des := r.MustFn("C29.header-layout", bp, "BlockHeader.Deserialize")
			if ser != nil && des != nil {
				w, okW := headerTable(ser, true)
				rd, okR := headerTable(des, false)
				r.Cond(okW && okR && len(w) > 0 && fmt.Sprint(w) == fmt.Sprint(rd), "C29.header-layout", "BlockHeader#tables", ser.Pos(), fmt.Sprintf("writer %v = reader %v", w, rd))
				// tiling
				total := 0
				okTile := true
				for _, e := range w {
					if e.Off != total {
						okTile = false
					}
					total += e.Width
				}
				want := r.PkgConst("C29.header-layout", bp, "BlockHeaderByteLength")
				r.Cond(okTile && fmt.Sprint(total) == want, "C29.header-layout", "BlockHeader#tiling", ser.Pos(), fmt.Sprintf("fields tile %d bytes; header length %s", total, want))
				// every field of the struct is in the table
				if pkg := r.W.Pkg(bp); pkg != nil && pkg.Type("BlockHeader") != nil {
					st := pkg.Type("BlockHeader").Type().Underlying().(*types.Struct)
					inTab := map[string]bool{}
					for _, e := range w {
						inTab[e.Field] = true
					}
					okCov := st.NumFields() == len(w)
					for i := 0; i < st.NumFields(); i++ {
						if !inTab[st.Field(i).Name()] {
							okCov = false
						}
					}
					r.Cond(okCov, "C29.header-layout", "BlockHeader#coverage", ser.Pos(), "every header field is serialized exactly once")
				}
			}
			// ---- (6) byte order
			rev := r.PkgConst("C29.byte-order", bp, "ReversedByteOrder")
			intl := r.PkgConst("C29.byte-order", bp, "InternalByteOrder")
			if fn := r.MustFn("C29.byte-order", bp, "NewHash"); fn != nil {
				for _, c := range Sites(fn, `^builtin:copy$`, false) {
					src := Desc(c.Common().Args[1])
					facts := Facts(c.Block())
					if strings.HasPrefix(src, "call:pkg/internal/byteutils.Reverse(P0)") {
						r.Check("C29.byte-order", FnName(fn)+"#reversed", c.Pos(), facts, `^\+\(P1 == const:`+q(rev)+`\)$`, `^\+\(const:32 == len\(P0\)\)$`)
					} else {
						r.Check("C29.byte-order", FnName(fn)+"#internal", c.Pos(), facts, `^\+\(P1 == const:`+q(intl)+`\)$`, `^\+\(const:32 == len\(P0\)\)$`)
						r.Cond(src == "P0[:]" || src == "P0", "C29.byte-order", FnName(fn)+"#internal-copy", c.Pos(), "internal order is copied as is")
					}
				}
			}
			if fn := r.MustFn("C29.byte-order", bp, "Hash.Hex"); fn != nil {
				name := FnName(fn)
				// the swap loop
				var stores []*ssa.Store
				EachInstr(fn, func(in ssa.Instruction) {
					if st, ok := in.(*ssa.Store); ok {
						if _, isIA := st.Addr.(*ssa.IndexAddr); isIA {
							stores = append(stores, st)
						}
					}
				})
				okSwap := len(stores) == 2
				if okSwap {
					i0 := stores[0].Addr.(*ssa.IndexAddr).Index
					i1 := stores[1].Addr.(*ssa.IndexAddr).Index
					c, ts := AffineTerms(i1)
					okSwap = c == 31 && len(ts) == 1 && ts[0].K == -1 && ts[0].V == i0
					// values crossed
					okSwap = okSwap && strings.Contains(Desc(stores[0].Val), "[(const:31 - ") && !strings.Contains(Desc(stores[1].Val), "const:31")
					okSwap = okSwap && HasFact(Facts(stores[0].Block()), `^\+\(P1 == const:`+q(rev)+`\)$`) && HasFact(Facts(stores[0].Block()), `^\+\(phi\{.*\| const:0\} < const:16\)$`)
				}
				r.Cond(okSwap, "C29.byte-order", name+"#reversal", fn.Pos(), "under ReversedByteOrder bytes i and 31−i are swapped for i < 16")
				for _, b := range fn.Blocks {
					if ret, isRet := b.Instrs[len(b.Instrs)-1].(*ssa.Return); isRet {
						if HasFact(Facts(b), `^\+\(P1 == const:`+q(intl)+`\)$`) {
							r.Cond(!Reaches(stores0Block(stores), b), "C29.byte-order", name+"#internal", ret.Pos(), "internal order is rendered without swapping")
						}
					}
				}
			}
			// ---- (7) var-len data
			if fn := r.MustFn("C29.var-len", bp, "Script.ToVarLenData"); fn != nil {
				ok := false
				for _, p := range SuccessReturns(fn) {
					d := Desc(RetResults(p.Ret)[0])
					ok = d == "append(call:pkg/bitcoin.writeCompactSizeUint(conv:pkg/bitcoin.CompactSizeUint(len(P0)))#0, P0)" || (strings.HasPrefix(d, "append(call:pkg/bitcoin.writeCompactSizeUint(") && strings.Contains(d, "len(P0)") && strings.HasSuffix(d, "#0, P0)"))
					ok = ok && HasFact(p.Facts, okOf(`pkg/bitcoin\.writeCompactSizeUint`))
				}
				r.Cond(ok, "C29.var-len", FnName(fn), fn.Pos(), "compact-size(len(script)) followed by the script")
			}
			if fn := r.MustFn("C29.var-len", bp, "NewScriptFromVarLenData"); fn != nil {
				ok := false
				for _, p := range SuccessReturns(fn) {
					d := Desc(RetResults(p.Ret)[0])
					rd := "call:pkg/bitcoin.readCompactSizeUint(P0)"
					ok = d == "P0["+rd+"#1:]" && HasFact(p.Facts, okOf(`pkg/bitcoin\.readCompactSizeUint`))
					okLen := false
					for _, f := range p.Facts {
						if strings.HasPrefix(f, "+(") && strings.Contains(f, rd+"#0") && strings.Contains(f, rd+"#1") && strings.Contains(f, "len(P0)") && strings.Contains(f, " == ") {
							okLen = true
						}
					}
					ok = ok && okLen
				}
				r.Cond(ok, "C29.var-len", FnName(fn), fn.Pos(), "returns the bytes after the prefix only when prefix length + declared length = total length")
			}
		},
	})
	witness(Witness{Prop: "C29", Name: "sequence-from-outpoint-index", File: "pkg/bitcoin/transaction_builder.go",
		Old: "\t\t\tWitness:         input.Witness,\n\t\t\tSequence:        input.Sequence,\n\t\t}\n\t}\n\n\toutputs :=", New: "\t\t\tWitness:         input.Witness,\n\t\t\tSequence:        input.PreviousOutPoint.Index,\n\t\t}\n\t}\n\n\toutputs :=", Rule: "C29.converters"})
	witness(Witness{Prop: "C29", Name: "txid-over-witness-form", File: "pkg/bitcoin/transaction.go",
		Old: "\treturn ComputeHash(t.Serialize(Standard))", New: "\treturn ComputeHash(t.Serialize(Witness))", Rule: "C29.formats"})
	witness(Witness{Prop: "C29", Name: "header-reader-offset-slip", File: "pkg/bitcoin/block.go",
		Old: "\tbh.Bits = binary.LittleEndian.Uint32(rawBlockHeader[offset:])\n\toffset += 4", New: "\tbh.Bits = binary.LittleEndian.Uint32(rawBlockHeader[offset:])\n\toffset += 0", Rule: "C29.header-layout"})
	witness(Witness{Prop: "C29", Name: "hex-reverses-internal-too", File: "pkg/bitcoin/hash.go",
		Old: "\tcase InternalByteOrder:\n\t\treturn hex.EncodeToString(h[:])\n\tcase ReversedByteOrder:", New: "\tcase InternalByteOrder, ReversedByteOrder:", Rule: "C29.byte-order"})
}

func stores0Block(s []*ssa.Store) *ssa.BasicBlock {
	if len(s) == 0 {
		return nil
	}
	return s[0].Block()
}

// sizeAccum: v is the loop-carried sum varint(len(list)) + Σ elem.SerializeSize()
// over the wire list named `list` (TxIn / TxOut).
func sizeAccum(v ssa.Value, list string) bool {
	phi, ok := v.(*ssa.Phi)
	if !ok || len(phi.Edges) != 2 {
		return false
	}
	okInit, okStep := false, false
	for _, e := range phi.Edges {
		d := Desc(e)
		if strings.HasPrefix(d, "call:github.com/btcsuite/btcd/wire.VarIntSerializeSize(conv:uint64(len(") && strings.Contains(d, "."+list+")") {
			okInit = true
		}
		if bo, isB := e.(*ssa.BinOp); isB && bo.Op == token.ADD && bo.X == ssa.Value(phi) && strings.Contains(Desc(bo.Y), "SerializeSize(") && strings.Contains(Desc(bo.Y), "."+list+"[") {
			okStep = true
		}
	}
	return okInit && okStep
}

type headerEntry struct {
	Field string
	Off   int
	Width int
	Codec string
}

// headerTable extracts (field, offset, width, codec) rows from the block
// header writer (write=true) or reader.
func headerTable(fn *ssa.Function, write bool) ([]headerEntry, bool) {
	var out []headerEntry
	ok := true
	offOf := func(v ssa.Value) (int, int, bool) { // slice value → (low, high or -1)
		sl, isSl := v.(*ssa.Slice)
		if !isSl {
			return 0, 0, false
		}
		lo := 0
		if sl.Low != nil {
			a := Affine(sl.Low)
			if !a.isConst() {
				return 0, 0, false
			}
			lo = int(a.C)
		}
		hi := -1
		if sl.High != nil {
			a := Affine(sl.High)
			if !a.isConst() {
				return 0, 0, false
			}
			hi = int(a.C)
		}
		return lo, hi, true
	}
	fieldOf := func(v ssa.Value) string {
		v = stripConv(v)
		if u, isU := v.(*ssa.UnOp); isU {
			v = u.X
		}
		if sl, isSl := v.(*ssa.Slice); isSl {
			v = sl.X
		}
		if fa, isFA := v.(*ssa.FieldAddr); isFA {
			return fieldName(fa.X.Type(), fa.Field)
		}
		return ""
	}
	arrLen := func(v ssa.Value) int {
		if sl, isSl := v.(*ssa.Slice); isSl {
			if p, isP := sl.X.Type().Underlying().(*types.Pointer); isP {
				if a, isA := p.Elem().Underlying().(*types.Array); isA {
					return int(a.Len())
				}
			}
		}
		return -1
	}
	EachInstr(fn, func(in ssa.Instruction) {
		c, isCall := in.(*ssa.Call)
		if !isCall {
			return
		}
		switch cn := CalleeName(c); {
		case write && cn == "encoding/binary.littleEndian.PutUint32":
			lo, _, k := offOf(c.Call.Args[1])
			f := fieldOf(c.Call.Args[2])
			if !k || f == "" {
				ok = false
				return
			}
			out = append(out, headerEntry{f, lo, 4, "le32"})
		case !write && cn == "encoding/binary.littleEndian.Uint32":
			lo, _, k := offOf(c.Call.Args[1])
			// the field it is stored into
			f := ""
			for _, ref := range *c.Referrers() {
				cur := ref
				if cv, isCv := cur.(*ssa.Convert); isCv && len(*cv.Referrers()) == 1 {
					cur = (*cv.Referrers())[0]
				}
				if st, isSt := cur.(*ssa.Store); isSt {
					if fa, isFA := st.Addr.(*ssa.FieldAddr); isFA {
						f = fieldName(fa.X.Type(), fa.Field)
					}
				}
			}
			if !k || f == "" {
				ok = false
				return
			}
			out = append(out, headerEntry{f, lo, 4, "le32"})
		case cn == "builtin:copy":
			dst, src := c.Call.Args[0], c.Call.Args[1]
			if write {
				lo, _, k := offOf(dst)
				f, n := fieldOf(src), arrLen(src)
				if !k || f == "" || n < 0 {
					ok = false
					return
				}
				out = append(out, headerEntry{f, lo, n, "bytes"})
			} else {
				lo, hi, k := offOf(src)
				f, n := fieldOf(dst), arrLen(dst)
				if !k || f == "" || n < 0 || (hi >= 0 && hi-lo != n) {
					ok = false
					return
				}
				out = append(out, headerEntry{f, lo, n, "bytes"})
			}
		}
	})
	sort.Slice(out, func(i, j int) bool { return out[i].Off < out[j].Off })
	return out, ok
}
