package main

import (
	"fmt"
	"go/token"
	"strings"

	"golang.org/x/tools/go/ssa"
)

// A message handler is any repository function that type-asserts the payload
// of a net.Message. An effect site is a point where something derived from
// the asserted payload leaves the handler: a store into non-local memory, a
// map update, ReceiveToHistory of the carrying net.Message, a channel send
// or a return of a derived value.
type msgEffect struct {
	Fn     *ssa.Function
	Instr  ssa.Instruction
	Kind   string
	Msg    ssa.Value // asserted payload
	Net    ssa.Value // the net.Message
	AssTyp string
}

func payloadAsserts(fn *ssa.Function) []*ssa.TypeAssert {
	var out []*ssa.TypeAssert
	EachInstr(fn, func(in ssa.Instruction) {
		ta, ok := in.(*ssa.TypeAssert)
		if !ok {
			return
		}
		c, ok := ta.X.(*ssa.Call)
		if !ok || CalleeName(c) != "invoke:pkg/net.Message.Payload" {
			return
		}
		out = append(out, ta)
	})
	return out
}

func msgEffects(fn *ssa.Function) []msgEffect {
	var out []msgEffect
	for _, ta := range payloadAsserts(fn) {
		net := ta.X.(*ssa.Call).Call.Value
		var msgs []ssa.Value
		if ta.CommaOk {
			for _, r := range *ta.Referrers() {
				if e, ok := r.(*ssa.Extract); ok && e.Index == 0 {
					msgs = append(msgs, e)
				}
			}
		} else {
			msgs = append(msgs, ta)
		}
		at := typeName(ta.AssertedType)
		for _, msg := range msgs {
			EachInstr(fn, func(in ssa.Instruction) {
				switch x := in.(type) {
				case *ssa.Store:
					if derives(x.Val, msg) && !isLocalTemp(x.Addr) {
						out = append(out, msgEffect{fn, in, "store", msg, net, at})
					}
				case *ssa.MapUpdate:
					if derives(x.Key, msg) || derives(x.Value, msg) {
						out = append(out, msgEffect{fn, in, "mapupdate", msg, net, at})
					}
				case *ssa.Send:
					if derives(x.X, msg) {
						out = append(out, msgEffect{fn, in, "send", msg, net, at})
					}
				case *ssa.Return:
					for _, rv := range x.Results {
						if _, isb := constBool(rv); isb {
							continue
						}
						if derives(rv, msg) {
							out = append(out, msgEffect{fn, in, "return", msg, net, at})
							break
						}
					}
				case *ssa.Call:
					if strings.HasSuffix(CalleeName(x), ".ReceiveToHistory") {
						for _, a := range x.Call.Args {
							if a == net || Desc(a) == Desc(net) {
								// only when this call lies under the assert's success
								out = append(out, msgEffect{fn, in, "history", msg, net, at})
							}
						}
					}
				}
			})
		}
	}
	return out
}

const senderRe = `(?:MSG\.senderID|call:[\w/.*]+\.SenderID\(MSG\)|invoke:[\w/.*]+\.SenderID\(MSG\))`
const membershipRe = `^\+call:pkg/protocol/group\.MembershipValidator\.IsValidMembership\([^,]+, ` + senderRe + `, invoke:pkg/net\.Message\.SenderPublicKey\(NET\)\)$`

func effectFacts(e msgEffect) []string {
	fs := ImpliedFacts(e.Instr.Block(), 2)
	return aliasAll(fs, map[string]string{Desc(e.Msg): "MSG", Desc(e.Net): "NET"})
}

func eitherOrder(a, b string) string {
	return `^\+\((?:` + a + ` == ` + b + `|` + b + ` == ` + a + `)\)$`
}

// admission exemptions: one named function each, with the reason.
var admitExempt = map[string]string{
	"pkg/beacon/entry.SignAndSubmit": "relay entry shares are bound to the claimed index by BLS share verification against that index's public key share (C03.verified-only); relay entry signing is not in C12's list of steps",
	"pkg/protocol/state.ExtractMessagesPayloads": "reads BaseAsyncState history, which only holds messages that passed an admitted ReceiveToHistory (checked at those sites)",
	"cmd.": "cmd/network.go ping diagnostic tool, not a protocol step",
}

func exemptReason(fn *ssa.Function) (string, bool) {
	name := FnName(fn)
	for k, why := range admitExempt {
		if strings.HasPrefix(name, k) {
			return why, true
		}
	}
	return "", false
}

// extra, step-specific facts per package (self / session / operating are in
// the wrapper summaries; these are the facts at the effect site itself).
var sessionFacts = map[string][]string{
	"pkg/beacon/gjkr":          {eitherOrder(`MSG\.sessionID`, `P0\.member[\w.]*\.sessionID`)},
	"pkg/beacon/dkg/result":    {eitherOrder(`MSG\.sessionID`, `P0\.member[\w.]*\.sessionID`)},
	"pkg/tecdsa/dkg":           {eitherOrder(`(?:MSG\.sessionID|invoke:[\w/.*]+\.SessionID\(MSG\))`, `P0\.member[\w.]*\.sessionID`)},
	"pkg/tecdsa/signing":       {eitherOrder(`invoke:[\w/.*]+\.SessionID\(MSG\)`, `P0\.member[\w.]*\.sessionID`)},
	"pkg/protocol/inactivity":  {eitherOrder(`MSG\.sessionID`, `P0\.member[\w.]*\.sessionID`)},
	"pkg/protocol/announcer":   {eitherOrder(`MSG\.sessionID`, `P\d`), eitherOrder(`MSG\.protocolID`, `P0\.protocolID`), `^-\((?:MSG\.senderID == P\d|P\d == MSG\.senderID)\)$`},
	"pkg/tbtc":                 {},
}

func checkAdmission(r *Run, rule string, pkgFilter func(rel string) bool) (sites int) {
	for _, fn := range r.W.AllFuncs {
		rel := fnPkgRel(fn)
		if !pkgFilter(rel) {
			continue
		}
		effs := msgEffects(fn)
		if len(effs) == 0 {
			if len(payloadAsserts(fn)) > 0 {
				if why, ok := exemptReason(fn); ok {
					r.Ok(rule+".exempt", FnName(fn), fn.Pos(), "exempt: "+why)
				} else {
					r.Undecided(rule, FnName(fn), "handler type-asserts a payload but no effect site was recognised; the rule cannot see what it does with the message")
				}
			}
			continue
		}
		if why, ok := exemptReason(fn); ok {
			r.Ok(rule+".exempt", FnName(fn), fn.Pos(), "exempt: "+why)
			continue
		}
		for _, e := range effs {
			facts := effectFacts(e)
			construct := fmt.Sprintf("%s#%s:%s", FnName(fn), e.Kind, e.AssTyp)
			need := []string{membershipRe}
			need = append(need, sessionFacts[rel]...)
			r.Check(rule, construct, e.Instr.Pos(), facts, need...)
			sites++
		}
	}
	return
}

func fnPkgRel(fn *ssa.Function) string {
	for fn.Parent() != nil {
		fn = fn.Parent()
	}
	if fn.Pkg != nil {
		return short(fn.Pkg.Pkg.Path())
	}
	if o := fn.Origin(); o != nil && o.Pkg != nil {
		return short(o.Pkg.Pkg.Path())
	}
	return ""
}

// wrapperSummaries checks every function named shouldAcceptMessage.
func checkAcceptWrappers(r *Run, rule string, pkgFilter func(rel string) bool) {
	for _, fn := range r.W.AllFuncs {
		if fn.Name() != "shouldAcceptMessage" || !pkgFilter(fnPkgRel(fn)) {
			continue
		}
		sum := summaryTrueDeep(fn, 1)
		r.Check(rule, FnName(fn), fn.Pos(), sum,
			`^\+call:pkg/protocol/group\.MembershipValidator\.IsValidMembership\(P0\.\w+, P1, P2\)$`,
			`^-\((?:P0\.\w+ == P1|P1 == P0\.\w+)\)$`,
			`^\+call:pkg/protocol/group\.Group\.IsOperating\(P0\.\w+, P1\)$`)
	}
}

func checkSenderGetters(r *Run, rule string) {
	for _, fn := range r.W.AllFuncs {
		if fn.Name() != "SenderID" || fn.Signature.Recv() == nil || fn.Synthetic != "" || len(fn.Params) != 1 {
			continue
		}
		ok := true
		n := 0
		for _, b := range fn.Blocks {
			if ret, isr := b.Instrs[len(b.Instrs)-1].(*ssa.Return); isr {
				n++
				if len(ret.Results) != 1 || !re(`^P0\.(senderID|senderIndex)$`).MatchString(Desc(ret.Results[0])) {
					ok = false
				}
			}
		}
		r.Cond(ok && n == 1, rule, FnName(fn), fn.Pos(), "SenderID() must return the message's own senderID field")
	}
}

func init() {
	register(&Prop{
		ID: "C12",
		Explanation: "Static rule over every message handler in the module (any function that type-asserts net.Message.Payload()): " +
			"each point where payload-derived data leaves the handler (field store, map update, ReceiveToHistory, send, return) is dominated by " +
			"IsValidMembership(<that payload's senderID>, <that net.Message's SenderPublicKey()>) = true, directly or through a bool wrapper whose computed summary implies it; " +
			"plus the step's session/self facts, every shouldAcceptMessage wrapper implies membership ∧ not-self ∧ IsOperating, every SenderID() getter returns the senderID field, " +
			"and IsValidMembership returns true only under a position equality derived from the claimed index and the positions looked up by the sender key's address.",
		NotDecided: "that the operators list given to the validator matches the chain; the group-size ≤ 255 assumption behind int(memberID-1); liveness (that valid messages are accepted).",
		Whole:      false,
		Fn: func(r *Run) {
			r.Rule("C12.admit", "effect sites of payload-derived data are dominated by IsValidMembership(payload.senderID, msg.SenderPublicKey()) and the step's session facts", 31)
			r.Rule("C12.admit.exempt", "named exemptions (one symbol each, reason recorded)", 0)
			r.Rule("C12.wrapper", "shouldAcceptMessage ⇒ IsValidMembership(P1,P2) ∧ P1≠self ∧ IsOperating(P1)", 6)
			r.Rule("C12.getter", "SenderID() returns the senderID field", 20)
			r.Rule("C12.validator", "IsValidMembership returns true only under index==position for a position of the key's address", 1)
			checkAdmission(r, "C12.admit", func(string) bool { return true })
			checkAcceptWrappers(r, "C12.wrapper", func(string) bool { return true })
			checkSenderGetters(r, "C12.getter")
			if fn := r.MustFn("C12.validator", "pkg/protocol/group", "MembershipValidator.IsValidMembership"); fn != nil {
				sum := SummaryTrue(fn)
				r.Check("C12.validator", FnName(fn), fn.Pos(), sum,
					`^\+P0\.members\[call:[\w/.*]+String\(invoke:pkg/chain\.Signing\.PublicKeyBytesToAddress\(P0\.signing, P2\)\)\]#1$`,
					`^\+\(P0\.members\[[^\]]*PublicKeyBytesToAddress\(P0\.signing, P2\)[^\]]*\]#0\[.*\] == conv:int\(\(P1 - const:1\)\)\)$`)
			}
		},
	})
}

var _ = token.NoPos
