package main

import (
	"fmt"
	"go/types"
	"sort"
	"strings"

	"golang.org/x/tools/go/ssa"
)

const gjkrRel = "pkg/beacon/gjkr"
const groupPfx = "pkg/protocol/group.Group."

var groupMutators = map[string]bool{groupPfx + "MarkMemberAsDisqualified": true, groupPfx + "MarkMemberAsInactive": true}

// live reads of the group's member status (anything that changes when a
// member is marked inactive or disqualified)
var groupLiveReads = map[string]bool{
	groupPfx + "IsOperating": true, groupPfx + "OperatingMemberIndexes": true,
	groupPfx + "DisqualifiedMemberIndexes": true, groupPfx + "InactiveMemberIndexes": true,
	groupPfx + "isInactive": true, groupPfx + "isDisqualified": true,
}

func gjkrFuncs(w *World) []*ssa.Function {
	var out []*ssa.Function
	for _, f := range w.AllFuncs {
		if fnPkgRel(f) == gjkrRel {
			out = append(out, f)
		}
	}
	return out
}

// closureOfCalls: functions (gjkr and protocol/group) reachable from the calls
// in the given blocks, through static calls and closures defined there.
func closureOfCalls(blocks map[*ssa.BasicBlock]bool, depth int) map[*ssa.Function]bool {
	seen := map[*ssa.Function]bool{}
	var visit func(f *ssa.Function, d int)
	visit = func(f *ssa.Function, d int) {
		if f == nil || f.Blocks == nil || seen[f] || d == 0 {
			return
		}
		rel := fnPkgRel(f)
		if rel != gjkrRel && rel != "pkg/protocol/group" {
			return
		}
		seen[f] = true
		if groupMutators[FnName(f)] {
			return // the idempotence test inside MarkMemberAs* is not a verdict input
		}
		EachInstr(f, func(in ssa.Instruction) {
			if c, ok := in.(ssa.CallInstruction); ok {
				visit(staticCallee(c), d-1)
			}
			if mc, ok := in.(*ssa.MakeClosure); ok {
				visit(mc.Fn.(*ssa.Function), d-1)
			}
		})
	}
	for b := range blocks {
		for _, in := range b.Instrs {
			if c, ok := in.(ssa.CallInstruction); ok {
				visit(staticCallee(c), depth)
			}
		}
	}
	return seen
}

type callIn struct {
	Call ssa.CallInstruction
	Via  *ssa.Function // nil when directly in the loop body
}

// callsIn: calls matching names, directly in the blocks or in the reachable closure.
func callsIn(blocks map[*ssa.BasicBlock]bool, reach map[*ssa.Function]bool, names map[string]bool, skipInside map[string]bool) []callIn {
	var out []callIn
	for b := range blocks {
		for _, in := range b.Instrs {
			if c, ok := in.(ssa.CallInstruction); ok && names[CalleeName(c)] {
				out = append(out, callIn{c, nil})
			}
		}
	}
	for f := range reach {
		if skipInside[FnName(f)] {
			continue
		}
		EachInstr(f, func(in ssa.Instruction) {
			if c, ok := in.(ssa.CallInstruction); ok && names[CalleeName(c)] {
				out = append(out, callIn{c, f})
			}
		})
	}
	sort.Slice(out, func(i, j int) bool { return out[i].Call.Pos() < out[j].Call.Pos() })
	return out
}

// messageSliceParam: parameter of type []*XMessage.
func messageSliceParams(fn *ssa.Function) []*ssa.Parameter {
	var out []*ssa.Parameter
	for _, p := range fn.Params {
		if s, ok := p.Type().Underlying().(*types.Slice); ok {
			if pt, ok := s.Elem().Underlying().(*types.Pointer); ok {
				if n, ok := pt.Elem().(*types.Named); ok && strings.HasSuffix(n.Obj().Name(), "Message") {
					out = append(out, p)
				}
			}
		}
	}
	return out
}

// judgingMethods: gjkr methods that take message slices and can disqualify.
func judgingMethods(w *World) []*ssa.Function {
	var out []*ssa.Function
	for _, f := range gjkrFuncs(w) {
		if f.Parent() != nil || f.Signature.Recv() == nil || len(messageSliceParams(f)) == 0 {
			continue
		}
		all := map[*ssa.BasicBlock]bool{}
		for _, b := range f.Blocks {
			all[b] = true
		}
		reach := closureOfCalls(all, 4)
		if len(callsIn(all, reach, groupMutators, nil)) > 0 {
			out = append(out, f)
		}
	}
	sort.Slice(out, func(i, j int) bool { return out[i].Pos() < out[j].Pos() })
	return out
}

// messageLoops: outermost loops of fn that range over a slice derived from a
// message-slice parameter (directly or through deduplicateBySender).
func messageLoops(fn *ssa.Function) []*Loop {
	params := messageSliceParams(fn)
	var out []*Loop
	for _, l := range Loops(fn) {
		src := loopSource(l.Header)
		if src == nil {
			continue
		}
		ok := false
		for _, p := range params {
			if derives(src, p) {
				ok = true
			}
		}
		if !ok {
			continue
		}
		// outermost among message loops
		nested := false
		for _, o := range out {
			if o.Blocks[l.Header] {
				nested = true
			}
		}
		if !nested {
			out = append(out, l)
		}
	}
	// drop loops nested in a later-found outer loop
	var res []*Loop
	for _, l := range out {
		inner := false
		for _, o := range out {
			if o != l && o.Blocks[l.Header] {
				inner = true
			}
		}
		if !inner {
			res = append(res, l)
		}
	}
	return res
}

// locallyFilteredMaps: member-struct map fields whose store is guarded by a
// check that takes this member's own ID — "this sender passed MY validation",
// which differs between honest members. Returns field name → filling function.
func locallyFilteredMaps(w *World) map[string]*ssa.Function {
	out := map[string]*ssa.Function{}
	for _, f := range gjkrFuncs(w) {
		EachInstr(f, func(in ssa.Instruction) {
			mu, ok := in.(*ssa.MapUpdate)
			if !ok {
				return
			}
			ld, ok := mu.Map.(*ssa.UnOp)
			if !ok {
				return
			}
			fa, ok := ld.X.(*ssa.FieldAddr)
			if !ok {
				return
			}
			field := fieldName(fa.X.Type().Underlying().(*types.Pointer).Elem(), fa.Field)
			for _, g := range Guards(in.Block()) {
				c, ok := g.Cond.(*ssa.Call)
				if !ok || !g.Pol {
					continue
				}
				for _, a := range c.Call.Args {
					if re(`^P0(\.\w+)*\.ID$`).MatchString(Desc(a)) {
						out[field] = f
					}
				}
			}
		})
	}
	return out
}

func fieldOfLookup(v ssa.Value) string {
	ld, ok := v.(*ssa.UnOp)
	if !ok {
		return ""
	}
	fa, ok := ld.X.(*ssa.FieldAddr)
	if !ok {
		return ""
	}
	return fieldName(fa.X.Type().Underlying().(*types.Pointer).Elem(), fa.Field)
}

func init() {
	register(&Prop{
		ID:        "C01",
		Technique: "static analysis: admission guard facts, must-precede ordering, order-independence of verdict loops (no live group-status read reachable from a loop that can disqualify), provenance of third-party verdict inputs (go/ssa, call-closure over pkg/beacon/gjkr and pkg/protocol/group)",
		Explanation: "pkg/beacon/gjkr: (1) every point where data of a received message is kept is dominated by shouldAcceptMessage(senderID, sender key) = true and by the session check, and shouldAcceptMessage implies valid membership ∧ not self ∧ still operating; (2) in every state's Initiate that judges messages, MarkInactiveMembers(previous phase messages) executes before the judging call; " +
			"(3) order independence: honest members receive the messages of different senders in different orders, so inside a loop over messages that can reach MarkMemberAsDisqualified/Inactive, nothing reachable from the loop body may read the live member status of the group (IsOperating, OperatingMemberIndexes, the IA/DQ lists) — a verdict must be a function of the per-sender broadcast history, not of verdicts reached earlier in the same loop; the idempotence test inside MarkMemberAs* itself is exempt, and no member map mutated in such a loop is also read there; " +
			"(4) a verdict about a third party (the accused in the two accusation-resolution methods) reads only state that all honest members hold identically: maps whose store is guarded by a check that takes this member's own ID ('passed MY validation') must not be looked up for the accused.",
		NotDecided: "that the verdict formulae (share/commitment algebra) are right; agreement under faults in general; equal treatment of duplicate messages of one sender (first wins is a design choice under the property's consistent-broadcast assumption).",
		Fn: func(r *Run) {
			r.Rule("C01.admit", "kept message data ⇐ shouldAcceptMessage ∧ same session", 7)
			r.Rule("C01.admit.exempt", "named exemptions", 0)
			r.Rule("C01.wrapper", "shouldAcceptMessage ⇒ membership ∧ not self ∧ operating", 1)
			r.Rule("C01.inactive-first", "MarkInactiveMembers precedes the judging call in Initiate", 6)
			r.Rule("C01.order-independent", "no live group-status read reachable from a message loop that can disqualify", 6)
			r.Rule("C01.broadcast-inputs", "third-party verdicts read no locally filtered map", 2)
			checkAdmission(r, "C01.admit", func(rel string) bool { return rel == gjkrRel })
			checkAcceptWrappers(r, "C01.wrapper", func(rel string) bool { return rel == gjkrRel })

			judges := judgingMethods(r.W)
			isJudge := map[*ssa.Function]bool{}
			for _, j := range judges {
				isJudge[j] = true
			}
			// (2)
			for _, f := range gjkrFuncs(r.W) {
				if f.Name() != "Initiate" || f.Parent() != nil {
					continue
				}
				EachInstr(f, func(in ssa.Instruction) {
					c, ok := in.(ssa.CallInstruction)
					if !ok {
						return
					}
					callee := staticCallee(c)
					if callee == nil || !isJudge[callee] || strings.HasSuffix(callee.Name(), "MarkInactiveMembers") {
						return
					}
					marks := Sites(f, `\.MarkInactiveMembers$`, false)
					ok2 := false
					for _, m := range marks {
						if !InstrBefore(m.(ssa.Instruction), in) {
							continue
						}
						// the same message lists are handed to both
						same := true
						for _, a := range c.Common().Args[1:] {
							if _, isSl := a.Type().Underlying().(*types.Slice); !isSl {
								continue
							}
							found := false
							for _, ma := range m.Common().Args[1:] {
								if Desc(ma) == Desc(a) || derives(ma, a) {
									found = true
								}
							}
							if !found {
								same = false
							}
						}
						if same {
							ok2 = true
						}
					}
					r.Cond(ok2, "C01.inactive-first", FnName(f)+"#"+callee.Name(), in.Pos(), "senders that stayed silent are marked inactive (from the same message lists) before "+callee.Name()+" judges the messages")
				})
			}
			// (3)
			exemptInside := map[string]bool{groupPfx + "MarkMemberAsDisqualified": true, groupPfx + "MarkMemberAsInactive": true}
			for _, j := range judges {
				if strings.HasSuffix(j.Name(), "MarkInactiveMembers") {
					continue
				}
				fns := []*ssa.Function{j}
				// helper judges called from j with the message list are analysed on their own (they are judges too)
				for _, fn := range fns {
					for _, l := range messageLoops(fn) {
						reach := closureOfCalls(l.Blocks, 5)
						for f := range reach {
							if exemptInside[FnName(f)] {
								delete(reach, f)
							}
						}
						construct := fmt.Sprintf("%s#loop@%s", FnName(fn), abbr(Desc(loopSource(l.Header)), 1))
						pos := fn.Pos()
						for _, in := range l.Header.Instrs {
							if in.Pos().IsValid() {
								pos = in.Pos()
								break
							}
						}
						muts := callsIn(l.Blocks, reach, groupMutators, nil)
						if len(muts) == 0 {
							r.Ok("C01.order-independent", construct, pos, "the loop cannot change member status")
							continue
						}
						reads := callsIn(l.Blocks, reach, groupLiveReads, map[string]bool{groupPfx + "MarkMemberAsDisqualified": true, groupPfx + "MarkMemberAsInactive": true})
						var top []callIn
						for _, rd := range reads {
							if rd.Via == nil || fnPkgRel(rd.Via) == gjkrRel {
								top = append(top, rd) // report the read where gjkr code makes it, not its internals
							}
						}
						reads = top
						if len(reads) == 0 {
							r.Ok("C01.order-independent", construct, pos, fmt.Sprintf("%d status change(s) reachable, no live status read", len(muts)))
						}
						for _, rd := range reads {
							via := "in the loop body"
							if rd.Via != nil {
								via = "in " + FnName(rd.Via)
							}
							r.Fail("C01.order-independent", construct+"/"+shortCallee(rd.Call), rd.Call.Pos(),
								"the loop over messages of different senders can disqualify members and also reads the live member status ("+shortCallee(rd.Call)+" "+via+
									"): the verdict for one sender depends on which other senders were judged first, and that order differs between honest members",
								[]string{"snapshot the status before the loop"}, nil)
						}
						// maps both mutated and read in the loop closure
						written, read := map[string]bool{}, map[string]ssa.Instruction{}
						scan := func(in ssa.Instruction) {
							switch x := in.(type) {
							case *ssa.MapUpdate:
								if f := fieldOfLookup(x.Map); f != "" {
									written[f] = true
								}
							case *ssa.Call:
								if b, ok := x.Call.Value.(*ssa.Builtin); ok && b.Name() == "delete" {
									if f := fieldOfLookup(x.Call.Args[0]); f != "" {
										written[f] = true
									}
								}
							case *ssa.Lookup:
								if f := fieldOfLookup(x.X); f != "" {
									read[f] = in
								}
							case *ssa.Range:
								if f := fieldOfLookup(x.X); f != "" {
									read[f] = in
								}
							}
						}
						for b := range l.Blocks {
							for _, in := range b.Instrs {
								scan(in)
							}
						}
						for f := range reach {
							EachInstr(f, scan)
						}
						for f, in := range read {
							if written[f] {
								r.Fail("C01.order-independent", construct+"/map:"+f, in.Pos(), "member map "+f+" is both mutated and read inside the verdict loop: the outcome depends on message order", nil, nil)
							}
						}
					}
				}
			}
			// (4)
			local := locallyFilteredMaps(r.W)
			var names []string
			for k := range local {
				names = append(names, k)
			}
			sort.Strings(names)
			if r.Extra == nil {
				r.Extra = map[string]interface{}{}
			}
			r.Extra["locally_filtered_maps"] = names
			for _, j := range judges {
				n := 0
				EachInstr(j, func(in ssa.Instruction) {
					lk, ok := in.(*ssa.Lookup)
					if !ok {
						return
					}
					f := fieldOfLookup(lk.X)
					if f == "" {
						return
					}
					key := Desc(lk.Index)
					if !strings.Contains(key, "accusedMembersKeys") {
						return // keyed by the message's own sender: a verdict about the sender itself
					}
					n++
					construct := FnName(j) + "#" + f + "[accused]"
					if filler, isLocal := local[f]; isLocal {
						r.Fail("C01.broadcast-inputs", construct, in.Pos(),
							"the verdict about the accused/accuser pair reads "+f+", which "+FnName(filler)+" fills only for senders that passed THIS member's own check; members that accused the same party themselves hold no entry and reach a different verdict about a second accuser",
							nil, nil)
					} else {
						r.Ok("C01.broadcast-inputs", construct, in.Pos(), f+" is stored for every well-formed sender (no self-relative guard)")
					}
				})
				_ = n
			}
		},
	})

	register(&Prop{
		ID:        "C02",
		Technique: "static analysis: sibling/pairing rule between a phase that fills locally validated maps and the accusation-resolution method that follows it (every disqualification of an accused is followed by a purge, direct or deferred), provenance of the Lagrange index set (go/ssa)",
		Explanation: "pkg/beacon/gjkr: the maps that record 'member m passed MY validation' (discovered by dataflow: map fields of the member structs whose store is guarded by a check taking this member's own ID — receivedQualifiedSharesS/T in phase 4, receivedValidPeerPublicKeySharePoints in phase 8) decide which shares enter x_i, whose key is reconstructed and which points enter the group key. " +
			"For each such map, the accusation-resolution method that consumes the accusations produced by the filling phase must, on every path that disqualifies the accused, remove the accused from the map — directly after the mark, through a helper that deletes its argument, or deferred (the accused is collected and deleted in a loop that runs on every exit of the method). If the method purges accusers anywhere, it purges them at every accuser disqualification (sibling consistency). " +
			"reconstructIndividualPrivateKeys passes to calculateLagrangeCoefficient exactly the key set of the share map it sums over.",
		NotDecided: "the interpolation arithmetic and the x_i·G2 = share equalities; that the purged maps are not repopulated later (no such store exists today: checked by the who-writes listing in the evidence).",
		Fn: func(r *Run) {
			r.Rule("C02.qual-purge", "a disqualified accused is purged from the locally validated maps of the preceding phase", 4)
			r.Rule("C02.lagrange-domain", "Lagrange coefficients are computed over the key set of the summed share map", 1)
			local := locallyFilteredMaps(r.W)
			// filler → maps
			byFiller := map[*ssa.Function][]string{}
			for f, fn := range local {
				byFiller[fn] = append(byFiller[fn], f)
			}
			if len(byFiller) < 2 {
				r.Undecided("C02.qual-purge", "fillers", fmt.Sprintf("expected two filling phases, found %d", len(byFiller)))
			}
			for filler, maps := range byFiller {
				sort.Strings(maps)
				// the accusations message type returned by the filler
				if filler.Signature.Results().Len() == 0 {
					continue
				}
				accType := filler.Signature.Results().At(0).Type()
				var resolver *ssa.Function
				for _, j := range judgingMethods(r.W) {
					rangesAccused := false
					EachInstr(j, func(in ssa.Instruction) {
						if rg, ok := in.(*ssa.Range); ok && strings.Contains(Desc(rg.X), "accusedMembersKeys") {
							rangesAccused = true
						}
					})
					if !rangesAccused {
						continue
					}
					for _, p := range messageSliceParams(j) {
						if types.Identical(p.Type().Underlying().(*types.Slice).Elem(), accType) {
							resolver = j
						}
					}
				}
				if resolver == nil {
					r.Undecided("C02.qual-purge", FnName(filler), "no resolution method consumes the accusations of this phase")
					continue
				}
				checkPurge(r, resolver, maps)
			}
			// QUAL-indexed sums: the locally validated maps are the only membership
			// criterion. A sum that additionally consults the live member status drops
			// the contribution of a QUAL member that misbehaved later — exactly the
			// members whose key is reconstructed and added by everybody else.
			r.Rule("C02.qual-sum", "sums over the QUAL maps are unconditional and read no live member status", 3)
			for _, n := range []string{"QualifiedMember.CombineMemberShares", "CombiningMember.CombineGroupPublicKey", "SharingMember.receivedValidPeerIndividualPublicKeys", "CombiningMember.ComputeGroupPublicKeyShares"} {
				fn := r.MustFn("C02.qual-sum", gjkrRel, n)
				if fn == nil {
					continue
				}
				for _, f := range WithClosures(fn) {
					for _, l := range Loops(f) {
						// loops ranging over a member map
						var rg *ssa.Range
						for _, in := range l.Header.Instrs {
							if nx, ok := in.(*ssa.Next); ok {
								rg, _ = nx.Iter.(*ssa.Range)
							}
						}
						if rg == nil || fieldOfLookup(rg.X) == "" {
							continue
						}
						field := fieldOfLookup(rg.X)
						reach := closureOfCalls(l.Blocks, 4)
						reads := callsIn(l.Blocks, reach, groupLiveReads, nil)
						construct := FnName(f) + "#sum-over/" + field
						if len(reads) > 0 {
							r.Fail("C02.qual-sum", construct, reads[0].Call.Pos(), "the sum over "+field+" consults the live member status ("+shortCallee(reads[0].Call)+"): a QUAL member disqualified later is left out here although its reconstructed key is added to the group key", nil, nil)
							continue
						}
						// unconditional accumulation for the plain sums (the key-share computation legitimately branches on the points lookup)
						if !strings.HasSuffix(n, "ComputeGroupPublicKeyShares") {
							cond := false
							for b := range l.Blocks {
								if _, isIf := b.Instrs[len(b.Instrs)-1].(*ssa.If); isIf && b != l.Header {
									cond = true
								}
							}
							if cond {
								r.Fail("C02.qual-sum", construct, rg.Pos(), "an element of "+field+" can be skipped by a condition inside the summing loop", nil, nil)
								continue
							}
						}
						r.Ok("C02.qual-sum", construct, rg.Pos(), "every entry of "+field+" contributes")
					}
				}
			}
			// no loop-carried machine-integer products in the key arithmetic: member
			// ids are small but products over a group overflow int64 from ~21 factors
			// QUAL is frozen after its resolution phase: the locally validated maps are
			// written only by the phase that fills them and by the resolution method
			// of the following phase (and helpers only it calls). A later deletion
			// silently removes a member from sums that everybody else still makes.
			r.Rule("C02.qual-frozen", "QUAL maps are written only by their filling phase and the following resolution", 3)
			for filler, maps := range byFiller {
				if filler.Signature.Results().Len() == 0 {
					continue
				}
				accType := filler.Signature.Results().At(0).Type()
				var resolver *ssa.Function
				for _, j := range judgingMethods(r.W) {
					for _, p := range messageSliceParams(j) {
						if types.Identical(p.Type().Underlying().(*types.Slice).Elem(), accType) && !strings.HasSuffix(j.Name(), "MarkInactiveMembers") {
							resolver = j
						}
					}
				}
				for _, field := range maps {
					for _, f := range gjkrFuncs(r.W) {
						writes := false
						EachInstr(f, func(in ssa.Instruction) {
							switch x := in.(type) {
							case *ssa.MapUpdate:
								if fieldOfLookup(x.Map) == field {
									writes = true
								}
							case *ssa.Call:
								if b, ok := x.Call.Value.(*ssa.Builtin); ok && b.Name() == "delete" {
									d := Desc(x.Call.Args[0])
									if fieldOfLookup(x.Call.Args[0]) == field || strings.HasSuffix(d, "."+field) {
										writes = true
									}
								}
							}
						})
						if !writes {
							continue
						}
						top := f
						for top.Parent() != nil {
							top = top.Parent()
						}
						ok := top == filler || top == resolver
						why := "filling phase / resolution method"
						if !ok && resolver != nil {
							// helper called only from the resolver
							sites := r.W.Callers(top)
							ok = len(sites) > 0
							for _, s := range sites {
								st := s.Parent()
								for st.Parent() != nil {
									st = st.Parent()
								}
								if st != resolver {
									ok = false
									why = "also called from " + FnName(st)
								}
							}
							if ok {
								why = "helper called only from " + FnName(resolver)
							}
						}
						// initialisation of the map itself (constructor / phase initialiser) is not a membership change
						if !ok && strings.HasPrefix(top.Name(), "Initialize") {
							ok, why = true, "phase initialiser"
						}
						r.Cond(ok, "C02.qual-frozen", FnName(f)+"#writes/"+field, f.Pos(), field+" may change only in "+FnName(filler)+" and the resolution that follows it; "+why)
					}
				}
			}
			r.Rule("C02.bigint-arith", "no loop-carried machine-integer product in the GJKR arithmetic (big.Int only)", 5)
			for _, f := range gjkrFuncs(r.W) {
				usesBig := len(CallsMatching(f, `^math/big\.`)) > 0
				if !usesBig {
					continue
				}
				for _, l := range Loops(f) {
					bad := ""
					for _, in := range l.Header.Instrs {
						phi, ok := in.(*ssa.Phi)
						if !ok || !isIntType(phi.Type()) {
							continue
						}
						for i, e := range phi.Edges {
							if !l.Blocks[l.Header.Preds[i]] {
								continue
							}
							if bo, ok := stripConv(e).(*ssa.BinOp); ok && (bo.Op.String() == "*" || bo.Op.String() == "<<") && (dependsOn(bo.X, phi, nil) || dependsOn(bo.Y, phi, nil)) {
								bad = phi.Comment
							}
						}
					}
					construct := fmt.Sprintf("%s#loop@block%d", FnName(f), l.Header.Index)
					r.Cond(bad == "", "C02.bigint-arith", construct, l.Header.Instrs[0].Pos(), "machine-integer product carried around the loop: "+bad+" (overflows silently for larger groups; every member computes the same wrong value, so agreement hides it)")
				}
			}
			if fn := r.MustFn("C02.lagrange-domain", gjkrRel, "ReconstructingMember.reconstructIndividualPrivateKeys"); fn != nil {
				n := 0
				for _, c := range Sites(fn, `calculateLagrangeCoefficient$`, false) {
					n++
					ids := c.Common().Args[2]
					// ids must be an accumulation appended with the range key of the same map that is summed
					accs := Accumulations(fn)
					acc := accumOf(accs, ids)
					ok := false
					why := "index set is not built by ranging over the share map"
					if acc != nil {
						for _, ap := range acc.Appends {
							if sl, isSl := ap.Call.Args[1].(*ssa.Slice); isSl {
								if va, isA := sl.X.(*ssa.Alloc); isA {
									for _, ref := range *va.Referrers() {
										if ia, isIA := ref.(*ssa.IndexAddr); isIA {
											for _, r2 := range *ia.Referrers() {
												if st, isSt := r2.(*ssa.Store); isSt {
													d := Desc(st.Val)
													// summed map: the Lookup/Range used for the share value at the call
													if m := re(`^next\(range\((.*)\)\)#1$`).FindStringSubmatch(d); m != nil {
														// the share multiplied with this coefficient comes from the same map
														for _, g := range []string{m[1]} {
															if strings.Contains(descOfBlockUses(c), g) {
																ok = true
															}
															why = "ids are the keys of " + abbr(g, 1)
														}
													}
												}
											}
										}
									}
								}
							}
						}
					}
					r.Cond(ok, "C02.lagrange-domain", FnName(fn)+"#calculateLagrangeCoefficient", c.Pos(), why)
				}
				if n == 0 {
					r.Undecided("C02.lagrange-domain", FnName(fn), "no calculateLagrangeCoefficient call")
				}
			}
		},
	})
}

func init() {
	witness(Witness{Prop: "C01", Name: "phase4-live-operating-list", File: "pkg/beacon/gjkr/protocol.go",
		Old: "for _, memberID := range expectedShareReceivers {", New: "for _, memberID := range cvm.group.OperatingMemberIndexes() {",
		Rule: "C01.order-independent", Within: "VerifyReceivedSharesAndCommitmentsMessages"})
	witness(Witness{Prop: "C01", Name: "judge-before-marking-inactive", File: "pkg/beacon/gjkr/states.go",
		Old: "\tpvs.member.MarkInactiveMembers(pvs.previousPhaseMessages)\n\taccusationMsg, err := pvs.member.VerifyPublicKeySharePoints(\n\t\tpvs.previousPhaseMessages,\n\t)",
		New: "\taccusationMsg, err := pvs.member.VerifyPublicKeySharePoints(\n\t\tpvs.previousPhaseMessages,\n\t)\n\tpvs.member.MarkInactiveMembers(pvs.previousPhaseMessages)",
		Rule: "C01.inactive-first"})
	witness(Witness{Prop: "C01", Name: "accept-without-session-check", File: "pkg/beacon/gjkr/message_filter.go",
		Old: "\treturn !isMessageFromSelf && isSenderValid && isSenderAccepted", New: "\treturn !isMessageFromSelf && (isSenderValid || isSenderAccepted)", Rule: "C01.admit"})
	witness(Witness{Prop: "C02", Name: "phase9-no-purge", File: "pkg/beacon/gjkr/protocol.go",
		Old: "\t\t\tdelete(pjm.receivedValidPeerPublicKeySharePoints, accusedID)", New: "\t\t\t_ = accusedID",
		Rule: "C02.qual-purge"})
	witness(Witness{Prop: "C02", Name: "phase5-accused-not-discarded", File: "pkg/beacon/gjkr/protocol.go",
		Old: "\t\t\t\tsjm.group.MarkMemberAsDisqualified(accusedID)\n\t\t\t\tsjm.discardReceivedShares(accusedID)\n\t\t\t\tcontinue",
		New: "\t\t\t\tsjm.group.MarkMemberAsDisqualified(accusedID)\n\t\t\t\tcontinue",
		Rule: "C02.qual-purge"})
}

// descOfBlockUses concatenates the descriptions of map ranges/lookups in the
// block of the call and its loop header chain (cheap context for "same map").
func descOfBlockUses(c ssa.CallInstruction) string {
	var sb strings.Builder
	fn := c.Parent()
	EachInstr(fn, func(in ssa.Instruction) {
		switch x := in.(type) {
		case *ssa.Range:
			if dominates(in.Block(), c.Block()) {
				sb.WriteString(Desc(x.X) + ";")
			}
		}
	})
	return sb.String()
}

// checkPurge: in resolver, every MarkMemberAsDisqualified(v) with v the accused
// (inner range key over accusedMembersKeys) is followed by a purge of v from
// each map; accuser purges are checked for sibling consistency.
func checkPurge(r *Run, resolver *ssa.Function, maps []string) {
	type mark struct {
		call ssa.CallInstruction
		who  string // accused | accuser | other
	}
	var marks []mark
	for _, c := range CallsMatching(resolver, `^`+q(groupPfx+"MarkMemberAsDisqualified")+`$`) {
		d := Desc(c.Common().Args[1])
		who := "other"
		switch {
		case strings.Contains(d, "accusedMembersKeys"):
			who = "accused"
		case strings.HasSuffix(d, ".senderID"):
			who = "accuser"
		}
		marks = append(marks, mark{c, who})
	}
	// deferred purge: collections that are ranged over with delete(map, elem) in a
	// deferred closure or in a block that post-dominates all returns
	deferredFor := map[string]map[ssa.Value]bool{} // map field → accumulation values whose elements get deleted
	var scanDeferred func(f *ssa.Function, bind func(ssa.Value) ssa.Value)
	scanDeferred = func(f *ssa.Function, bind func(ssa.Value) ssa.Value) {
		EachInstr(f, func(in ssa.Instruction) {
			c, ok := in.(*ssa.Call)
			if !ok {
				return
			}
			b, ok := c.Call.Value.(*ssa.Builtin)
			if !ok || b.Name() != "delete" {
				return
			}
			field := fieldOfLookup(c.Call.Args[0])
			if field == "" {
				// through a captured receiver: up(P0).field
				if m := re(`\.(\w+)$`).FindStringSubmatch(Desc(c.Call.Args[0])); m != nil {
					field = m[1]
				}
			}
			// key is an element of a ranged slice
			key := c.Call.Args[1]
			if ld, ok := key.(*ssa.UnOp); ok {
				if ia, ok := ld.X.(*ssa.IndexAddr); ok {
					src := bind(ia.X)
					if deferredFor[field] == nil {
						deferredFor[field] = map[ssa.Value]bool{}
					}
					deferredFor[field][src] = true
				}
			}
		})
	}
	EachInstr(resolver, func(in ssa.Instruction) {
		if d, ok := in.(*ssa.Defer); ok {
			if mc, ok := d.Call.Value.(*ssa.MakeClosure); ok {
				cl := mc.Fn.(*ssa.Function)
				scanDeferred(cl, func(v ssa.Value) ssa.Value {
					// load of a free variable → the captured alloc in the resolver
					if ld, ok := v.(*ssa.UnOp); ok {
						if fv, ok := ld.X.(*ssa.FreeVar); ok {
							if b := freeVarBinding(fv); b != nil {
								return b
							}
						}
					}
					return v
				})
			}
		}
	})
	purgedAfter := func(c ssa.CallInstruction, field string) (bool, string) {
		v := c.Common().Args[1]
		blk := c.Block()
		after := false
		for _, in := range blk.Instrs {
			if in == c.(ssa.Instruction) {
				after = true
				continue
			}
			if !after {
				continue
			}
			call, ok := in.(*ssa.Call)
			if !ok {
				continue
			}
			// direct delete
			if b, ok := call.Call.Value.(*ssa.Builtin); ok && b.Name() == "delete" {
				if fieldOfLookup(call.Call.Args[0]) == field && Desc(call.Call.Args[1]) == Desc(v) {
					return true, "deleted right after the mark"
				}
			}
			// helper that deletes its parameter from the field
			if callee := staticCallee(call); callee != nil && callee.Blocks != nil {
				for ai, a := range call.Call.Args {
					if Desc(a) != Desc(v) || ai >= len(callee.Params) {
						continue
					}
					ok2 := false
					EachInstr(callee, func(i2 ssa.Instruction) {
						if dc, ok := i2.(*ssa.Call); ok {
							if b, ok := dc.Call.Value.(*ssa.Builtin); ok && b.Name() == "delete" {
								if fieldOfLookup(dc.Call.Args[0]) == field && dc.Call.Args[1] == ssa.Value(callee.Params[ai]) {
									ok2 = true
								}
							}
						}
					})
					if ok2 {
						return true, "purged by " + FnName(callee)
					}
				}
			}
			// deferred: appended to a collection whose elements are deleted on exit
			if st, ok := in.(*ssa.Store); ok {
				_ = st
			}
		}
		// deferred form: v is appended (in this block) to an alloc-backed slice that the deferred closure ranges over
		for _, in := range blk.Instrs {
			ap := isAppendInstr(in)
			if ap == nil {
				continue
			}
			appendsV := false
			if sl, ok := ap.Call.Args[1].(*ssa.Slice); ok {
				if va, ok := sl.X.(*ssa.Alloc); ok {
					for _, ref := range *va.Referrers() {
						if ia, ok := ref.(*ssa.IndexAddr); ok {
							for _, r2 := range *ia.Referrers() {
								if st, ok := r2.(*ssa.Store); ok && Desc(st.Val) == Desc(v) {
									appendsV = true
								}
							}
						}
					}
				}
			}
			if !appendsV {
				continue
			}
			// where is the append result stored?
			for _, ref := range *ap.Referrers() {
				if st, ok := ref.(*ssa.Store); ok {
					if deferredFor[field][st.Addr] {
						return true, "collected and deleted by a deferred function on every exit"
					}
				}
			}
		}
		return false, ""
	}
	accuserPurged := false
	for _, m := range marks {
		if m.who == "accuser" {
			for _, f := range maps {
				if ok, _ := purgedAfter(m.call, f); ok {
					accuserPurged = true
				}
			}
		}
	}
	n := 0
	for _, m := range marks {
		if m.who == "other" || (m.who == "accuser" && !accuserPurged) {
			continue
		}
		for _, f := range maps {
			n++
			ok, how := purgedAfter(m.call, f)
			construct := fmt.Sprintf("%s#DQ(%s)/%s", FnName(resolver), m.who, f)
			if ok {
				r.Ok("C02.qual-purge", construct, m.call.Pos(), how)
			} else {
				r.Fail("C02.qual-purge", construct, m.call.Pos(),
					"the "+m.who+" is disqualified but stays in "+f+": members that validated it locally keep using its data (which shares are summed, whose key is reconstructed, which points enter the group key) while the members that accused it do not — they expect different reveals and compute different group keys",
					[]string{"delete(" + f + ", " + m.who + ") on this path, directly or deferred"}, nil)
			}
		}
	}
	if n == 0 {
		r.Undecided("C02.qual-purge", FnName(resolver), "no disqualification of an accused found")
	}
}
