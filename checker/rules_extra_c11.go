package main

import (
	"fmt"
	"regexp"
	"strings"

	"golang.org/x/tools/go/ssa"
)

// Added after seeds C11-4 and C11-5.
//
// C11.bump-every-attempt: attempt n's window is F + (n−1)·max for every member
// only if each increment of the attempt counter is followed, before the loop can
// go round again, by the `counter > 1 ⇒ start += max` step; a `continue` placed
// between the two makes the window depend on the member's own failure history.
//
// C11.live-clock: "announce only while the window is open" compares the window
// with getCurrentBlockFn(); the function handed to the signing loop must be the
// executor's live clock (the block counter's CurrentBlock wired by the node),
// not a value captured earlier.
func init() {
	extend("C11", func(r *Run) {
		r.Rule("C11.bump-every-attempt", "no path from the attempt-counter increment back to the loop head avoids the start-block step", 2)
		r.Rule("C11.live-clock", "the signing loop's current-block function is the node's block counter, passed through unchanged", 3)
		for _, ln := range []string{"signingRetryLoop.start", "dkgRetryLoop.start"} {
			fn := r.MustFn("C11.bump-every-attempt", "pkg/tbtc", ln)
			if fn == nil {
				continue
			}
			name := FnName(fn)
			var inc *ssa.Store
			var test *ssa.BasicBlock
			EachInstr(fn, func(in ssa.Instruction) {
				switch x := in.(type) {
				case *ssa.Store:
					if Desc(x.Addr) == "&P0.attemptCounter" {
						inc = x
					}
				case *ssa.If:
					d := Desc(x.Cond)
					if d == "(const:1 < P0.attemptCounter)" || d == "(P0.attemptCounter > const:1)" {
						test = x.Block()
					}
				}
			})
			if inc == nil || test == nil {
				r.Undecided("C11.bump-every-attempt", name, "counter increment or the `attemptCounter > 1` test not found")
				continue
			}
			var header *ssa.BasicBlock
			for _, l := range Loops(fn) {
				if l.Blocks[inc.Block()] && (header == nil || l.Blocks[header]) {
					header = l.Header
				}
			}
			if header == nil {
				r.Undecided("C11.bump-every-attempt", name, "the increment is not inside a loop")
				continue
			}
			ok := inc.Block() == test
			if !ok && dominates(inc.Block(), test) {
				ok = true
				for _, s := range inc.Block().Succs {
					if s != test && reachesAvoiding(s, header, test) {
						ok = false
					}
				}
			}
			r.Cond(ok, "C11.bump-every-attempt", name, inc.Pos(), "every way from attemptCounter++ back to the loop head passes the `attemptCounter > 1 ⇒ attemptStartBlock += …` step")
		}
		// live clock
		if fn := r.MustFn("C11.live-clock", "pkg/tbtc", "signingExecutor.sign"); fn != nil {
			n := 0
			for _, f := range append([]*ssa.Function{fn}, fn.AnonFuncs...) {
				for _, c := range Sites(f, `^pkg/tbtc\.signingRetryLoop\.start$`, false) {
					n++
					callee := staticCallee(c)
					idx := -1
					for i, p := range callee.Params {
						if p.Name() == "getCurrentBlockFn" {
							idx = i
						}
					}
					ok := idx >= 0 && regexp.MustCompile(`^(up\(P0\)|P0)\.getCurrentBlockFn$`).MatchString(Desc(c.Common().Args[idx]))
					got := ""
					if idx >= 0 {
						got = abbr(Desc(c.Common().Args[idx]), 2)
					}
					r.Cond(ok, "C11.live-clock", FnName(f)+"#start", c.Pos(), "the loop gets the executor's getCurrentBlockFn field itself; got "+got)
				}
			}
			if n == 0 {
				r.Undecided("C11.live-clock", FnName(fn), "call of signingRetryLoop.start not found")
			}
		}
		if ctor := r.MustFn("C11.live-clock", "pkg/tbtc", "newSigningExecutor"); ctor != nil {
			m, pos := complitFields(ctor, "pkg/tbtc.signingExecutor")
			idx := -1
			for i, p := range ctor.Params {
				if p.Name() == "getCurrentBlockFn" {
					idx = i
				}
			}
			v := m["getCurrentBlockFn"]
			r.Cond(v != nil && idx >= 0 && Desc(v) == fmt.Sprintf("P%d", idx), "C11.live-clock", FnName(ctor), pos, "the field is the constructor's argument")
			// the only writers of the field are constructors
			for _, a := range r.W.FieldAccesses("pkg/tbtc", "signingExecutor", "getCurrentBlockFn") {
				if a.Write && a.Fn != ctor {
					r.Fail("C11.live-clock", FnName(a.Fn)+"#write", a.Instr.Pos(), "the executor's clock is replaced after construction", nil, nil)
				}
			}
			for _, c := range r.W.Callers(ctor) {
				if strings.HasSuffix(c.Parent().Pkg.Pkg.Path(), "pkg/tbtc") {
					d := Desc(c.Common().Args[idx])
					r.Cond(d == "closure:pkg/chain.CurrentBlock$bound", "C11.live-clock", FnName(c.Parent())+"#wire", c.Pos(), "the node wires the block counter's CurrentBlock; got "+abbr(d, 2))
				}
			}
		}
	})
	witness(Witness{Prop: "C11", Name: "continue-before-bump", File: "pkg/tbtc/dkg_loop.go",
		Old: "\t\tdrl.attemptCounter++\n", New: "\t\tdrl.attemptCounter++\n\t\tif ctx.Err() == nil && drl.attemptCounter%7 == 0 {\n\t\t\tcontinue\n\t\t}\n", Rule: "C11.bump-every-attempt"})
}
