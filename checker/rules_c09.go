package main

import (
	"fmt"
	"go/token"
	"go/types"
	"sort"
	"strings"

	"golang.org/x/tools/go/ssa"
)

// tupleAppend is `xs = append(xs, [N]int{v0, …})`: an enumeration of index tuples.
type tupleAppend struct {
	Call *ssa.Call
	Vars []ssa.Value
}

func tupleAppends(fn *ssa.Function) []tupleAppend {
	var out []tupleAppend
	EachInstr(fn, func(in ssa.Instruction) {
		c := isAppendInstr(in)
		if c == nil || len(c.Call.Args) != 2 {
			return
		}
		sl, ok := c.Call.Args[1].(*ssa.Slice)
		if !ok {
			return
		}
		va, ok := sl.X.(*ssa.Alloc)
		if !ok {
			return
		}
		// the single element stored into the varargs array
		var elem ssa.Value
		for _, ref := range *va.Referrers() {
			if ia, ok := ref.(*ssa.IndexAddr); ok {
				for _, r2 := range *ia.Referrers() {
					if st, ok := r2.(*ssa.Store); ok && st.Addr == ia {
						elem = st.Val
					}
				}
			}
		}
		ld, ok := elem.(*ssa.UnOp)
		if !ok || ld.Op != token.MUL {
			return
		}
		lit, ok := ld.X.(*ssa.Alloc)
		if !ok {
			return
		}
		arr, ok := lit.Type().Underlying().(*types.Pointer).Elem().Underlying().(*types.Array)
		if !ok || !isIntType(arr.Elem()) {
			return
		}
		vars := make([]ssa.Value, arr.Len())
		for _, ref := range *lit.Referrers() {
			if ia, ok := ref.(*ssa.IndexAddr); ok {
				k, isC := ia.Index.(*ssa.Const)
				if !isC {
					return
				}
				pos := int(k.Int64())
				for _, r2 := range *ia.Referrers() {
					if st, ok := r2.(*ssa.Store); ok && st.Addr == ia && pos < len(vars) {
						vars[pos] = stripConv(st.Val)
					}
				}
			}
		}
		for _, v := range vars {
			if v == nil {
				return
			}
		}
		out = append(out, tupleAppend{c, vars})
	})
	return out
}

func isAppendInstr(in ssa.Instruction) *ssa.Call {
	if v, ok := in.(ssa.Value); ok {
		return isAppend(v)
	}
	return nil
}

// positionFreeFilter: acc is built by `for _, e := range src { if cond(e) { acc = append(acc, e) } }`
// where every in-loop condition depends on the position only through the element e.
func positionFreeFilter(acc *Accum, src ssa.Value) (bool, string) {
	if acc.Header == nil || !sameValue(acc.Source, src) {
		return false, "the returned list is not built by ranging over the seat list"
	}
	// the range index of the loop: the Lo operand of the header's `idx < len(src)`
	ifi := acc.Header.Instrs[len(acc.Header.Instrs)-1].(*ssa.If)
	idx := stripConv(ifi.Cond.(*ssa.BinOp).X)
	var elemLoads = map[ssa.Value]bool{}
	body := loopBlocks(acc.Header)
	for b := range body {
		for _, in := range b.Instrs {
			if ia, ok := in.(*ssa.IndexAddr); ok && sameValue(ia.X, src) && stripConv(ia.Index) == idx {
				for _, ref := range *ia.Referrers() {
					if ld, ok := ref.(*ssa.UnOp); ok {
						elemLoads[ld] = true
					}
				}
			}
		}
	}
	for _, ap := range acc.Appends {
		// appended element must be the ranged element
		okElem := false
		if sl, ok := ap.Call.Args[1].(*ssa.Slice); ok {
			if va, ok := sl.X.(*ssa.Alloc); ok {
				for _, ref := range *va.Referrers() {
					if ia, ok := ref.(*ssa.IndexAddr); ok {
						for _, r2 := range *ia.Referrers() {
							if st, ok := r2.(*ssa.Store); ok && elemLoads[st.Val] {
								okElem = true
							}
						}
					}
				}
			}
		}
		if !okElem {
			return false, "an appended seat is not the visited element of the seat list"
		}
	}
	for b := range body {
		if ifb, ok := b.Instrs[len(b.Instrs)-1].(*ssa.If); ok && b != acc.Header {
			if dependsOn(ifb.Cond, idx, elemLoads) {
				return false, "a filter condition depends on the seat's position, not only on its operator"
			}
		}
	}
	return true, ""
}

func accumOf(accs []*Accum, v ssa.Value) *Accum {
	for _, a := range accs {
		if a.Vals[v] {
			return a
		}
	}
	return nil
}

func init() {
	const rp = "pkg/tecdsa/retry"
	register(&Prop{
		ID:        "C09",
		Technique: "static analysis: tuple-guard dependency via affine term decomposition, index-space typing of the seat filter, map-iteration-order and RNG-source effects (go/ssa)",
		Explanation: "pkg/tecdsa/retry: (1) every enumeration `append(tuples, [N]int{v0..})` is guarded by an eligibility comparison whose seat terms depend on each tuple variable exactly once with equal coefficient (so a triplet check that counts one operator twice and ignores another is reported), and tuple variables are strictly increasing (inner loop starts at outer+1: each pair/triplet at most once); " +
			"(2) the operators removed are exactly the N components of the selected tuple; (3) every returned seat list is built by ranging over the input seats in order and appending the visited seat under conditions that depend on the seat's operator only (keeps/drops an operator's seats together, sub-list); " +
			"(4) replica determinism: no slice filled in map-iteration order is read before being sorted, byAddress.Less is a strict comparison of elements, the only randomness is rand.New(rand.NewSource(f(seed, retryCount))) and methods on it, no global math/rand, crypto/rand or clock; " +
			"(5) key generation tries singles, then pairs, then triplets, each stage only after the previous one reported failure, with the index reduced by the earlier stages' counts; (6) the signing selection leaves its accumulation loop only under seatCount ≥ requested, adding the accepted operator's own seat count.",
		NotDecided: "the numeric claim 'at least the requested number of seats' beyond the shape of the eligibility comparisons (off-by-one in a bound is arithmetic); that math/rand's shuffle is identical across Go versions on different nodes.",
		Fn: func(r *Run) {
			r.Rule("C09.tuple-guard", "eligibility of an index tuple depends on every component exactly once", 2)
			r.Rule("C09.tuple-distinct", "tuple components strictly increasing (each combination at most once)", 3)
			r.Rule("C09.tuple-use", "the excluded operators are exactly the selected tuple's components", 3)
			r.Rule("C09.seat-filter", "returned seats = in-order, operator-only filter of the input seats", 4)
			r.Rule("C09.deterministic", "no map-order leak, strict Less, local seeded RNG only", 5)
			r.Rule("C09.stages", "singles → pairs → triplets, index reduced by earlier stage counts", 4)
			r.Rule("C09.signing-quota", "signing selection stops only under seatCount ≥ requested", 2)
			r.Rule("C09.stage-count", "an exhausted stage reports the length of its eligible list; a successful one reports 0", 6)

			pkg := r.W.Pkg(rp)
			if pkg == nil {
				r.Undecided("C09.tuple-guard", rp, "package not loaded")
				return
			}
			var fns []*ssa.Function
			for _, f := range r.W.AllFuncs {
				top := f
				for top.Parent() != nil {
					top = top.Parent()
				}
				if top.Pkg == pkg {
					fns = append(fns, f)
				}
			}

			// ---- (1) tuple guards and distinctness
			for _, fn := range fns {
				for _, ta := range tupleAppends(fn) {
					isVar := map[ssa.Value]int{}
					for i, v := range ta.Vars {
						isVar[v] = i
					}
					construct := fmt.Sprintf("%s#%d-tuple", FnName(fn), len(ta.Vars))
					var elig []CmpGuard
					for _, g := range CmpGuards(ta.Call.Block()) {
						_, lo := isVar[stripConv(g.Lo)]
						_, hi := isVar[stripConv(g.Hi)]
						if !lo && !hi {
							elig = append(elig, g)
						}
					}
					if len(elig) == 0 {
						r.Fail("C09.tuple-guard", construct, ta.Call.Pos(), "a tuple is enumerated without an eligibility condition", nil, nil)
						continue
					}
					counted := map[int]int{}
					var coeffs = map[int64]bool{}
					bad := ""
					for _, g := range elig {
						_, hiT := AffineTerms(g.Hi)
						_, loT := AffineTerms(g.Lo)
						for i := range loT {
							loT[i].K = -loT[i].K
						}
						for _, t := range append(hiT, loT...) {
							var deps []int
							for v, pos := range isVar {
								others := map[ssa.Value]bool{}
								for o := range isVar {
									if o != v {
										others[o] = true
									}
								}
								if dependsOn(t.V, v, others) {
									deps = append(deps, pos)
								}
							}
							switch len(deps) {
							case 0:
							case 1:
								counted[deps[0]]++
								coeffs[t.K] = true
							default:
								bad = "a single term of the eligibility comparison mixes several tuple components"
							}
						}
					}
					var miss, dup []string
					for pos := range ta.Vars {
						if counted[pos] == 0 {
							miss = append(miss, fmt.Sprint(pos))
						}
						if counted[pos] > 1 {
							dup = append(dup, fmt.Sprint(pos))
						}
					}
					switch {
					case len(miss) > 0:
						r.Fail("C09.tuple-guard", construct, ta.Call.Pos(),
							"the eligibility comparison does not depend on tuple component(s) "+strings.Join(miss, ",")+
								" (counted twice: "+strings.Join(dup, ",")+"): a combination can be admitted although excluding it leaves too few seats",
							nil, nil)
					case len(dup) > 0 || len(coeffs) != 1 || bad != "":
						r.Fail("C09.tuple-guard", construct, ta.Call.Pos(), "tuple components must each be counted exactly once with the same weight; twice: "+strings.Join(dup, ",")+" "+bad, nil, nil)
					default:
						r.Ok("C09.tuple-guard", construct, ta.Call.Pos(), "each component counted once")
					}
					// strictly increasing components
					for pos := 1; pos < len(ta.Vars); pos++ {
						phi, ok := ta.Vars[pos].(*ssa.Phi)
						okInc := false
						if ok {
							for _, e := range phi.Edges {
								c, ts := AffineTerms(e)
								if c == 1 && len(ts) == 1 && ts[0].K == 1 && ts[0].V == ta.Vars[pos-1] {
									okInc = true
								}
							}
							for _, e := range phi.Edges {
								c, ts := AffineTerms(e)
								if !(len(ts) == 1 && ts[0].K == 1 && c == 1 && (ts[0].V == ta.Vars[pos-1] || ts[0].V == phi)) {
									okInc = false
								}
							}
						}
						r.Cond(okInc, "C09.tuple-distinct", fmt.Sprintf("%s/component-%d", construct, pos), ta.Call.Pos(),
							"component must start at previous component + 1 and step by one")
					}
				}
			}

			// ---- (2),(3) per-function filter shape
			type stage struct {
				name string
				n    int // components
			}
			for _, st := range []stage{{"excludeSingleOperator", 1}, {"excludeOperatorPairs", 2}, {"excludeOperatorTriplets", 3}} {
				fn := r.MustFn("C09.seat-filter", rp, st.name)
				if fn == nil {
					continue
				}
				accs := Accumulations(fn)
				n := 0
				for _, p := range ReturnPaths(fn, 2, func(v ssa.Value) bool { cb, isc := constBool(v); return !isc || cb }) {
					n++
					res := RetResults(p.Ret)[0]
					acc := accumOf(accs, res)
					if acc == nil {
						r.Fail("C09.seat-filter", FnName(fn)+"#returned-seats", p.Ret.Pos(), "returned seats are not an append accumulation", nil, nil)
						continue
					}
					ok, why := positionFreeFilter(acc, fn.Params[1])
					r.Cond(ok, "C09.seat-filter", FnName(fn)+"#returned-seats", p.Ret.Pos(), "in-order operator-only filter of groupMembers; "+why)
					// excluded operators = components of the selected tuple
					comps := map[string]bool{}
					for _, ap := range acc.Appends {
						for _, f := range Facts(ap.Block()) {
							if !strings.HasPrefix(f, "-(") || !strings.Contains(f, " == ") {
								continue
							}
							if st.n == 1 {
								if strings.Contains(f, "P4[P2]") {
									comps["0"] = true
								}
							} else if m := re(`P4\[\{local:\w+\[P2\]\}\[const:(\d)\]\]`).FindStringSubmatch(f); m != nil {
								comps[m[1]] = true
							}
						}
					}
					r.Cond(len(comps) == st.n, "C09.tuple-use", FnName(fn)+"#excluded", p.Ret.Pos(),
						fmt.Sprintf("seats are dropped iff their operator equals one of the %d components of the tuple selected by index; components compared: %d", st.n, len(comps)))
					r.Check("C09.tuple-use", FnName(fn)+"#index-in-range", p.Ret.Pos(), p.Facts, `^\+\(P2 < len\(.*\)\)$`)
				}
				if n == 0 {
					r.Undecided("C09.seat-filter", FnName(fn), "no success return found")
				}
				// the count reported on failure is the length of the very list that
				// the index is compared with and indexed into (the caller subtracts
				// it to obtain the next stage's index: a different number shifts or
				// repeats later exclusions)
				var list ssa.Value
				for _, p := range ReturnPaths(fn, 2, func(v ssa.Value) bool { cb, isc := constBool(v); return !isc || cb }) {
					for _, g := range cmpOf(Guards(p.Ret.Block())) {
						if g.Strict && Desc(stripConv(g.Lo)) == "P2" {
							if s := isLenOf(g.Hi); s != nil {
								list = s
							}
						}
					}
					r.Cond(Desc(RetResults(p.Ret)[1]) == "const:0", "C09.stage-count", FnName(fn)+"#tries-on-success", p.Ret.Pos(), "a successful stage consumes no further tries")
				}
				nf := 0
				for _, p := range ReturnPaths(fn, 2, func(v ssa.Value) bool { cb, isc := constBool(v); return isc && !cb }) {
					nf++
					cnt := isLenOf(RetResults(p.Ret)[1])
					ok := list != nil && cnt != nil && Desc(cnt) == Desc(list)
					guard := false
					for _, g := range cmpOf(Guards(p.Ret.Block())) {
						if !g.Strict && Desc(stripConv(g.Hi)) == "P2" {
							if s := isLenOf(g.Lo); s != nil && list != nil && Desc(s) == Desc(list) {
								guard = true
							}
						}
					}
					r.Cond(ok && guard, "C09.stage-count", FnName(fn)+"#count-on-exhaustion", p.Ret.Pos(),
						"an exhausted stage reports len(eligible list) under len(eligible list) ≤ index, for the same list that a successful stage indexes; got "+abbr(Desc(RetResults(p.Ret)[1]), 2))
				}
				if nf == 0 {
					r.Undecided("C09.stage-count", FnName(fn), "no exhaustion return found")
				}
			}
			if fn := r.MustFn("C09.seat-filter", rp, "EvaluateRetryParticipantsForSigning"); fn != nil {
				accs := Accumulations(fn)
				for _, p := range SuccessReturns(fn) {
					acc := accumOf(accs, RetResults(p.Ret)[0])
					if acc == nil {
						r.Fail("C09.seat-filter", FnName(fn)+"#returned-seats", p.Ret.Pos(), "returned seats are not an append accumulation", nil, nil)
						continue
					}
					ok, why := positionFreeFilter(acc, fn.Params[0])
					r.Cond(ok, "C09.seat-filter", FnName(fn)+"#returned-seats", p.Ret.Pos(), "in-order operator-only filter of groupMembers; "+why)
				}
				// quota loop
				var inc *ssa.BinOp
				EachInstr(fn, func(in ssa.Instruction) {
					if b, ok := in.(*ssa.BinOp); ok && b.Op == token.ADD {
						if phi, ok := b.X.(*ssa.Phi); ok && types.Identical(phi.Type(), fn.Params[3].Type()) {
							if _, isL := b.Y.(*ssa.Lookup); isL {
								inc = b
							}
						}
					}
				})
				if inc == nil {
					r.Undecided("C09.signing-quota", FnName(fn)+"#seatCount", "seat accumulation not found")
				} else {
					phi := inc.X.(*ssa.Phi)
					lk := inc.Y.(*ssa.Lookup)
					// the loop continues only under seatCount < requested
					cont := false
					for _, g := range CmpGuards(inc.Block()) {
						if g.Strict && g.Lo == phi && g.Hi == fn.Params[3] {
							cont = true
						}
					}
					hd := phi.Block()
					ifi, isIf := hd.Instrs[len(hd.Instrs)-1].(*ssa.If)
					exitOK := false
					if isIf {
						if bo, ok := ifi.Cond.(*ssa.BinOp); ok && bo.Op == token.LSS && bo.X == phi && bo.Y == fn.Params[3] {
							exitOK = true
						}
					}
					r.Cond(cont && exitOK, "C09.signing-quota", FnName(fn)+"#loop", inc.Pos(), "accumulate while seatCount < requested; the loop has no other exit")
					// the accepted operator is the one whose seats were added
					okKey := false
					EachInstr(fn, func(in ssa.Instruction) {
						if mu, ok := in.(*ssa.MapUpdate); ok && mu.Block() == inc.Block() && mu.Key == lk.Index && Desc(mu.Value) == "const:true" {
							okKey = true
						}
					})
					r.Cond(okKey, "C09.signing-quota", FnName(fn)+"#accepted", inc.Pos(), "the operator marked accepted is the one whose seat count was added")
				}
			}

			// ---- (4) determinism
			for _, fn := range fns {
				leaks, loops := MapOrderLeaks(fn)
				for _, l := range leaks {
					r.Fail("C09.deterministic", FnName(fn)+"#map-order/"+l.Sink, l.Use.Pos(), "a slice filled in map iteration order is used before being sorted", nil, nil)
				}
				if loops > 0 && len(leaks) == 0 {
					r.Ok("C09.deterministic", FnName(fn)+"#map-order", fn.Pos(), fmt.Sprintf("%d map range loop(s): ordered sinks sorted before use", loops))
				}
				for _, c := range NondetCalls(fn) {
					r.Fail("C09.deterministic", FnName(fn)+"#"+shortCallee(c), c.Pos(), "process-global or environment-dependent source in replica-deterministic code", nil, nil)
				}
				for _, c := range CallsMatching(fn, `^math/rand\.NewSource$`) {
					_, ts := AffineTerms(c.Common().Args[0])
					ok := len(ts) > 0
					for _, t := range ts {
						if _, isP := t.V.(*ssa.Parameter); !isP {
							ok = false
						}
					}
					r.Cond(ok, "C09.deterministic", FnName(fn)+"#rng-seed", c.Pos(), "the RNG seed is an affine function of the function's parameters (seed, retryCount)")
				}
				for _, c := range CallsMatching(fn, `^math/rand\.Rand\.`) {
					rv := c.Common().Args[0]
					d := Desc(rv)
					ok := re(`^(up\()*P\d\)*$`).MatchString(d) || strings.HasPrefix(d, "call:math/rand.New(call:math/rand.NewSource(")
					r.Cond(ok, "C09.deterministic", FnName(fn)+"#rng-receiver/"+shortCallee(c), c.Pos(), "random draws come from the locally seeded generator; got "+abbr(d, 1))
				}
			}
			if less := r.MustFn("C09.deterministic", rp, "byAddress.Less"); less != nil {
				rets := ReturnsMatching(less, 0, `^\(P0\[P1\] < P0\[P2\]\)$`)
				r.Cond(len(rets) == 1 && len(ReturnsMatching(less, 0, `.`)) == 1, "C09.deterministic", FnName(less), less.Pos(), "Less is the strict order of the elements (total on distinct operators)")
			}

			// ---- (5) stages
			if fn := r.MustFn("C09.stages", rp, "EvaluateRetryParticipantsForKeyGeneration"); fn != nil {
				names := []string{"excludeSingleOperator", "excludeOperatorPairs", "excludeOperatorTriplets"}
				var calls []*ssa.Call
				for _, n := range names {
					cs := Sites(fn, `^`+q(rp+"."+n)+`$`, false)
					if len(cs) != 1 {
						r.Undecided("C09.stages", FnName(fn)+"#"+n, "expected exactly one call")
						return
					}
					calls = append(calls, cs[0].(*ssa.Call))
				}
				for i, c := range calls {
					need := []string{}
					for j := 0; j < i; j++ {
						need = append(need, `^-call:`+q(rp+"."+names[j])+`\(.*\)#2$`)
					}
					r.Check("C09.stages", FnName(fn)+"#"+names[i]+"/after-failed-earlier-stages", c.Pos(), Facts(c.Block()), need...)
					// index argument = retryCount − Σ earlier counts
					_, ts := AffineTerms(c.Call.Args[2])
					want := map[string]int64{"P2": 1}
					for j := 0; j < i; j++ {
						want[Desc(calls[j])+"#1"] = -1
					}
					got := map[string]int64{}
					for _, t := range ts {
						got[Desc(t.V)] += t.K
					}
					ok := len(got) == len(want)
					for k, v := range want {
						if got[k] != v {
							ok = false
						}
					}
					keys := []string{}
					for k, v := range got {
						keys = append(keys, fmt.Sprintf("%d*%s", v, abbr(k, 0)))
					}
					sort.Strings(keys)
					r.Cond(ok, "C09.stages", FnName(fn)+"#"+names[i]+"/index", c.Pos(), "index = retryCount − counts of the earlier stages; got "+strings.Join(keys, " + "))
					// same operator list, seat map and member list for each stage
					a := c.Call.Args
					r.Cond(Desc(a[1]) == "P0" && Desc(a[0]) == Desc(calls[0].Call.Args[0]) && Desc(a[3]) == Desc(calls[0].Call.Args[3]) && sameValue(a[4], calls[0].Call.Args[4]),
						"C09.stages", FnName(fn)+"#"+names[i]+"/inputs", c.Pos(), "every stage works on the same rng, seats, seat counts and eligible operators")
				}
				for _, p := range SuccessReturns(fn) {
					d := Desc(RetResults(p.Ret)[0])
					ok := false
					for i, n := range names {
						if d == Desc(calls[i])+"#0" && HasFact(p.Facts, `^\+call:`+q(rp+"."+n)+`\(.*\)#2$`) {
							ok = true
						}
					}
					r.Cond(ok, "C09.stages", FnName(fn)+"#return", p.Ret.Pos(), "a selection is returned only from the stage that reported success")
				}
				// single-exclusion eligibility of the operator list
				accs := Accumulations(fn)
				if acc := accumOf(accs, calls[0].Call.Args[4]); acc != nil || true {
					_ = acc
				}
			}
		},
	})
	witness(Witness{Prop: "C09", Name: "triplet-ignores-third", File: "pkg/tecdsa/retry/retry.go",
		Old:  "rightOperator := operators[k]",
		New:  "rightOperator := operators[j]",
		Rule: "C09.tuple-guard", Within: "excludeOperatorTriplets"})
	witness(Witness{Prop: "C09", Name: "unsorted-operators", File: "pkg/tecdsa/retry/retry.go",
		Old: "\t\t\toperators = append(operators, operator)\n\t\t}\n\t}\n\tsort.Sort(byAddress(operators))", New: "\t\t\toperators = append(operators, operator)\n\t\t}\n\t}\n\tsort.Sort(byAddress(groupMembers))",
		Rule: "C09.deterministic"})
	witness(Witness{Prop: "C09", Name: "pairs-start-at-i", File: "pkg/tecdsa/retry/retry.go",
		Old: "for j := i + 1; j < len(operators); j++ {", New: "for j := i; j < len(operators); j++ {",
		Rule: "C09.tuple-distinct"})
}
