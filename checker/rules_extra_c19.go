package main

import (
	"go/types"
	"strings"

	"golang.org/x/tools/go/ssa"
)

// C19.no-nil-field (added after seed C19-6): a decoder that reports success
// must leave a usable value behind. Storing the nil constant into a pointer-
// typed field of the receiver and then returning nil hands the caller an
// object whose methods dereference that field (the pre-parameters loader
// panicked on exactly that).
func init() {
	extend("C19", func(r *Run) {
		r.Rule("C19.no-nil-field", "a decoder does not store nil into a pointer field of its receiver on a path that reports success", 40)
		roots, _ := DecoderScope(r.W)
		n := 0
		for _, fn := range roots {
			if len(fn.Params) == 0 {
				continue
			}
			n++
			bad := false
			EachInstr(fn, func(in ssa.Instruction) {
				st, ok := in.(*ssa.Store)
				if !ok || !isNilConst(st.Val) {
					return
				}
				fa, ok := st.Addr.(*ssa.FieldAddr)
				if !ok || fa.X != ssa.Value(fn.Params[0]) {
					return
				}
				if _, isPtr := st.Val.Type().Underlying().(*types.Pointer); !isPtr {
					return
				}
				// does a success return follow?
				for _, p := range SuccessReturns(fn) {
					if st.Block() == p.Ret.Block() || Reaches(st.Block(), p.Ret.Block()) {
						bad = true
						r.Fail("C19.no-nil-field", FnName(fn)+"#"+fieldName(fa.X.Type(), fa.Field), in.Pos(),
							"the decoder stores nil into the receiver's pointer field "+fieldName(fa.X.Type(), fa.Field)+" and can still return success: users of the decoded value dereference it", nil, nil)
						return
					}
				}
			})
			if !bad {
				r.Ok("C19.no-nil-field", FnName(fn), fn.Pos(), "no nil store into a receiver pointer field before a success return")
			}
		}
		_ = strings.TrimSpace
		if n == 0 {
			r.Undecided("C19.no-nil-field", "scope", "no decoders found")
		}
	})
}

// C19.total-index (added after seed C19-8): inside the decoders no index or
// slice expression may go out of range for any input — a record whose
// repeated fields have different lengths must give an error, not a panic.
func init() {
	extend("C19", func(r *Run) {
		r.Rule("C19.total-index", "index and slice expressions in the decoders are in range for every record", 20)
		_, scope := DecoderScope(r.W)
		for _, fn := range scope {
			r.indexTotality("C19.total-index", fn, false)
		}
	})
}

func init() {
	extend("C19", func(r *Run) {
		r.Rule("C19.key-codec", "the persisted wallet public key is encoded and decoded by mutually inverse, fixed-width codecs", 2)
		keyCodecRule(r, "C19.key-codec")
	})
}
