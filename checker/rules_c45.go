package main

import (
	"strings"

	"golang.org/x/tools/go/ssa"
)

func init() {
	const gp = "pkg/generator"
	register(&Prop{
		ID:        "C45",
		Technique: "static analysis: must-hold locksets on the scheduler and latch fields (including caller-holds for startWorker), dominator facts of stop/resume on the executing flag, shape of the latch counter updates (go/ssa)",
		Explanation: "pkg/generator: (1) the scheduler's state, workers and stops are touched only under workMutex — startWorker, which appends the cancel function, is reached only from callers holding it — and protocols only under protocolsMutex; the latch counter only under the latch mutex; " +
			"(2) checkProtocols calls stop() exactly on the paths where some registered protocol reported IsExecuting() = true and resume() exactly where none did (the flag is true only after a true IsExecuting in the loop over the registered protocols); " +
			"(3) stop() sets the state to stopped, calls every recorded cancel function and only then clears the list; resume() sets working and starts every registered worker; a started worker checks its context before every iteration and its cancel function is recorded before the goroutine starts; " +
			"(4) the latch: Lock is counter+1, Unlock is counter−1 guarded by counter ≠ 0, IsExecuting ⇔ counter ≠ 0 — nested executions are counted.",
		NotDecided: "how often checkProtocols runs (scheduling period); a worker iteration already in progress when stop() is called finishes its current call (it gets the cancelled context); fairness.",
		Fn: func(r *Run) {
			r.Rule("C45.locks", "scheduler and latch state only under their mutexes", 12)
			r.Rule("C45.decision", "stop ⇔ some protocol executing; resume ⇔ none", 3)
			r.Rule("C45.stop-resume", "stop cancels all recorded workers then clears; resume restarts all workers", 6)
			r.Rule("C45.latch", "Lock +1, Unlock −1 under counter ≠ 0, IsExecuting ⇔ counter ≠ 0", 3)
			n := 0
			for _, f := range []string{"state", "workers", "stops"} {
				n += r.FieldUnderLock("C45.locks", gp, "Scheduler", f, "workMutex", nil)
			}
			n += r.FieldUnderLock("C45.locks", gp, "Scheduler", "protocols", "protocolsMutex", nil)
			n += r.FieldUnderLock("C45.locks", gp, "ProtocolLatch", "counter", "mutex", nil)

			if cp := r.MustFn("C45.decision", gp, "Scheduler.checkProtocols"); cp != nil {
				exec := `invoke:pkg/generator\.Protocol\.IsExecuting\(`
				for _, c := range Sites(cp, `^pkg/generator\.Scheduler\.stop$`, false) {
					r.Check("C45.decision", FnName(cp)+"#stop", c.Pos(), Facts(c.Block()), `^\+phi\{.*\}$|^\+`+exec)
					// the flag is a phi whose only true edge comes from a true IsExecuting
					okFlag := false
					for _, g := range RawGuards(c.Block()) {
						phi, isPhi := g.Cond.(*ssa.Phi)
						if !isPhi || !g.Pol {
							continue
						}
						okFlag = true
						for i, e := range phi.Edges {
							cb, isC := constBool(e)
							if !isC {
								okFlag = false
								continue
							}
							if cb && !HasFact(EdgeFacts(phi.Block().Preds[i], phi.Block()), `^\+`+exec) {
								okFlag = false
							}
						}
					}
					r.Cond(okFlag, "C45.decision", FnName(cp)+"#flag", c.Pos(), "the 'some protocol executing' flag becomes true only after IsExecuting() returned true for a registered protocol")
				}
				for _, c := range Sites(cp, `^pkg/generator\.Scheduler\.resume$`, false) {
					ok := false
					for _, g := range RawGuards(c.Block()) {
						if _, isPhi := g.Cond.(*ssa.Phi); isPhi && !g.Pol {
							ok = true
						}
					}
					r.Cond(ok, "C45.decision", FnName(cp)+"#resume", c.Pos(), "resume only when the flag stayed false (the loop visited every registered protocol)")
				}
				// the loop ranges over the registered protocols
				rng := false
				for _, l := range Loops(cp) {
					if s := loopSource(l.Header); s != nil && Desc(s) == "P0.protocols" && l.Kind == "range" {
						// a range from the first element; the flag stays false only
						// by running off the end of the list (the head's exit edge)
						rng = true
						n := 0
						for _, c := range Sites(cp, `^invoke:pkg/generator\.Protocol\.IsExecuting$`, false) {
							n++
							if !l.Blocks[c.Block()] || !strings.HasPrefix(Desc(c.Common().Value), "P0.protocols[") {
								rng = false
							}
						}
						if n != 1 {
							rng = false
						}
						for _, b := range cp.Blocks {
							for _, in := range b.Instrs {
								phi, isPhi := in.(*ssa.Phi)
								if !isPhi || l.Blocks[b] {
									continue
								}
								for i, e := range phi.Edges {
									if cb, isC := constBool(e); isC && !cb && b.Preds[i] != l.Header {
										rng = false
									}
								}
							}
						}
					}
				}
				r.Cond(rng, "C45.decision", FnName(cp)+"#all-protocols", cp.Pos(), "every registered protocol is consulted: a range over the whole list from its first element, left early only on a true IsExecuting()")
			}
			if st := r.MustFn("C45.stop-resume", gp, "Scheduler.stop"); st != nil {
				var stateStore, clear *ssa.Store
				EachInstr(st, func(in ssa.Instruction) {
					if s, ok := in.(*ssa.Store); ok {
						switch Desc(s.Addr) {
						case "&P0.state":
							stateStore = s
						case "&P0.stops":
							clear = s
						}
					}
				})
				want := r.PkgConst("C45.stop-resume", gp, "stopped")
				r.Cond(stateStore != nil && Desc(stateStore.Val) == "const:"+want, "C45.stop-resume", FnName(st)+"#state", st.Pos(), "state := stopped")
				// every recorded cancel function is called: a range loop over P0.stops calling the element
				called := false
				var loop *Loop
				for _, l := range Loops(st) {
					if s := loopSource(l.Header); s != nil && Desc(s) == "P0.stops" {
						loop = l
						for b := range l.Blocks {
							for _, in := range b.Instrs {
								if c, ok := in.(*ssa.Call); ok && CalleeName(c) == "dyn" && strings.HasPrefix(Desc(c.Call.Value), "P0.stops[") {
									called = len(Facts(c.Block())) <= 2 // only the range bound (and the not-yet-stopped test)
								}
							}
						}
					}
				}
				r.Cond(called, "C45.stop-resume", FnName(st)+"#cancel-all", st.Pos(), "every recorded cancel function is invoked")
				okOrder := clear != nil && loop != nil && !loop.Blocks[clear.Block()] && dominates(loop.Header, clear.Block()) && isNilConst(clear.Val)
				r.Cond(okOrder, "C45.stop-resume", FnName(st)+"#clear-after", st.Pos(), "the list is cleared only after the loop that cancels its elements")
			}
			if rs := r.MustFn("C45.stop-resume", gp, "Scheduler.resume"); rs != nil {
				want := r.PkgConst("C45.stop-resume", gp, "working")
				okState := false
				EachInstr(rs, func(in ssa.Instruction) {
					if s, ok := in.(*ssa.Store); ok && Desc(s.Addr) == "&P0.state" && Desc(s.Val) == "const:"+want {
						okState = true
					}
				})
				r.Cond(okState, "C45.stop-resume", FnName(rs)+"#state", rs.Pos(), "state := working")
				started := false
				for _, l := range Loops(rs) {
					if s := loopSource(l.Header); s != nil && Desc(s) == "P0.workers" {
						for b := range l.Blocks {
							for _, in := range b.Instrs {
								if c, ok := in.(*ssa.Call); ok && CalleeName(c) == gp+".Scheduler.startWorker" && strings.HasPrefix(Desc(c.Call.Args[1]), "P0.workers[") {
									started = true
								}
							}
						}
					}
				}
				r.Cond(started, "C45.stop-resume", FnName(rs)+"#restart-all", rs.Pos(), "every registered worker is started again")
			}
			if sw := r.MustFn("C45.stop-resume", gp, "Scheduler.startWorker"); sw != nil {
				// cancel function recorded before the goroutine starts; worker checks ctx each round
				var rec ssa.Instruction
				var gostmt *ssa.Go
				EachInstr(sw, func(in ssa.Instruction) {
					if s, ok := in.(*ssa.Store); ok && Desc(s.Addr) == "&P0.stops" {
						rec = in
					}
					if g, ok := in.(*ssa.Go); ok {
						gostmt = g
					}
				})
				r.Cond(rec != nil && gostmt != nil && InstrBefore(rec, gostmt), "C45.stop-resume", FnName(sw)+"#record-before-go", sw.Pos(), "the worker's cancel function is recorded before the worker goroutine starts")
				if gostmt != nil {
					if body := staticCallee(gostmt); body != nil {
						okLoop := false
						EachInstr(body, func(in ssa.Instruction) {
							if sel, ok := in.(*ssa.Select); ok && !sel.Blocking {
								for _, s := range sel.States {
									if strings.Contains(Desc(s.Chan), "context.Context.Done(") {
										okLoop = true
									}
								}
							}
						})
						calls := Sites(body, `^dyn$`, false)
						guarded := len(calls) == 1 && len(Facts(calls[0].Block())) >= 1
						r.Cond(okLoop && guarded, "C45.stop-resume", FnName(body)+"#check-before-each-round", body.Pos(), "the worker polls its context before every call of the work function")
					}
				}
			}
			// latch
			for name, want := range map[string]string{"Lock": "1*P0.counter + 1", "Unlock": "1*P0.counter + -1"} {
				if m := r.MustFn("C45.latch", gp, "ProtocolLatch."+name); m != nil {
					cnt := 0
					EachInstr(m, func(in ssa.Instruction) {
						if s, ok := in.(*ssa.Store); ok && Desc(s.Addr) == "&P0.counter" {
							cnt++
							ok2 := Affine(s.Val).String() == want
							if name == "Unlock" {
								ok2 = ok2 && HasFact(Facts(s.Block()), `^-\(P0\.counter == const:0\)$|^-\(const:0 == P0\.counter\)$`)
							} else {
								ok2 = ok2 && len(Facts(s.Block())) == 0
							}
							r.Cond(ok2, "C45.latch", FnName(m), in.Pos(), "counter update must be "+want)
						}
					})
					if cnt != 1 {
						r.Undecided("C45.latch", FnName(m), "expected exactly one counter update")
					}
				}
			}
			if m := r.MustFn("C45.latch", gp, "ProtocolLatch.IsExecuting"); m != nil {
				rets := ReturnsMatching(m, 0, `^\(P0\.counter != const:0\)$`)
				r.Cond(len(rets) == 1 && len(ReturnsMatching(m, 0, `.`)) == 1, "C45.latch", FnName(m), m.Pos(), "IsExecuting ⇔ counter ≠ 0")
			}
			_ = n
		},
	})
	witness(Witness{Prop: "C45", Name: "resume-when-first-idle", File: "pkg/generator/scheduler.go",
		Old: "\t\tif protocol.IsExecuting() {\n\t\t\tatLeastOneProtocolExecuting = true\n\t\t\tbreak\n\t\t}", New: "\t\tatLeastOneProtocolExecuting = protocol.IsExecuting()\n\t\tbreak", Rule: "C45.decision"})
	witness(Witness{Prop: "C45", Name: "latch-not-counting", File: "pkg/generator/latch.go",
		Old: "\tpl.counter++", New: "\tpl.counter = 1", Rule: "C45.latch"})
	witness(Witness{Prop: "C45", Name: "start-worker-unlocked", File: "pkg/generator/scheduler.go",
		Old: "func (s *Scheduler) resume() {\n\ts.workMutex.Lock()\n\tdefer s.workMutex.Unlock()\n", New: "func (s *Scheduler) resume() {\n", Rule: "C45.locks"})
}
