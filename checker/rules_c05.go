package main

import (
	"strings"

	"golang.org/x/tools/go/ssa"
)

func init() {
	const ev = `call:pkg/beacon/dkg\.waitForDkgResultEvent\(.*?\)#0`
	const set = `make:map\[pkg/protocol/group\.MemberIndex\]struct\{\}`
	register(&Prop{
		ID:        "C05",
		Technique: "static analysis: dominator guard facts on the fate decision's success returns, provenance of the operator list, base-consistent indexing (go/ssa)",
		Explanation: "decideMemberFate: every non-error return is dominated by bytes.Equal(own result's group public key bytes, event.GroupPublicKey) = true and by 'playerIndex ∉ set built from event.Misbehaved' (error-free event wait and key serialisation); " +
			"the returned list is built only by appending elements of Group.MemberIndexes() under 'element ∉ that same set'. ExecuteDKG consults decideMemberFate exactly on the publication-failure path, passes its result (or the local operating members) to resolveGroupOperators and returns a signer only when both succeeded. " +
			"resolveGroupOperators sorts the member ids ascending before enumerating and reads selectedOperators[id−1] (1-based id to 0-based slice), storing at the enumeration position, after checking len(selectedOperators) = GroupSize.",
		NotDecided: "event-versus-timeout ordering inside waitForDkgResultEvent (select over channels); that the chain event itself is the accepted result.",
		Fn: func(r *Run) {
			r.Rule("C05.fate-guards", "success return ⇐ same group public key ∧ own index not listed as misbehaved", 1)
			r.Rule("C05.fate-list", "returned members = Group.MemberIndexes() filtered by the event's misbehaved set", 2)
			r.Rule("C05.caller", "fate consulted only when publication failed; signer returned only when fate and operator resolution succeeded", 3)
			r.Rule("C05.operators", "sorted ascending, selectedOperators[id-1], stored at enumeration position", 4)
			fn := r.MustFn("C05.fate-guards", "pkg/beacon/dkg", "decideMemberFate")
			if fn != nil {
				for _, p := range SuccessReturns(fn) {
					r.Check("C05.fate-guards", FnName(fn)+"#return-ok", p.Ret.Pos(), p.Facts,
						`^\+call:bytes\.Equal\(call:pkg/beacon/gjkr\.Result\.GroupPublicKeyBytes\(P1\)#0, `+ev+`\.GroupPublicKey\)$|^\+call:bytes\.Equal\(`+ev+`\.GroupPublicKey, call:pkg/beacon/gjkr\.Result\.GroupPublicKeyBytes\(P1\)#0\)$`,
						`^-`+set+`\[P0\]#1$`,
						okOf(`pkg/beacon/dkg\.waitForDkgResultEvent`), okOf(`pkg/beacon/gjkr\.Result\.GroupPublicKeyBytes`))
					// provenance of the returned list
					ok := false
					for _, c := range Sites(fn, `^builtin:append$`, false) {
						if cv := callValue(c); cv != nil && derives(p.Ret.Results[0], cv) {
							ok = true
						}
					}
					r.Cond(ok, "C05.fate-list", FnName(fn)+"#return-list", p.Ret.Pos(), "returned list must be the filtered append result")
				}
				// set population
				n := 0
				EachInstr(fn, func(in ssa.Instruction) {
					if mu, ok := in.(*ssa.MapUpdate); ok && re(`^`+set+`$`).MatchString(Desc(mu.Map)) {
						n++
						r.Cond(re(`^`+ev+`\.Misbehaved\[.*\]$`).MatchString(Desc(mu.Key)), "C05.fate-list", FnName(fn)+"#misbehaved-set", in.Pos(),
							"the set must be filled from the event's Misbehaved entries; got key "+abbr(Desc(mu.Key), 1))
					}
				})
				if n == 0 {
					r.Undecided("C05.fate-list", FnName(fn)+"#misbehaved-set", "no map update building the misbehaved set")
				}
				// the filtered append
				for _, c := range Sites(fn, `^builtin:append$`, false) {
					args := c.Common().Args
					// element is stored into the varargs temp: find what is appended
					elem := appendedElems(args[1])
					if len(elem) != 1 {
						r.Fail("C05.fate-list", FnName(fn)+"#append", c.Pos(), "cannot identify appended element", nil, nil)
						continue
					}
					ed := Desc(elem[0])
					okElem := re(`^call:pkg/protocol/group\.Group\.MemberIndexes\(P1\.Group\)\[.*\]$`).MatchString(ed)
					r.Cond(okElem, "C05.fate-list", FnName(fn)+"#append/elem", c.Pos(), "appended element must come from Group.MemberIndexes(); got "+abbr(ed, 1))
					facts := Facts(c.Block())
					want := "-" + strings.ReplaceAll(set, `\`, "") + "[" + ed + "]#1"
					found := false
					for _, f := range facts {
						if f == want {
							found = true
						}
					}
					r.Cond(found, "C05.fate-list", FnName(fn)+"#append/guard", c.Pos(), "append must be dominated by 'element not in misbehaved set'")
				}
			}
			if ex := r.MustFn("C05.caller", "pkg/beacon/dkg", "ExecuteDKG"); ex != nil {
				r.CheckCalls("C05.caller", ex, `^pkg/beacon/dkg\.decideMemberFate$`, 1, `^-\(call:pkg/beacon/dkg/result\.Publish\(.*\) == nil\)$`)
				for _, c := range Sites(ex, `^pkg/beacon/dkg\.resolveGroupOperators$`, false) {
					d := Desc(c.Common().Args[1])
					ok := re(`^phi\{call:pkg/beacon/dkg\.decideMemberFate\(.*\)#0 \| call:pkg/protocol/group\.Group\.OperatingMemberIndexes\(.*\)\}$`).MatchString(d)
					r.Cond(ok, "C05.caller", FnName(ex)+"#resolveGroupOperators/members", c.Pos(), "operating members must be the fate decision's list on the failure path, the local view otherwise; got "+abbr(d, 1))
				}
				for _, p := range SuccessReturns(ex) {
					r.Check("C05.caller", FnName(ex)+"#return-signer", p.Ret.Pos(), p.Facts, okOf(`pkg/beacon/dkg\.resolveGroupOperators`))
					r.NoPathFromBranch("C05.caller", ex, `^-\(call:pkg/beacon/dkg\.decideMemberFate\(.*\)#1 == nil\)$`, 1, p.Ret, "return-signer/after-fate-error")
				}
			}
			if ro := r.MustFn("C05.operators", "pkg/beacon/dkg", "resolveGroupOperators"); ro != nil {
				sorts := Sites(ro, `^sort\.Slice$`, false)
				var stores []*ssa.Store
				EachInstr(ro, func(in ssa.Instruction) {
					if st, ok := in.(*ssa.Store); ok {
						if _, isIdx := st.Addr.(*ssa.IndexAddr); isIdx && strings.HasPrefix(Desc(st.Addr), "&make:[]pkg/chain.Address[") {
							stores = append(stores, st)
						}
					}
				})
				if len(sorts) != 1 || len(stores) != 1 {
					r.Undecided("C05.operators", FnName(ro), "expected one sort.Slice and one element store")
				} else {
					st := stores[0]
					r.Cond(InstrBefore(sorts[0], st) && Desc(sorts[0].Common().Args[0]) == "P1", "C05.operators", FnName(ro)+"#sort-first", st.Pos(), "member ids must be sorted before the enumeration")
					ia := st.Addr.(*ssa.IndexAddr)
					pos := Desc(ia.Index)
					val := Desc(st.Val)
					m := re(`^P0\[(.*)\]$`).FindStringSubmatch(val)
					okv := false
					if ld, ok := st.Val.(*ssa.UnOp); ok {
						if ia2, ok := ld.X.(*ssa.IndexAddr); ok && Desc(ia2.X) == "P0" {
							okv = Affine(ia2.Index).String() == "1*P1["+pos+"] + -1"
						}
					}
					_ = m
					r.Cond(okv, "C05.operators", FnName(ro)+"#index", st.Pos(), "element at position i must be selectedOperators[ids[i]-1]; got "+abbr(val, 2))
					r.Check("C05.operators", FnName(ro)+"#bounds", st.Pos(), Facts(st.Block()), `^\+\(P2\.GroupSize == len\(P0\)\)$|^\+\(len\(P0\) == P2\.GroupSize\)$`)
				}
				if cl := r.W.Fn("pkg/beacon/dkg", "resolveGroupOperators$1"); cl != nil {
					rets := ReturnsMatching(cl, 0, `^\(up\(P1\)\[P0\] < up\(P1\)\[P1\]\)$`)
					r.Cond(len(rets) == 1, "C05.operators", FnName(cl)+"#ascending", cl.Pos(), "comparator must order ids ascending")
				} else {
					r.Undecided("C05.operators", "resolveGroupOperators$1", "sort comparator closure not found")
				}
			}
		},
	})
}

// appendedElems: values stored into the varargs temporary passed to append.
func appendedElems(sl ssa.Value) []ssa.Value {
	var out []ssa.Value
	s, ok := sl.(*ssa.Slice)
	if !ok {
		return nil
	}
	a, ok := s.X.(*ssa.Alloc)
	if !ok {
		return nil
	}
	for _, r := range *a.Referrers() {
		if ia, ok := r.(*ssa.IndexAddr); ok {
			for _, r2 := range *ia.Referrers() {
				if st, ok := r2.(*ssa.Store); ok && st.Addr == ia {
					out = append(out, st.Val)
				}
			}
		}
	}
	return out
}
