package main

import (
	"go/token"

	"golang.org/x/tools/go/ssa"
)

// RetResults returns the values a Return yields, looking through the result
// spill slots go/ssa introduces in functions with defer: a result that is a
// load of a result Alloc is replaced by the value last stored to that Alloc
// in the same block.
func RetResults(ret *ssa.Return) []ssa.Value {
	out := make([]ssa.Value, len(ret.Results))
	for i, v := range ret.Results {
		out[i] = v
		ld, ok := v.(*ssa.UnOp)
		if !ok || ld.Op != token.MUL {
			continue
		}
		a, ok := ld.X.(*ssa.Alloc)
		if !ok {
			continue
		}
		var last ssa.Value
		for _, in := range ret.Block().Instrs {
			if in == ld {
				break
			}
			if st, ok := in.(*ssa.Store); ok && st.Addr == a {
				last = st.Val
			}
		}
		if last != nil {
			out[i] = last
		}
	}
	return out
}
