package main

import (
	"go/token"

	"golang.org/x/tools/go/ssa"
)

// RetResults returns the values a Return yields, looking through the result
// spill slots go/ssa introduces in functions with defer: a result that is a
// load of a result Alloc is replaced by the value last stored to that Alloc
// in the same block.
func RetResults(ret *ssa.Return) []ssa.Value {
	out := make([]ssa.Value, len(ret.Results))
	for i, v := range ret.Results {
		out[i] = v
		ld, ok := v.(*ssa.UnOp)
		if !ok || ld.Op != token.MUL {
			continue
		}
		a, ok := ld.X.(*ssa.Alloc)
		if !ok {
			continue
		}
		var last ssa.Value
		for _, in := range ret.Block().Instrs {
			if in == ld {
				break
			}
			if st, ok := in.(*ssa.Store); ok && st.Addr == a {
				last = st.Val
			}
		}
		if last != nil {
			out[i] = last
		}
	}
	return out
}

// deadRecover: b is the function's recover block and no deferred function
// of it can call recover(), so control never resumes there.
func deadRecover(b *ssa.BasicBlock) bool {
	fn := b.Parent()
	if fn.Recover != b {
		return false
	}
	callsRecover := false
	var visit func(f *ssa.Function, depth int)
	visit = func(f *ssa.Function, depth int) {
		if f == nil || f.Blocks == nil || depth == 0 {
			return
		}
		EachInstr(f, func(in ssa.Instruction) {
			if c, ok := in.(ssa.CallInstruction); ok {
				if bi, ok := c.Common().Value.(*ssa.Builtin); ok && bi.Name() == "recover" {
					callsRecover = true
				}
			}
		})
	}
	EachInstr(fn, func(in ssa.Instruction) {
		if d, ok := in.(*ssa.Defer); ok {
			if callee := staticCallee(d); callee != nil {
				visit(callee, 2)
			} else if !d.Call.IsInvoke() {
				if _, isBuiltin := d.Call.Value.(*ssa.Builtin); !isBuiltin {
					callsRecover = true // unknown deferred function value: be conservative
				}
			}
		}
	})
	return !callsRecover
}
