package main

import (
	"fmt"
	"os"
	"path/filepath"
	"runtime"
	"sort"
	"strings"
	"time"
)

// Witness is a negative test of the checker itself: an in-memory edit of one
// repository file (through the loader overlay; nothing is written to disk)
// that breaks one obligation. The rule must then report it.
type Witness struct {
	Prop   string
	Name   string
	File   string // relative to the repository root
	Old    string
	New    string
	Rule   string // rule expected to report
	Within string // substring expected in the construct ("" = any)
}

var witnesses []Witness

func witness(w Witness) { witnesses = append(witnesses, w) }

type witnessResult struct {
	Name   string `json:"name"`
	File   string `json:"file"`
	Rule   string `json:"rule"`
	Status string `json:"status"` // fired | missed | stale | load-error
	Detail string `json:"detail,omitempty"`
}

func runWitness(p *Prop, wt Witness) witnessResult {
	res := witnessResult{Name: wt.Name, File: wt.File, Rule: wt.Rule}
	path := filepath.Join(repoDir(), wt.File)
	src, err := os.ReadFile(path)
	if err != nil {
		res.Status, res.Detail = "stale", err.Error()
		return res
	}
	if strings.Count(string(src), wt.Old) != 1 {
		res.Status, res.Detail = "stale", fmt.Sprintf("anchor text occurs %d times", strings.Count(string(src), wt.Old))
		return res
	}
	edited := strings.Replace(string(src), wt.Old, wt.New, 1)
	w, err := LoadWorld("quick", false, map[string][]byte{path: []byte(edited)})
	if err != nil {
		res.Status, res.Detail = "load-error", err.Error()
		return res
	}
	r := &Run{ID: p.ID, Tier: "witness", start: time.Now(), W: w}
	runRules(p, r)
	for _, o := range r.Obl {
		if o.Status == "violated" && o.Rule == wt.Rule && strings.Contains(o.Construct, wt.Within) {
			res.Status = "fired"
			res.Detail = o.Construct + " at " + o.Pos
			return res
		}
	}
	res.Status = "missed"
	var other []string
	for _, o := range r.Obl {
		if o.Status != "discharged" {
			other = append(other, o.Rule+":"+o.Construct+":"+o.Status)
		}
	}
	res.Detail = "other reports: " + strings.Join(other, ", ")
	return res
}

// runWitnesses (thorough tier) applies the property's negative witnesses and
// records the outcome in the evidence. A witness is a test of the checker,
// not of keep-core: a stale or missed witness is reported, it does not turn
// into a violation of the property.
func runWitnesses(p *Prop, r *Run) {
	var results []witnessResult
	fired := 0
	for _, wt := range witnesses {
		if wt.Prop != p.ID {
			continue
		}
		res := runWitness(p, wt)
		if res.Status == "fired" {
			fired++
		} else {
			fmt.Printf("  WITNESS %s: %s %s\n", res.Name, res.Status, res.Detail)
		}
		results = append(results, res)
		locksCache = map[*ssaFunc]map[ssaInstr][]string{}
		runtime.GC()
	}
	for _, d := range seedDirs(p.ID) {
		res := runSeedWitness(p, d)
		if res.Status == "fired" {
			fired++
		} else if res.Status != "skipped" {
			fmt.Printf("  WITNESS %s: %s %s\n", res.Name, res.Status, res.Detail)
		}
		results = append(results, res)
		locksCache = map[*ssaFunc]map[ssaInstr][]string{}
		runtime.GC()
	}
	if r.Extra == nil {
		r.Extra = map[string]interface{}{}
	}
	r.Extra["negative_witnesses"] = results
	r.Extra["negative_witnesses_fired"] = fired
	// the overlay runs reset the lock cache; nothing else is shared
}

func selftest(args []string) int {
	want := map[string]bool{}
	for _, a := range args {
		want[a] = true
	}
	ids := []string{}
	for id := range props {
		if len(want) == 0 || want[id] {
			ids = append(ids, id)
		}
	}
	sort.Strings(ids)
	bad := 0
	for _, id := range ids {
		p := props[id]
		for _, wt := range witnesses {
			if wt.Prop != id {
				continue
			}
			res := runWitness(p, wt)
			fmt.Printf("%s %-40s %-8s %s\n", id, wt.Name, res.Status, res.Detail)
			if res.Status != "fired" {
				bad++
			}
			locksCache = map[*ssaFunc]map[ssaInstr][]string{}
			runtime.GC()
		}
		for _, d := range seedDirs(id) {
			res := runSeedWitness(p, d)
			fmt.Printf("%s %-40s %-8s %s\n", id, res.Name, res.Status, res.Detail)
			if res.Status != "fired" && res.Status != "skipped" {
				bad++
			}
			locksCache = map[*ssaFunc]map[ssaInstr][]string{}
			runtime.GC()
		}
	}
	if bad > 0 {
		return 1
	}
	return 0
}
