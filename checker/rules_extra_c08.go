package main

import (
	"fmt"
	"strings"

	"golang.org/x/tools/go/ssa"
)

// Added after the round-2 seeds C08-4/5/6 (all three first missed).
func init() {
	extend("C08", func(r *Run) {
		const sg = "pkg/tecdsa/signing"
		r.Rule("C08.admit", "signing states keep message data only from accepted senders of the same session", 5)
		r.Rule("C08.admit.exempt", "named exemptions", 0)
		r.Rule("C08.group-shape", "the signing protocol is run with the wallet's actual group size and dishonest threshold, and with the signer's own index and key share", 6)
		r.Rule("C08.party-lookup", "a member index is resolved to its TSS party by key, not by position", 1)
		checkAdmission(r, "C08.admit", func(rel string) bool { return rel == sg })

		// group shape
		var calls []ssa.CallInstruction
		for _, fn := range r.W.AllFuncs {
			if fn.Pkg != nil && strings.HasSuffix(fn.Pkg.Pkg.Path(), "pkg/tbtc") {
				calls = append(calls, Sites(fn, `^pkg/tecdsa/signing\.Execute$`, false)...)
			}
		}
		if len(calls) != 1 {
			r.Undecided("C08.group-shape", "pkg/tbtc#signing.Execute", fmt.Sprintf("expected one call of signing.Execute in pkg/tbtc, found %d", len(calls)))
		} else {
			c := calls[0]
			callee := staticCallee(c)
			arg := map[string]ssa.Value{}
			for i, p := range callee.Params {
				arg[p.Name()] = c.Common().Args[i]
			}
			name := FnName(c.Parent()) + "#signing.Execute"
			gs, dt := arg["groupSize"], arg["dishonestThreshold"]
			okGS := gs != nil && strings.HasPrefix(Desc(gs), "call:pkg/tbtc.wallet.groupSize(")
			r.Cond(okGS, "C08.group-shape", name+"/groupSize", c.Pos(), "group size is the wallet's own (a wallet created with excluded members is smaller than the nominal group); got "+descOr(gs))
			okDT := dt != nil && strings.HasPrefix(Desc(dt), "call:pkg/tbtc.wallet.groupDishonestThreshold(") && strings.HasSuffix(Desc(dt), ".groupParameters.HonestThreshold)")
			r.Cond(okDT, "C08.group-shape", name+"/dishonestThreshold", c.Pos(), "dishonest threshold = wallet group size − honest threshold; got "+descOr(dt))
			// both wallet calls are on the same wallet value
			if okGS && okDT {
				w1 := gs.(*ssa.Call).Call.Args[0]
				w2 := dt.(*ssa.Call).Call.Args[0]
				r.Cond(Desc(w1) == Desc(w2), "C08.group-shape", name+"/same-wallet", c.Pos(), "size and threshold come from the same wallet")
			}
			mi, ks := arg["memberIndex"], arg["privateKeyShare"]
			okSigner := mi != nil && ks != nil && strings.HasSuffix(Desc(mi), ".signingGroupMemberIndex") && strings.HasSuffix(Desc(ks), ".privateKeyShare") &&
				strings.TrimSuffix(Desc(mi), ".signingGroupMemberIndex") == strings.TrimSuffix(Desc(ks), ".privateKeyShare")
			r.Cond(okSigner, "C08.group-shape", name+"/signer", c.Pos(), "member index and key share belong to the same stored signer")
		}
		if fn := r.MustFn("C08.group-shape", "pkg/tbtc", "wallet.groupSize"); fn != nil {
			ok := false
			for _, b := range fn.Blocks {
				if ret, isRet := b.Instrs[len(b.Instrs)-1].(*ssa.Return); isRet {
					ok = Desc(ret.Results[0]) == "len(P0.signingGroupOperators)"
				}
			}
			r.Cond(ok, "C08.group-shape", FnName(fn), fn.Pos(), "wallet group size = number of signing group operators")
		}
		if fn := r.MustFn("C08.group-shape", "pkg/tbtc", "wallet.groupDishonestThreshold"); fn != nil {
			ok := false
			for _, b := range fn.Blocks {
				if ret, isRet := b.Instrs[len(b.Instrs)-1].(*ssa.Return); isRet {
					ok = Desc(ret.Results[0]) == "(call:pkg/tbtc.wallet.groupSize(P0) - P1)"
				}
			}
			r.Cond(ok, "C08.group-shape", FnName(fn), fn.Pos(), "dishonest threshold = group size − honest threshold")
		}
		if fn := r.MustFn("C08.party-lookup", "pkg/tecdsa/common", "ResolveSortedTssPartyID"); fn != nil {
			n, ok := 0, true
			for _, b := range fn.Blocks {
				if ret, isRet := b.Instrs[len(b.Instrs)-1].(*ssa.Return); isRet {
					n++
					d := Desc(ret.Results[0])
					if !(strings.HasPrefix(d, "call:github.com/bnb-chain/tss-lib/tss.SortedPartyIDs.FindByKey(call:github.com/bnb-chain/tss-lib/tss.PeerContext.IDs(call:github.com/bnb-chain/tss-lib/tss.Parameters.Parties(") &&
						strings.HasSuffix(d, ", invoke:pkg/tecdsa/common.IdentityConverter.MemberIndexToTssPartyIDKey(P2, P1))")) {
						ok = false
					}
				}
			}
			r.Cond(ok && n == 1, "C08.party-lookup", FnName(fn), fn.Pos(), "the party is found among the sorted IDs by the key derived from the member index (positions differ from indices when a lower-indexed member is absent)")
		}
	})
	witness(Witness{Prop: "C08", Name: "nominal-group-size", File: "pkg/tbtc/signing.go",
		Old: "\t\t\t\t\t\twallet.groupSize(),", New: "\t\t\t\t\t\tse.groupParameters.GroupSize,", Rule: "C08.group-shape"})
}

func descOr(v ssa.Value) string {
	if v == nil {
		return "<none>"
	}
	return abbr(Desc(v), 2)
}
