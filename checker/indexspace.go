package main

import (
	"go/token"
	"go/types"
	"sort"

	"golang.org/x/tools/go/ssa"
)

// Accum is a slice built by append in a loop: the set of SSA values (phis and
// append results) that carry it, the append calls, the collection the loop
// ranges over (Source, nil when not an index loop over a slice) and whether
// some iteration can skip the append (Filtered).
type Accum struct {
	Fn       *ssa.Function
	Vals     map[ssa.Value]bool
	Appends  []*ssa.Call
	Source   ssa.Value
	Filtered bool
	Header   *ssa.BasicBlock
}

func isAppend(v ssa.Value) *ssa.Call {
	c, ok := v.(*ssa.Call)
	if !ok {
		return nil
	}
	if b, ok := c.Call.Value.(*ssa.Builtin); ok && b.Name() == "append" && len(c.Call.Args) >= 1 {
		return c
	}
	return nil
}

func isLenOf(v ssa.Value) ssa.Value {
	c, ok := stripConv(v).(*ssa.Call)
	if !ok {
		return nil
	}
	if b, ok := c.Call.Value.(*ssa.Builtin); ok && b.Name() == "len" && len(c.Call.Args) == 1 {
		return c.Call.Args[0]
	}
	return nil
}

// Accumulations finds the loop-built slices of fn.
func Accumulations(fn *ssa.Function) []*Accum {
	parent := map[ssa.Value]ssa.Value{}
	var find func(v ssa.Value) ssa.Value
	find = func(v ssa.Value) ssa.Value {
		p, ok := parent[v]
		if !ok || p == v {
			parent[v] = v
			return v
		}
		r := find(p)
		parent[v] = r
		return r
	}
	union := func(a, b ssa.Value) { parent[find(a)] = find(b) }
	var appends []*ssa.Call
	EachInstr(fn, func(in ssa.Instruction) {
		v, ok := in.(ssa.Value)
		if !ok {
			return
		}
		if c := isAppend(v); c != nil {
			appends = append(appends, c)
			a0 := c.Call.Args[0]
			if _, isPhi := a0.(*ssa.Phi); isPhi || isAppend(a0) != nil {
				union(c, a0)
			} else {
				find(c)
			}
		}
		if phi, ok := v.(*ssa.Phi); ok {
			if _, isSlice := phi.Type().Underlying().(*types.Slice); !isSlice {
				return
			}
			for _, e := range phi.Edges {
				if _, isPhi := e.(*ssa.Phi); isPhi || isAppend(e) != nil {
					union(phi, e)
				}
			}
		}
	})
	groups := map[ssa.Value]*Accum{}
	var order []ssa.Value
	for v := range parent {
		r := find(v)
		g := groups[r]
		if g == nil {
			g = &Accum{Fn: fn, Vals: map[ssa.Value]bool{}}
			groups[r] = g
			order = append(order, r)
		}
		g.Vals[v] = true
	}
	for _, c := range appends {
		g := groups[find(c)]
		g.Appends = append(g.Appends, c)
	}
	var out []*Accum
	for _, r := range order {
		g := groups[r]
		if len(g.Appends) == 0 {
			continue
		}
		sort.Slice(g.Appends, func(i, j int) bool { return g.Appends[i].Pos() < g.Appends[j].Pos() })
		// loop header: a phi of the group in a block that some append block can reach back to
		for v := range g.Vals {
			phi, ok := v.(*ssa.Phi)
			if !ok {
				continue
			}
			h := phi.Block()
			for _, c := range g.Appends {
				if dominates(h, c.Block()) && (c.Block() == h || Reaches(c.Block(), h)) {
					if g.Header == nil || dominates(h, g.Header) {
						g.Header = h
					}
				}
			}
		}
		if g.Header != nil {
			g.Source = loopSource(g.Header)
			g.Filtered = canSkip(g.Header, g.Appends)
		}
		out = append(out, g)
	}
	sort.Slice(out, func(i, j int) bool { return out[i].Appends[0].Pos() < out[j].Appends[0].Pos() })
	return out
}

// loopSource: the slice S of a loop controlled by `idx < len(S)` at its header
// (the lowering of `for i := range S`, `for _, s := range S` and the counted form).
func loopSource(h *ssa.BasicBlock) ssa.Value {
	ifi, ok := h.Instrs[len(h.Instrs)-1].(*ssa.If)
	if !ok {
		return nil
	}
	bo, ok := ifi.Cond.(*ssa.BinOp)
	if !ok {
		return nil
	}
	switch bo.Op {
	case token.LSS:
		return isLenOf(bo.Y)
	case token.GTR:
		return isLenOf(bo.X)
	}
	return nil
}

// canSkip: some path from the loop header back to itself avoids every append block.
func canSkip(h *ssa.BasicBlock, appends []*ssa.Call) bool {
	avoid := map[*ssa.BasicBlock]bool{}
	for _, c := range appends {
		avoid[c.Block()] = true
	}
	if avoid[h] {
		return false
	}
	seen := map[*ssa.BasicBlock]bool{}
	stack := append([]*ssa.BasicBlock{}, h.Succs...)
	for len(stack) > 0 {
		b := stack[len(stack)-1]
		stack = stack[:len(stack)-1]
		if b == h {
			return true
		}
		if seen[b] || avoid[b] || !dominates(h, b) {
			continue
		}
		seen[b] = true
		stack = append(stack, b.Succs...)
	}
	return false
}

// lockStep: both accumulations append in exactly the same blocks, so they
// have the same index space.
func lockStep(a, b *Accum) bool {
	if a == b {
		return true
	}
	ba, bb := map[*ssa.BasicBlock]int{}, map[*ssa.BasicBlock]int{}
	for _, c := range a.Appends {
		ba[c.Block()]++
	}
	for _, c := range b.Appends {
		bb[c.Block()]++
	}
	if len(ba) != len(bb) {
		return false
	}
	for k, n := range ba {
		if bb[k] != n {
			return false
		}
	}
	return true
}

type IndexUse struct {
	Instr ssa.Instruction
	Base  ssa.Value
	Index ssa.Value
	Over  *Accum // the accumulation whose length bounds the index
}

// IndexUsesOver finds index expressions whose index is bounded above by
// len(A) for an accumulation A of the function.
func IndexUsesOver(fn *ssa.Function, accs []*Accum) []IndexUse {
	var out []IndexUse
	of := func(v ssa.Value) *Accum {
		for _, a := range accs {
			if a.Vals[v] {
				return a
			}
		}
		return nil
	}
	EachInstr(fn, func(in ssa.Instruction) {
		var base, idx ssa.Value
		switch x := in.(type) {
		case *ssa.IndexAddr:
			base, idx = x.X, x.Index
		case *ssa.Index:
			base, idx = x.X, x.Index
		default:
			return
		}
		for _, g := range CmpGuards(in.Block()) {
			if !g.Strict || stripConv(g.Lo) != stripConv(idx) {
				continue
			}
			if s := isLenOf(g.Hi); s != nil {
				if a := of(s); a != nil {
					out = append(out, IndexUse{in, base, idx, a})
				}
			}
		}
	})
	return out
}

func sameValue(a, b ssa.Value) bool {
	if a == nil || b == nil {
		return false
	}
	return a == b || Desc(a) == Desc(b)
}
