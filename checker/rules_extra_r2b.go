package main

import (
	"fmt"
	"strings"

	"golang.org/x/tools/go/ssa"
)

// Rules added after round-2 seeds C35-4/5, C36-6, C38-4/6, C40-5, C42-4/6.

// cancelOnEveryExit: the goroutine started by withCancelOnBlock cancels the
// derived context on every exit.
func cancelOnEveryExit(r *Run, rule string) {
	fn := r.MustFn(rule, "pkg/tbtc", "withCancelOnBlock")
	if fn == nil {
		return
	}
	ok := false
	for _, a := range fn.AnonFuncs {
		if len(a.Blocks) == 0 {
			continue
		}
		for _, in := range a.Blocks[0].Instrs {
			if d, isD := in.(*ssa.Defer); isD && typeName(d.Call.Value.Type()) == "context.CancelFunc" {
				ok = true
			}
			if c, isC := in.(*ssa.Call); isC && strings.HasPrefix(CalleeName(c), "dyn") && typeName(c.Call.Value.Type()) != "context.CancelFunc" {
				break
			}
		}
		if !ok {
			all, n := true, 0
			for _, b := range a.Blocks {
				if _, isRet := b.Instrs[len(b.Instrs)-1].(*ssa.Return); !isRet {
					continue
				}
				n++
				found := false
				for _, c := range Sites(a, `^dyn`, false) {
					if typeName(c.Common().Value.Type()) == "context.CancelFunc" && dominates(c.Block(), b) {
						found = true
					}
				}
				if !found {
					all = false
				}
			}
			ok = all && n > 0
		}
	}
	r.Cond(ok, rule, FnName(fn), fn.Pos(), "the goroutine cancels the derived context on every exit (deferred, or called before each return), also when waiting for the block fails")
}

// errorsPropagate: in fn, for every call whose last result is an error that is
// tested, the branch on which the error is non-nil leaves fn with a non-nil
// error (it is not swallowed into a success result).
func errorsPropagate(r *Run, rule string, fn *ssa.Function, calleePat string) {
	n := 0
	for _, c := range Sites(fn, calleePat, false) {
		call, ok := c.(*ssa.Call)
		if !ok {
			continue
		}
		n++
		bad := false
		for _, p := range SuccessReturns(fn) {
			// a success return reachable with this call's error known to be non-nil
			for _, f := range p.Facts {
				if strings.HasPrefix(f, "-("+Desc(call)+"#") && strings.HasSuffix(f, " == nil)") {
					bad = true
					r.Fail(rule, FnName(fn)+"#"+shortCallee(c), p.Ret.Pos(), "a failed "+shortCallee(c)+" is turned into a success result", nil, []string{f})
				}
			}
		}
		// and success returns after the call need its ok fact
		for _, p := range SuccessReturns(fn) {
			if dominates(call.Block(), p.Ret.Block()) && !HasFact(p.Facts, `^\+\(`+q(Desc(call))+`#\d == nil\)$`) {
				bad = true
				r.Fail(rule, FnName(fn)+"#"+shortCallee(c), p.Ret.Pos(), "success is reported although the result of "+shortCallee(c)+" was not established to be error-free", nil, nil)
			}
		}
		// the error result is looked at at all (not overwritten by a later call before any test)
		tested := false
		nres := call.Call.Signature().Results().Len()
		for _, ref := range *call.Referrers() {
			ex, isEx := ref.(*ssa.Extract)
			if !isEx || ex.Index != nres-1 {
				continue
			}
			for _, r2 := range *ex.Referrers() {
				if bo, isB := r2.(*ssa.BinOp); isB && (isNilConst(bo.X) || isNilConst(bo.Y)) {
					tested = true
				}
				if _, isPhi := r2.(*ssa.Phi); isPhi {
					tested = true // flows into a merged error value that is tested later
				}
				if _, isRet := r2.(*ssa.Return); isRet {
					tested = true
				}
			}
		}
		if !tested {
			bad = true
			r.Fail(rule, FnName(fn)+"#"+shortCallee(c), c.Pos(), "the error result of "+shortCallee(c)+" is never tested (it is dropped or overwritten before any check)", nil, nil)
		}
		if !bad {
			r.Ok(rule, FnName(fn)+"#"+shortCallee(c), c.Pos(), "an error of this call fails the function")
		}
	}
	if n == 0 {
		r.Undecided(rule, FnName(fn), "no call matching "+calleePat)
	}
}

func init() {
	extend("C35", func(r *Run) {
		r.Rule("C35.timeout-arg", "the done check listens with the attempt's own timeout block", 1)
		r.Rule("C35.attempt-context", "the attempt's context ends with the attempt on every path", 1)
		if fn := r.MustFn("C35.timeout-arg", "pkg/tbtc", "signingRetryLoop.start"); fn != nil {
			ls := Sites(fn, `pkg/tbtc\.signingDoneCheck(Strategy)?\.listen$`, false)
			// the timeout block of the attempt as handed to the attempt function
			m, _ := complitFields(fn, "pkg/tbtc.signingAttemptParams")
			tb := m["timeoutBlock"]
			ok := len(ls) == 1 && tb != nil
			if ok {
				// the uint64 arguments of listen are (attemptNumber, attemptTimeoutBlock): the second one is the timeout
				var u64 []ssa.Value
				for _, a := range ls[0].Common().Args {
					if typeName(a.Type()) == "uint64" {
						u64 = append(u64, a)
					}
				}
				ok = len(u64) == 2 && u64[1] == tb
			}
			r.Cond(ok, "C35.timeout-arg", FnName(fn), fn.Pos(), "listen(…, attemptTimeoutBlock) receives the very timeoutBlock value of the attempt's parameters")
		}
		cancelOnEveryExit(r, "C35.attempt-context")
	})
	extend("C36", func(r *Run) {
		r.Rule("C36.unstaking-errors", "a failed stake query never reads as 'not unstaking'", 2)
		if fn := r.MustFn("C36.unstaking-errors", "pkg/tbtc", "heartbeatAction.isOperatorUnstaking"); fn != nil {
			errorsPropagate(r, "C36.unstaking-errors", fn, `^invoke:pkg/tbtc\.\w+\.(EligibleStake|OperatorToStakingProvider|IsOperatorInPool)$`)
		}
	})
	extend("C38", func(r *Run) {
		r.Rule("C38.key-codec", "the wallet public key is written and read with the matching fixed-width codec", 2)
		r.Rule("C38.no-partial-load", "a membership is handed on only when its file was read and decoded without error", 1)
		keyCodecRule(r, "C38.key-codec")
		if fn := r.MustFn("C38.no-partial-load", "pkg/beacon/registry", "persistentStorage.readAll"); fn != nil {
			n := 0
			for _, a := range fn.AnonFuncs {
				EachInstr(a, func(in ssa.Instruction) {
					snd, ok := in.(*ssa.Send)
					if !ok || !strings.HasSuffix(typeName(snd.X.Type()), "registry.Membership") {
						return
					}
					n++
					r.Check("C38.no-partial-load", FnName(a)+"#send", in.Pos(), Facts(in.Block()),
						okOf(`github\.com/keep-network/keep-common/pkg/persistence\.DataDescriptor\.Content`), okOf(`pkg/beacon/registry\.Membership\.Unmarshal`))
				})
			}
			if n == 0 {
				r.Undecided("C38.no-partial-load", FnName(fn), "membership send not found")
			}
		}
	})
	extend("C40", func(r *Run) {
		r.Rule("C40.unique", "the claim's inactive member indices are de-duplicated through a set before sorting", 1)
		if fn := r.MustFn("C40.unique", "pkg/protocol/inactivity", "NewClaimPreimage"); fn != nil {
			ok := false
			for _, ap := range appendsIn(fn) {
				e := appendedElem(ap)
				if e == nil {
					continue
				}
				el := Desc(e)
				// guarded by "not yet in the set", and the set gets the element in the same block
				inSet := false
				for _, in := range ap.Block().Instrs {
					if mu, isMU := in.(*ssa.MapUpdate); isMU && Desc(mu.Key) == el {
						inSet = HasFact(Facts(ap.Block()), `^-`+q(Desc(mu.Map))+`\[`+q(el)+`\]#1$`)
					}
				}
				if inSet && strings.HasPrefix(el, "P2[") {
					ok = true
				}
			}
			r.Cond(ok, "C40.unique", FnName(fn), fn.Pos(), "an index is appended only when the set does not hold it yet, and is put into the set at once (the contract rejects duplicates)")
		}
	})
	extend("C42", func(r *Run) {
		r.Rule("C42.fresh-view", "every check consults the chain itself, and the lock status is read after the last chain write of the check", 2)
		if fn := r.MustFn("C42.fresh-view", "pkg/sortition", "MonitorPool"); fn != nil {
			n := 0
			for _, f := range allClosures(fn) {
				for _, c := range Sites(f, `^pkg/sortition\.checkOperatorStatus$`, false) {
					n++
					d := Desc(c.Common().Args[len(c.Common().Args)-1])
					okArg := false
					for _, a := range c.Common().Args {
						if ad := Desc(a); strings.HasSuffix(typeName(a.Type()), "sortition.Chain") && (ad == "P2" || ad == "up(P2)" || strings.HasPrefix(ad, "P") || strings.HasPrefix(ad, "up(P")) && !strings.Contains(ad, "call:") && !strings.Contains(ad, "local:") {
							okArg = true
						}
					}
					r.Cond(okArg, "C42.fresh-view", FnName(f)+"#chain", c.Pos(), "checkOperatorStatus gets MonitorPool's chain handle itself (no remembering wrapper); last arg "+abbr(d, 2))
				}
			}
			if n == 0 {
				r.Undecided("C42.fresh-view", FnName(fn), "call of checkOperatorStatus not found")
			}
		}
		if fn := r.MustFn("C42.fresh-view", "pkg/sortition", "checkOperatorStatus"); fn != nil {
			locks := Sites(fn, `^invoke:pkg/sortition\.Chain\.IsPoolLocked$`, false)
			rew := Sites(fn, `^pkg/sortition\.checkRewardsEligibility$`, false)
			ok := len(locks) == 1 && len(rew) == 1
			if ok {
				lb, rb := locks[0].Block(), rew[0].Block()
				if lb == rb {
					ok = InstrBefore(rew[0].(ssa.Instruction), locks[0].(ssa.Instruction))
				} else {
					ok = !Reaches(lb, rb) // the restore step can never follow the lock query
				}
			}
			r.Cond(ok, "C42.fresh-view", FnName(fn)+"#lock-after-restore", fn.Pos(), fmt.Sprintf("IsPoolLocked is queried after checkRewardsEligibility (which may wait for a transaction) — found %d/%d", len(locks), len(rew)))
		}
	})
	witness(Witness{Prop: "C42", Name: "lock-status-read-early", File: "pkg/sortition/sortition.go",
		Old: "\tif isOperatorInPool {\n\t\tlogger.Info(\"operator is in the sortition pool\")\n", New: "\tisLockedEarly, err := chain.IsPoolLocked()\n\tif err != nil || isLockedEarly {\n\t\treturn err\n\t}\n\tif isOperatorInPool {\n\t\tlogger.Info(\"operator is in the sortition pool\")\n", Rule: "C42.fresh-view"})
}

// keyCodecRule: the wallet public key is written with elliptic.Marshal and read
// with elliptic.Unmarshal on the same curve (fixed-width, mutually inverse).
func keyCodecRule(r *Run, rule string) {
	if fn := r.MustFn(rule, "pkg/tbtc", "marshalPublicKey"); fn != nil {
		ok := false
		for _, p := range SuccessReturns(fn) {
			d := Desc(RetResults(p.Ret)[0])
			ok = d == "call:crypto/elliptic.Marshal(*global:pkg/tecdsa.Curve, P0.X, P0.Y)" || d == "call:crypto/elliptic.Marshal(P0.Curve, P0.X, P0.Y)"
		}
		r.Cond(ok, rule, FnName(fn), fn.Pos(), "elliptic.Marshal(tecdsa.Curve, X, Y) (fixed-width uncompressed encoding)")
	}
	if fn := r.MustFn(rule, "pkg/tbtc", "unmarshalPublicKey"); fn != nil {
		cs := Sites(fn, `^crypto/elliptic\.Unmarshal$`, false)
		ok := len(cs) == 1 && Desc(cs[0].Common().Args[0]) == "*global:pkg/tecdsa.Curve" && Desc(cs[0].Common().Args[1]) == "P0"
		r.Cond(ok, rule, FnName(fn), fn.Pos(), "elliptic.Unmarshal(tecdsa.Curve, bytes): the inverse of the writer")
	}
}
