package main

import (
	"bufio"
	"encoding/json"
	"fmt"
	"os"
	"path/filepath"
	"sort"
)

var notApplicable = map[string]string{
	"C32": "Minimality and sufficiency of the required confirmations is big-integer arithmetic over runtime difficulties; no sound static argument in reach bounds it.",
}

const pendingReason = "No static rule is registered for this property in the current checker build (planned in DESIGN.md section 3; not claimed until its rule exists and is silent on the pinned tree)."

func allPropertyIDs() []string {
	f, err := os.Open(filepath.Join(verifRoot(), "properties.jsonl"))
	if err != nil {
		return nil
	}
	defer f.Close()
	var ids []string
	sc := bufio.NewScanner(f)
	sc.Buffer(make([]byte, 1<<20), 1<<22)
	for sc.Scan() {
		var p struct {
			ID string `json:"id"`
		}
		if json.Unmarshal(sc.Bytes(), &p) == nil && p.ID != "" {
			ids = append(ids, p.ID)
		}
	}
	sort.Strings(ids)
	return ids
}

func writeManifest() {
	env := "GOFLAGS=-mod=mod GOPROXY=off GOSUMDB=off GOTOOLCHAIN=local GOWORK=off"
	m := map[string]interface{}{
		"version":   1,
		"setup_cmd": "mkdir -p bin && (cd checker && " + env + " go build -o ../bin/kcverif .) && (cd /repo && " + env + " go build ./... )",
		"hooks": map[string]interface{}{
			"guard":            "verif",
			"enable":           "not used: every check is a static analysis of the source; /repo is never built with a tag by the checks",
			"baseline_off_cmd": "cd /repo && go test -mod=mod -vet=off -count=1 -timeout 25m ./...",
			"source_commits":   []string{},
			"add_only":         true,
		},
		"engines": []map[string]interface{}{{
			"name": "kcverif", "path": "checker/",
			"kind_free_text":    "repository-specific static analyser over go/packages + go/types + go/ssa (dominator-based guard facts, bool/err wrapper summaries, must-hold locksets, provenance descriptions, constant evaluation); no keep-core code is executed",
			"serves_properties": claimedIDs(),
		}},
		"notes": "All claims are level 'other': each check decides a named structural clause that is a necessary condition of the property, for every path/site of the current source, and its evidence says what is not decided. See DESIGN.md.",
	}
	var checks []map[string]interface{}
	for _, id := range claimedIDs() {
		p := props[id]
		checks = append(checks, map[string]interface{}{
			"property_id":         id,
			"quick_cmd":           "./check " + id + " quick",
			"thorough_cmd":        "./check " + id + " thorough",
			"evidence_file":       "/verif/evidence/" + id + ".json",
			"replay_cmd_template": "bin/kcverif explain {path}",
			"engine":              "kcverif",
			"technique":           techniqueOf(p),
			"level_claimed": map[string]interface{}{
				"category":   "other",
				"text":       p.Explanation + " Not decided: " + p.NotDecided,
				"design_ref": "DESIGN.md section 3, " + id,
			},
			"level_note": "Trusted: go/types, x/tools go/ssa and its dominator tree, the rule tables in checker/. Library behaviour (tss-lib, btcd, go-ethereum, libp2p, keep-common) is assumed as documented. The check decides the stated structural clause only.",
		})
	}
	m["checks"] = checks
	na := []map[string]string{}
	for _, id := range allPropertyIDs() {
		if props[id] != nil {
			continue
		}
		reason, ok := notApplicable[id]
		if !ok {
			reason = pendingReason
		}
		na = append(na, map[string]string{"property_id": id, "reason": reason})
	}
	m["not_applicable"] = na
	writeJSON(filepath.Join(verifRoot(), "MANIFEST.json"), m)
	fmt.Printf("MANIFEST.json: %d claimed, %d not applicable\n", len(checks), len(na))
}

func claimedIDs() []string {
	ids := make([]string, 0, len(props))
	for id := range props {
		ids = append(ids, id)
	}
	sort.Strings(ids)
	return ids
}

func techniqueOf(p *Prop) string {
	if p.Technique != "" {
		return p.Technique
	}
	return "static analysis: dominator-based guard facts and wrapper summaries over go/ssa"
}
