package main

import (
	"regexp"
	"strings"

	"golang.org/x/tools/go/ssa"
)

// C44.networks-after-decode (added after a sub-agent observed the behaviour on
// the unchanged tree while seeding): unmarshalConfig writes every field the
// configuration file mentions — the two network fields included — so the
// assignment of the networks from the command-line selection has the last word
// only if it happens after the decoding. Otherwise a file containing
// `[ethereum] Network = 1` together with --testnet leaves the client on the
// Ethereum mainnet and the Bitcoin testnet.
func init() {
	extend("C44", func(r *Run) {
		r.Rule("C44.networks-after-decode", "both network fields are assigned from the selected network after the configuration has been decoded into the struct", 2)
		fn := r.MustFn("C44.networks-after-decode", "config", "Config.ReadConfig")
		if fn == nil {
			return
		}
		unm := Sites(fn, `^config\.unmarshalConfig$`, false)
		if len(unm) != 1 {
			r.Undecided("C44.networks-after-decode", FnName(fn), "expected one unmarshalConfig call")
			return
		}
		want := map[string]*regexp.Regexp{
			"Ethereum.Network": regexp.MustCompile(`^call:config/network\.Type\.Ethereum\(`),
			"Bitcoin.Network":  regexp.MustCompile(`^call:config/network\.Type\.Bitcoin\(`),
		}
		// assignments visible from ReadConfig: direct stores, or calls of a method that stores them
		type assign struct {
			at    ssa.Instruction
			field string
		}
		var as []assign
		collect := func(f *ssa.Function, at ssa.Instruction) {
			EachInstr(f, func(in ssa.Instruction) {
				st, ok := in.(*ssa.Store)
				if !ok {
					return
				}
				d := Desc(st.Addr)
				for fld, rx := range want {
					if d == "&P0."+fld && rx.MatchString(Desc(st.Val)) {
						if at != nil {
							as = append(as, assign{at, fld})
						} else {
							as = append(as, assign{in, fld})
						}
					}
				}
			})
		}
		collect(fn, nil)
		EachInstr(fn, func(in ssa.Instruction) {
			if c, ok := in.(*ssa.Call); ok {
				if callee := staticCallee(c); callee != nil && strings.HasPrefix(FnName(callee), "config.Config.") && len(c.Call.Args) > 0 && Desc(c.Call.Args[0]) == "P0" {
					collect(callee, in)
				}
			}
		})
		for fld := range want {
			ok := false
			for _, a := range as {
				if a.field != fld {
					continue
				}
				// after the decode: the decode call's block dominates the assignment and precedes it
				ub, ab := unm[0].Block(), a.at.Block()
				if (ub == ab && InstrBefore(unm[0].(ssa.Instruction), a.at)) || (ub != ab && dominates(ub, ab)) {
					ok = true
				}
			}
			r.Cond(ok, "C44.networks-after-decode", FnName(fn)+"#"+fld, unm[0].Pos(), "Config."+fld+" is (re)assigned from the selected network after unmarshalConfig; otherwise a value in the configuration file overrides it for one chain only")
		}
	})
}

func init() {
	witness(Witness{Prop: "C44", Name: "networks-assigned-before-decode-only", File: "config/config.go",
		Old: "\tif flagSet != nil {\n\t\tc.Ethereum.Network = clientNetwork.Ethereum()\n\t\tc.Bitcoin.Network = clientNetwork.Bitcoin()\n\t}\n", New: "", Rule: "C44.networks-after-decode"})
}
