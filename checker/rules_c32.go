package main

import (
	"fmt"
	"go/token"
	"strings"

	"golang.org/x/tools/go/ssa"
)

func init() {
	const sp = "pkg/maintainer/spv"
	register(&Prop{
		ID:        "C32",
		Technique: "static analysis: exhaustive enumeration of the return paths of the loop-free getProofInfo with their dominating facts (classification), and expression provenance of the required-confirmations value (go/ssa)",
		Explanation: "getProofInfo is loop-free. Decided for every path: " +
			"(1) classification — with start = latest − confirmations + 1, end = start + factor − 1 and epoch(x) = x / difficultyEpochLength: the proof is reported in range with factor required confirmations exactly on the paths where start and end epochs are both the relay's current epoch or both the previous one (current − 1); the adjusted count is computed exactly where the start epoch is the previous and the end epoch the current one; every other combination returns (false, 0, 0); every result is returned only after all chain queries succeeded; " +
			"(2) the adjusted count is nPrev + q where nPrev = epochLength − start mod epochLength, q = ⌈(prevDifficulty·factor − nPrev·prevDifficulty) / currentDifficulty⌉ computed as DivMod plus one exactly when the remainder is positive — the least q with nPrev·prev + q·cur ≥ factor·prev.",
		NotDecided: "arithmetic overflow of the uint64/uint conversions for absurd inputs, and that the relay's notion of epochs matches Bitcoin's; the ceil-division identity itself is elementary and is matched structurally, not proved.",
		Fn: func(r *Run) {
			r.Rule("C32.classification", "in-range results exactly for (cur,cur), (prev,prev) and (prev,cur); otherwise (false,0,0); only after all queries succeeded", 4)
			r.Rule("C32.formula", "required = nPrev + ceil((prev·factor − nPrev·prev)/cur)", 5)
			fn := r.MustFn("C32.classification", sp, "getProofInfo")
			if fn == nil {
				return
			}
			name := FnName(fn)
			epochLen := r.PkgConst("C32.classification", sp, "difficultyEpochLength")
			latest := "invoke:pkg/bitcoin.Chain.GetLatestBlockHeight(P1)#0"
			conf := "invoke:pkg/bitcoin.Chain.GetTransactionConfirmations(P1, P0)#0"
			factor := "invoke:pkg/maintainer/spv.Chain.TxProofDifficultyFactor(P2)#0"
			cur := "invoke:pkg/maintainer/btcdiff.Chain.CurrentEpoch(P3)#0"
			start := "conv:uint64(((" + latest + " - " + conf + ") + const:1))"
			end := "((" + start + " + call:math/big.Int.Uint64(" + factor + ")) - const:1)"
			ep := func(x string) string { return "(" + x + " / const:" + epochLen + ")" }
			prev := "(" + cur + " - const:1)"
			eq := func(a, b string) string { return `^\+\(` + q(a) + ` == ` + q(b) + `\)$` }
			oks := []string{okOf(`pkg/bitcoin\.Chain\.GetLatestBlockHeight`), okOf(`pkg/bitcoin\.Chain\.GetTransactionConfirmations`), okOf(`pkg/maintainer/spv\.Chain\.TxProofDifficultyFactor`), okOf(`pkg/maintainer/btcdiff\.Chain\.CurrentEpoch`)}
			plain := "conv:uint(call:math/big.Int.Uint64(" + factor + "))"
			nCur, nPrev, nCross, nOut := 0, 0, 0, 0
			var crossRet *ssa.Return
			for _, b := range fn.Blocks {
				ret, ok := b.Instrs[len(b.Instrs)-1].(*ssa.Return)
				if !ok {
					continue
				}
				res := RetResults(ret)
				if !isNilConst(res[3]) {
					// failure: nothing claimed
					r.Cond(Desc(res[0]) == "const:false", "C32.classification", name+"#failure", ret.Pos(), "a failed query never reports the proof in range")
					continue
				}
				facts := Facts(b)
				miss := MissingFacts(facts, oks...)
				inRange, _ := constBool(res[0])
				switch {
				case !inRange:
					nOut++
					r.Cond(len(miss) == 0 && Desc(res[1]) == "const:0" && Desc(res[2]) == "const:0", "C32.classification", name+"#out-of-range", ret.Pos(), "out-of-range result is (false, 0, 0) after all queries succeeded")
					// reached only when none of the three combinations held: no positive epoch pair fact
					bad := HasFact(facts, eq(ep(start), cur)) && HasFact(facts, eq(ep(end), cur))
					r.Cond(!bad, "C32.classification", name+"#out-of-range/exclusive", ret.Pos(), "not reachable when the proof lies within the current epoch")
				case Desc(res[2]) == plain:
					both := func(e string) bool { return HasFact(facts, eq(ep(start), e)) && HasFact(facts, eq(ep(end), e)) }
					switch {
					case both(cur):
						nCur++
					case both(prev):
						nPrev++
					default:
						r.Fail("C32.classification", name+"#unadjusted", ret.Pos(), "the unadjusted factor is returned on a path where start and end epochs are not both current or both previous", nil, abbrAll(facts, 2))
						continue
					}
					r.Cond(len(miss) == 0 && Desc(res[1]) == conf, "C32.classification", name+"#unadjusted", ret.Pos(), "in range: accumulated confirmations as queried, required = factor")
				default:
					nCross++
					crossRet = ret
					ok := HasFact(facts, eq(ep(start), prev)) && HasFact(facts, eq(ep(end), cur)) && len(miss) == 0 && Desc(res[1]) == conf &&
						HasFact(facts, okOf(`pkg/maintainer/btcdiff\.Chain\.GetCurrentAndPrevEpochDifficulty`))
					r.Cond(ok, "C32.classification", name+"#adjusted", ret.Pos(), "the adjusted count is returned exactly under start epoch = previous ∧ end epoch = current, with the difficulties fetched")
				}
			}
			r.Cond(nCur == 1 && nPrev == 1 && nCross == 1 && nOut == 1, "C32.classification", name+"#paths", fn.Pos(), fmt.Sprintf("one result path per case (current %d, previous %d, crossing %d, outside %d)", nCur, nPrev, nCross, nOut))
			if crossRet == nil {
				return
			}
			// ---- formula
			diffs := "invoke:pkg/maintainer/btcdiff.Chain.GetCurrentAndPrevEpochDifficulty(P3)"
			curD, prevD := diffs+"#0", diffs+"#1"
			nPrevE := "(const:" + epochLen + " - (" + start + " % const:" + epochLen + "))"
			// the value is matched node by node (descriptions of deep trees are elided)
			argsOf := func(v ssa.Value, callee string) []ssa.Value {
				if ex, ok := v.(*ssa.Extract); ok {
					v = ex.Tuple
				}
				c, ok := v.(*ssa.Call)
				if !ok || CalleeName(c) != callee {
					return nil
				}
				return c.Call.Args
			}
			var divCall ssa.Value
			okF, why := false, ""
			func() {
				cv, ok := RetResults(crossRet)[2].(*ssa.Convert)
				if !ok {
					why = "result is not a conversion of a sum"
					return
				}
				sum, ok := cv.X.(*ssa.BinOp)
				if !ok || sum.Op != token.ADD {
					why = "result is not nPrev + quotient"
					return
				}
				nPrevV := sum.X
				if Desc(nPrevV) != nPrevE {
					why = "first summand is not epochLength − start mod epochLength: " + abbr(Desc(nPrevV), 3)
					return
				}
				qa := argsOf(sum.Y, "math/big.Int.Uint64")
				if qa == nil {
					why = "second summand is not quotient.Uint64()"
					return
				}
				ex, ok := qa[0].(*ssa.Extract)
				if !ok || ex.Index != 0 {
					why = "quotient is not DivMod's first result"
					return
				}
				da := argsOf(ex, "math/big.Int.DivMod")
				if da == nil || Desc(da[2]) != curD {
					why = "quotient is not DivMod(…, current epoch difficulty, …)"
					return
				}
				divCall = ex.Tuple
				sa := argsOf(da[1], "math/big.Int.Sub")
				if sa == nil {
					why = "dividend is not a difference"
					return
				}
				ta := argsOf(sa[1], "math/big.Int.Mul")
				pa := argsOf(sa[2], "math/big.Int.Mul")
				if ta == nil || pa == nil {
					why = "dividend is not (product − product)"
					return
				}
				mulOf := func(a []ssa.Value, x, y string) bool {
					return (Desc(a[1]) == x && Desc(a[2]) == y) || (Desc(a[1]) == y && Desc(a[2]) == x)
				}
				if !mulOf(ta, prevD, factor) {
					why = "total required difficulty is not previous difficulty × factor"
					return
				}
				np := "call:math/big.NewInt(conv:int64(" + nPrevE + "))"
				if !mulOf(pa, np, prevD) {
					why = "previous-epoch part is not nPrev × previous difficulty: " + abbr(Desc(pa[1]), 2) + " × " + abbr(Desc(pa[2]), 2)
					return
				}
				okF = true
			}()
			r.Cond(okF, "C32.formula", name+"#required", crossRet.Pos(), "required = nPrev + (prev·factor − nPrev·prev) div cur [+1] "+why)
			// the +1 exactly under remainder > 0, applied to the quotient in place, and nothing else touches the quotient
			isPart := func(v ssa.Value, idx int) bool {
				ex, ok := v.(*ssa.Extract)
				return ok && divCall != nil && ex.Tuple == divCall && ex.Index == idx
			}
			adds := Sites(fn, `^math/big\.Int\.Add$`, false)
			okAdd := len(adds) == 1
			if okAdd {
				a := adds[0].Common().Args
				okAdd = isPart(a[0], 0) && isPart(a[1], 0) && Desc(a[2]) == "call:math/big.NewInt(const:1)"
				// guarded by remainder.Cmp(0) > 0, and by nothing more than the return itself
				nG, okG := 0, false
				for _, g := range RawGuards(adds[0].Block()) {
					nG++
					bo, isB := g.Cond.(*ssa.BinOp)
					if !isB || !g.Pol {
						continue
					}
					var cmp ssa.Value
					switch {
					case bo.Op == token.GTR:
						if k, isC := constInt(bo.Y); isC && k == 0 {
							cmp = bo.X
						}
					case bo.Op == token.LSS:
						if k, isC := constInt(bo.X); isC && k == 0 {
							cmp = bo.Y
						}
					}
					if ca := argsOf(cmp, "math/big.Int.Cmp"); ca != nil && isPart(ca[0], 1) && Desc(ca[1]) == "call:math/big.NewInt(const:0)" {
						okG = true
					}
				}
				okAdd = okAdd && okG && nG == len(RawGuards(crossRet.Block()))+1
			}
			r.Cond(okAdd, "C32.formula", name+"#round-up", fn.Pos(), "one more block exactly when the division leaves a positive remainder")
			muts := 0
			EachInstr(fn, func(in ssa.Instruction) {
				if c, ok := in.(*ssa.Call); ok && strings.HasPrefix(CalleeName(c), "math/big.Int.") && len(c.Call.Args) > 0 && isPart(c.Call.Args[0], 0) {
					switch CalleeName(c) {
					case "math/big.Int.Uint64", "math/big.Int.Cmp", "math/big.Int.Sign":
					default:
						muts++
					}
				}
			})
			r.Cond(muts == 1, "C32.formula", name+"#quotient-untouched", fn.Pos(), fmt.Sprintf("the quotient is modified only by the round-up (%d modifying call(s))", muts))
			// DivMod's remainder receiver is distinct from the quotient receiver (aliasing would corrupt both)
			for _, c := range Sites(fn, `^math/big\.Int\.DivMod$`, false) {
				a := c.Common().Args
				r.Cond(a[0] != a[3], "C32.formula", name+"#divmod-receivers", c.Pos(), "quotient and remainder use different big.Int objects")
			}
			// start/end/epoch definitions are the ones the classification facts were matched with (sanity of the templates)
			r.Cond(epochLen == "2016", "C32.formula", sp+".difficultyEpochLength", fn.Pos(), "Bitcoin's difficulty epoch length")
		},
	})
	witness(Witness{Prop: "C32", Name: "no-round-up", File: "pkg/maintainer/spv/spv.go",
		Old: "\t\tif remainder.Cmp(big.NewInt(0)) > 0 {", New: "\t\tif remainder.Cmp(big.NewInt(0)) < 0 {", Rule: "C32.formula"})
	witness(Witness{Prop: "C32", Name: "previous-epoch-misclassified", File: "pkg/maintainer/spv/spv.go",
		Old: "\tif proofStartEpoch == previousEpoch &&\n\t\tproofEndEpoch == previousEpoch {", New: "\tif proofStartEpoch == previousEpoch ||\n\t\tproofEndEpoch == previousEpoch {", Rule: "C32.classification"})
	witness(Witness{Prop: "C32", Name: "total-from-current-difficulty", File: "pkg/maintainer/spv/spv.go",
		Old: "\t\ttotalDifficultyRequired := new(big.Int).Mul(\n\t\t\tpreviousEpochDifficulty,", New: "\t\ttotalDifficultyRequired := new(big.Int).Mul(\n\t\t\tcurrentEpochDifficulty,", Rule: "C32.formula"})
}

// firstDiff shows where two descriptions start to differ (for reports).
func firstDiff(got, want string) string {
	if got == want {
		return "as expected"
	}
	i := 0
	for i < len(got) && i < len(want) && got[i] == want[i] {
		i++
	}
	lo := i - 30
	if lo < 0 {
		lo = 0
	}
	g, w := got[lo:], want[lo:]
	if len(g) > 120 {
		g = g[:120]
	}
	if len(w) > 120 {
		w = w[:120]
	}
	return "differs at …" + g + " ≠ …" + w
}
