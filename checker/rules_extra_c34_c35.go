package main

import (
	"go/token"
	"strings"

	"golang.org/x/tools/go/ssa"
)

// Rules added after seeded changes were missed (C34-1, C35-3).

func init() {
	extend("C34", func(r *Run) {
		r.Rule("C34.full-history", "the main UTXO is searched in the wallet's whole transaction history (newest to oldest, down to index 0) and in every output of each transaction; 'not found' only after the search is exhausted", 3)
		fn := r.MustFn("C34.full-history", "pkg/tbtc", "DetermineWalletMainUtxo")
		if fn == nil {
			return
		}
		name := FnName(fn)
		hist := "invoke:pkg/bitcoin.Chain.GetTxHashesForPublicKeyHash(P2, P0)#0"
		var outer *Loop
		for _, l := range Loops(fn) {
			ifi, ok := l.Header.Instrs[len(l.Header.Instrs)-1].(*ssa.If)
			if !ok {
				continue
			}
			bo, ok := ifi.Cond.(*ssa.BinOp)
			if !ok {
				continue
			}
			phi, ok := bo.X.(*ssa.Phi)
			if !ok || phi.Block() != l.Header || len(phi.Edges) != 2 {
				continue
			}
			start, step := false, false
			for i, e := range phi.Edges {
				if l.Blocks[l.Header.Preds[i]] {
					c, ts := AffineTerms(e)
					step = c == -1 && len(ts) == 1 && ts[0].K == 1 && ts[0].V == ssa.Value(phi)
				} else {
					c, ts := AffineTerms(e)
					start = c == -1 && len(ts) == 1 && ts[0].K == 1 && isLenOf(ts[0].V) != nil && Desc(isLenOf(ts[0].V)) == hist
				}
			}
			k, isC := constInt(bo.Y)
			if start && step && bo.Op == token.GEQ && isC && k == 0 {
				outer = l
			}
		}
		r.Cond(outer != nil, "C34.full-history", name+"#history-loop", fn.Pos(), "loop index runs from len(history)−1 down to 0 inclusive, step −1")
		if outer == nil {
			return
		}
		// each visited transaction is history[i], all its outputs are examined
		okTx := false
		for _, c := range Sites(fn, `^invoke:pkg/bitcoin\.Chain\.GetTransaction$`, false) {
			if outer.Blocks[c.Block()] && strings.HasPrefix(Desc(c.Common().Args[0]), hist+"[phi{") {
				okTx = true
			}
		}
		okOutputs := false
		for _, l := range Loops(fn) {
			if l.Header != outer.Header && outer.Blocks[l.Header] && l.Kind == "range" {
				if s := loopSource(l.Header); s != nil && strings.HasSuffix(Desc(s), "#0.Outputs") {
					okOutputs = true
				}
			}
		}
		r.Cond(okTx && okOutputs, "C34.full-history", name+"#every-output", fn.Pos(), "the transaction at the loop index is fetched and all of its outputs are ranged over")
		// the "not found" failure lies after the loop
		n := 0
		for _, b := range fn.Blocks {
			ret, ok := b.Instrs[len(b.Instrs)-1].(*ssa.Return)
			if !ok || outer.Blocks[b] || !dominates(outer.Header.Succs[1], b) {
				continue // only returns after the loop's exit edge
			}
			res := RetResults(ret)
			if len(res) == 2 && isNilConst(res[0]) && !isNilConst(res[1]) {
				n++
				r.Cond(HasFact(Facts(b), `^\+\(phi\{.*\} < const:0\)$`), "C34.full-history", name+"#not-found", ret.Pos(), "'main UTXO not found' is reported only when the index has passed 0")
			}
		}
		if n == 0 {
			r.Undecided("C34.full-history", name+"#not-found", "failure return after the history loop not found")
		}
	})
	witness(Witness{Prop: "C34", Name: "history-skips-oldest", File: "pkg/tbtc/wallet.go",
		Old: "\tfor i := len(txHashes) - 1; i >= 0; i-- {", New: "\tfor i := len(txHashes) - 1; i > 0; i-- {", Rule: "C34.full-history"})

	extend("C35", func(r *Run) {
		r.Rule("C35.attempt-scope", "the listener of an attempt lives no longer than the attempt: its receive context derives from the context handed to listen, and it ends when that context is done", 2)
		fn := r.MustFn("C35.attempt-scope", "pkg/tbtc", "signingDoneCheck.listen")
		if fn == nil {
			return
		}
		name := FnName(fn)
		var ctxParam string
		for i, p := range fn.Params {
			if typeName(p.Type()) == "context.Context" {
				ctxParam = "P" + itoa(i)
			}
		}
		n := 0
		for _, c := range Sites(fn, `^context\.With(Cancel|Timeout|Deadline)$`, false) {
			n++
			r.Cond(ctxParam != "" && Desc(c.Common().Args[0]) == ctxParam, "C35.attempt-scope", name+"#derived-context", c.Pos(), "the listener's context derives from the attempt context passed to listen; got "+abbr(Desc(c.Common().Args[0]), 2))
		}
		if n == 0 {
			r.Undecided("C35.attempt-scope", name+"#derived-context", "no derived context found in listen")
		}
		// the receiving goroutine selects on Done() of that derived context and returns
		derivedFields := []string{}
		EachInstr(fn, func(in ssa.Instruction) {
			if st, ok := in.(*ssa.Store); ok && strings.HasPrefix(Desc(st.Val), "call:context.With") && strings.HasSuffix(Desc(st.Val), "("+ctxParam+")#0") {
				derivedFields = append(derivedFields, strings.TrimPrefix(Desc(st.Addr), "&P0"))
			}
		})
		okDone := false
		for _, a := range fn.AnonFuncs {
			EachInstr(a, func(in ssa.Instruction) {
				sel, ok := in.(*ssa.Select)
				if !ok {
					return
				}
				for _, st := range sel.States {
					if st.Dir != 2 /* types.RecvOnly */ {
						continue
					}
					d := Desc(st.Chan)
					if strings.Contains(d, "context.Context.Done(up(call:context.With") {
						okDone = true
					}
					for _, f := range derivedFields {
						if d == "invoke:context.Context.Done(up(P0)"+f+")" {
							okDone = true
						}
					}
				}
			})
		}
		r.Cond(okDone, "C35.attempt-scope", name+"#ends-with-attempt", fn.Pos(), "the receiving goroutine waits on Done() of the derived context")
	})
	witness(Witness{Prop: "C35", Name: "listener-outlives-attempt", File: "pkg/tbtc/signing_done.go",
		Old: "\tsdc.receiveCtx, sdc.cancelReceiveCtx = context.WithCancel(ctx)", New: "\tsdc.receiveCtx, sdc.cancelReceiveCtx = context.WithCancel(context.Background())", Rule: "C35.attempt-scope"})
}
