package main

import (
	"fmt"
	"strings"

	"golang.org/x/tools/go/ssa"
)

// Rules added after the last round-3 batch (C04-9, C09-7, C14-8/9, C15-8/9,
// C34-8/9, C46-7/9).
func init() {
	extend("C04", func(r *Run) {
		r.Rule("C04.hash-total", "G1HashToPoint always returns a point (its search has no give-up exit)", 1)
		if fn := r.MustFn("C04.hash-total", "pkg/altbn128", "G1HashToPoint"); fn != nil {
			ok, n := true, 0
			for _, b := range fn.Blocks {
				if ret, isRet := b.Instrs[len(b.Instrs)-1].(*ssa.Return); isRet {
					n++
					if isNilConst(ret.Results[0]) {
						ok = false
					}
				}
			}
			r.Cond(ok && n > 0, "C04.hash-total", FnName(fn), fn.Pos(), "no return of a nil point")
		}
	})
	extend("C09", func(r *Run) {
		r.Rule("C09.whole-operators", "the final seat collection walks all seats: an operator's seats are kept or dropped together, never cut by an early exit (key generation filters seats in helpers judged by C09.seat-filter)", 1)
		for _, n := range []string{"EvaluateRetryParticipantsForSigning", "EvaluateRetryParticipantsForKeyGeneration"} {
			fn := r.MustFn("C09.whole-operators", "pkg/tecdsa/retry", n)
			if fn == nil {
				continue
			}
			checked := 0
			for _, l := range Loops(fn) {
				s := loopSource(l.Header)
				if s == nil || Desc(s) != "P0" || l.Kind != "range" {
					continue
				}
				// loops over the seats that append the visited seat
				collects := false
				for _, ap := range appendsIn(fn) {
					if e := appendedElem(ap); e != nil && l.Blocks[ap.Block()] && strings.HasPrefix(Desc(e), "P0[") {
						collects = true
					}
				}
				if !collects {
					continue
				}
				checked++
				ok := true
				for b := range l.Blocks {
					if b == l.Header {
						continue
					}
					for _, s2 := range b.Succs {
						if !l.Blocks[s2] {
							ok = false // an exit from inside the body
						}
					}
				}
				r.Cond(ok, "C09.whole-operators", FnName(fn)+"#collect", l.Header.Instrs[0].Pos(), "the collecting loop is left only when the seats are exhausted")
			}
			if checked == 0 && n == "EvaluateRetryParticipantsForSigning" {
				r.Undecided("C09.whole-operators", FnName(fn), "seat-collecting loop not found")
			}
		}
	})
	extend("C14", func(r *Run) {
		r.Rule("C14.subscribed-before-initiate", "a state is subscribed to the channel before it is initiated (messages arriving during its delay and Initiate are its own)", 2)
		r.Rule("C14.nominal-start", "protocols hand their nominal start block to the machine unchanged", 2)
		if fn := r.MustFn("C14.subscribed-before-initiate", "pkg/protocol/state", "SyncMachine.Execute"); fn != nil {
			recvs := Sites(fn, `^invoke:pkg/net\.BroadcastChannel\.Recv$`, false)
			trs := Sites(fn, `^pkg/protocol/state\.stateTransition$`, false)
			for _, t := range trs {
				ok := false
				for _, rc := range recvs {
					if rc.Block() == t.Block() && InstrBefore(rc.(ssa.Instruction), t.(ssa.Instruction)) {
						ok = true
					}
					if rc.Block() != t.Block() && dominates(rc.Block(), t.Block()) {
						// the registration must be the one made for this state: no other transition in between
						between := false
						for _, t2 := range trs {
							if t2 != t && dominates(rc.Block(), t2.Block()) && dominates(t2.Block(), t.Block()) {
								between = true
							}
						}
						if !between {
							ok = true
						}
					}
				}
				r.Cond(ok, "C14.subscribed-before-initiate", FnName(fn)+"#transition", t.Pos(), "channel.Recv for the state precedes its stateTransition")
			}
			if len(trs) == 0 {
				r.Undecided("C14.subscribed-before-initiate", FnName(fn), "no stateTransition call")
			}
		}
		n := 0
		for _, fn := range r.W.AllFuncs {
			for _, c := range Sites(fn, `^pkg/protocol/state\.SyncMachine\.Execute$`, false) {
				n++
				d := Desc(c.Common().Args[1])
				ok := !strings.Contains(d, "CurrentBlock") && !strings.HasPrefix(d, "phi{")
				r.Cond(ok, "C14.nominal-start", FnName(fn)+"#Execute", c.Pos(), "the start block given to the machine is the caller's nominal start, not re-based on the current block; got "+abbr(d, 2))
			}
		}
		if n == 0 {
			r.Undecided("C14.nominal-start", "pkg/protocol/state.SyncMachine.Execute", "no caller found")
		}
	})
	extend("C15", func(r *Run) {
		r.Rule("C15.unconditional-history", "ReceiveToHistory stores every message it is given (no cap, no early return)", 1)
		r.Rule("C15.subscribed-first", "the machine is subscribed to the channel before its first state is initiated", 1)
		if fn := r.MustFn("C15.unconditional-history", "pkg/protocol/state", "BaseAsyncState.ReceiveToHistory"); fn != nil {
			n, ok := 0, true
			EachInstr(fn, func(in ssa.Instruction) {
				if mu, isMU := in.(*ssa.MapUpdate); isMU {
					n++
					if len(Facts(mu.Block())) != 0 {
						ok = false
					}
				}
			})
			var store *ssa.BasicBlock
			EachInstr(fn, func(in ssa.Instruction) {
				if mu, isMU := in.(*ssa.MapUpdate); isMU {
					store = mu.Block()
				}
			})
			for _, b := range fn.Blocks {
				if _, isRet := b.Instrs[len(b.Instrs)-1].(*ssa.Return); isRet && !deadRecover(b) && store != nil && !dominates(store, b) {
					ok = false // a return that the store does not precede
				}
			}
			r.Cond(ok && n == 1, "C15.unconditional-history", FnName(fn), fn.Pos(), "one unconditional store that precedes every return")
		}
		if fn := r.MustFn("C15.subscribed-first", "pkg/protocol/state", "AsyncMachine.Execute"); fn != nil {
			recvs := Sites(fn, `^invoke:pkg/net\.BroadcastChannel\.Recv$`, false)
			trs := Sites(fn, `^pkg/protocol/state\.asyncStateTransition$`, false)
			ok := len(recvs) == 1 && len(trs) >= 1
			if ok {
				for _, t := range trs {
					rb, tb := recvs[0].Block(), t.Block()
					if !((rb == tb && InstrBefore(recvs[0].(ssa.Instruction), t.(ssa.Instruction))) || (rb != tb && dominates(rb, tb))) {
						ok = false
					}
				}
			}
			r.Cond(ok, "C15.subscribed-first", FnName(fn), fn.Pos(), "channel.Recv precedes every asyncStateTransition")
		}
	})
	extend("C34", func(r *Run) {
		r.Rule("C34.lookup-errors", "a failed host-chain lookup fails the sync check (it is never overwritten by a later lookup)", 2)
		r.Rule("C34.checked-utxo", "every action checks the wallet's determined main UTXO", 4)
		if fn := r.MustFn("C34.lookup-errors", "pkg/tbtc", "EnsureWalletSyncedBetweenChains"); fn != nil {
			errorsPropagate(r, "C34.lookup-errors", fn, `^invoke:pkg/tbtc\.BridgeChain\.(GetDepositRequest|GetMovedFundsSweepRequest)$`)
		}
		if callee := r.W.Fn("pkg/tbtc", "EnsureWalletSyncedBetweenChains"); callee != nil {
			idx := -1
			for i, p := range callee.Params {
				if p.Name() == "walletMainUtxo" {
					idx = i
				}
			}
			for _, c := range r.W.Callers(callee) {
				d := Desc(c.Common().Args[idx])
				r.Cond(idx >= 0 && strings.HasPrefix(d, "call:pkg/tbtc.DetermineWalletMainUtxo(") && strings.HasSuffix(d, "#0"), "C34.checked-utxo", FnName(c.Parent())+"#EnsureWalletSynced", c.Pos(), "the checked UTXO is DetermineWalletMainUtxo's result; got "+abbr(d, 2))
			}
		}
	})
	extend("C46", func(r *Run) {
		r.Rule("C46.one-broadcast-budget", "the broadcast step has one time budget for all its attempts", 1)
		r.Rule("C46.deadline-fires", "a block deadline cancels its context on every path, also when waiting for the block fails", 1)
		if fn := r.MustFn("C46.one-broadcast-budget", "pkg/tbtc", "walletTransactionExecutor.broadcastTransaction"); fn != nil {
			cs := Sites(fn, `^context\.WithTimeout$`, false)
			ok := len(cs) == 1
			for _, c := range cs {
				for _, l := range Loops(fn) {
					if l.Blocks[c.Block()] {
						ok = false
					}
				}
			}
			r.Cond(ok, "C46.one-broadcast-budget", FnName(fn), fn.Pos(), fmt.Sprintf("one context.WithTimeout, outside the retry loop (%d found)", len(cs)))
		}
		cancelOnEveryExit(r, "C46.deadline-fires")
	})
}
