package main

import (
	"go/constant"
	"go/token"

	"golang.org/x/tools/go/ssa"
)

// Loop is a natural loop of a function: its header and member blocks.
type Loop struct {
	Header *ssa.BasicBlock
	Blocks map[*ssa.BasicBlock]bool
	Kind   string // range | counted | shift | iterator | search
	Why    string
}

// Loops finds the natural loops of fn (one per header) and classifies each.
func Loops(fn *ssa.Function) []*Loop {
	var out []*Loop
	seen := map[*ssa.BasicBlock]bool{}
	for _, b := range fn.Blocks {
		for _, s := range b.Succs {
			if dominates(s, b) && !seen[s] {
				seen[s] = true
				l := &Loop{Header: s, Blocks: loopBlocks(s)}
				classifyLoop(l)
				out = append(out, l)
			}
		}
	}
	return out
}

func inLoop(l *Loop, v ssa.Value) bool {
	in, ok := v.(ssa.Instruction)
	if !ok {
		return false
	}
	return in.Block() != nil && l.Blocks[in.Block()]
}

func constInt(v ssa.Value) (int64, bool) {
	if c, ok := stripConv(v).(*ssa.Const); ok && c.Value != nil && c.Value.Kind() == constant.Int {
		return constant.Int64Val(c.Value)
	}
	return 0, false
}

// classifyLoop decides whether the loop is bounded by construction.
//
//	range    — go/ssa's lowering of range over slice/array/string/int (index phi from -1, `idx+1 < len`)
//	iterator — range over map/channel (Next); bounded for maps
//	counted  — a phi stepped by a positive constant compared (<, <=, !=) with a loop-invariant bound,
//	           or stepped down by a constant and compared with a loop-invariant lower bound
//	shift    — a *big.Int phi replaced by Rsh(phi, k>0) each round, loop runs while Cmp(phi, ·) / Sign / BitLen says positive
//	search   — anything else: runs until a data condition holds
func classifyLoop(l *Loop) {
	h := l.Header
	// the exit test may sit in the header or (for `for { … }` with inner breaks) nowhere
	ifi, ok := h.Instrs[len(h.Instrs)-1].(*ssa.If)
	if !ok {
		// range over map: header holds Next and branches on its ok
		l.Kind, l.Why = "search", "no exit test at the loop head"
		return
	}
	cond := ifi.Cond
	if ex, ok := cond.(*ssa.Extract); ok {
		if nx, ok := ex.Tuple.(*ssa.Next); ok && ex.Index == 0 {
			if _, isRange := nx.Iter.(*ssa.Range); isRange {
				l.Kind, l.Why = "iterator", "range over a map or string"
				return
			}
		}
	}
	bo, ok := cond.(*ssa.BinOp)
	if !ok {
		l.Kind, l.Why = "search", "the exit test is a data predicate: "+abbr(Desc(cond), 1)
		return
	}
	// the head test must really leave the loop when it fails: with `a || b`
	// conditions the false edge leads to a further test inside the loop
	if len(h.Succs) != 2 || l.Blocks[h.Succs[1]] {
		l.Kind, l.Why = "search", "failing the head comparison does not leave the loop (a further data condition can keep it running): "+abbr(Desc(cond), 1)
		return
	}
	// counted / range
	stepOf := func(v ssa.Value) (phi *ssa.Phi, step int64, ok bool) {
		v = stripConv(v)
		// v itself may be phi+1 (range lowering) or the phi
		if b, isB := v.(*ssa.BinOp); isB && b.Op == token.ADD {
			if p, isP := stripConv(b.X).(*ssa.Phi); isP && p.Block() == h {
				if _, isC := constInt(b.Y); isC {
					v = p
				}
			}
		}
		p, isP := v.(*ssa.Phi)
		if !isP || p.Block() != h {
			return nil, 0, false
		}
		var st int64
		n := 0
		for i, e := range p.Edges {
			if !l.Blocks[h.Preds[i]] {
				continue // entry edge
			}
			c, ts := AffineTerms(e)
			if len(ts) == 1 && ts[0].K == 1 && ts[0].V == ssa.Value(p) && c != 0 {
				if n > 0 && st != c {
					return nil, 0, false
				}
				st = c
				n++
			} else {
				return nil, 0, false
			}
		}
		return p, st, n > 0
	}
	invariant := func(v ssa.Value) bool { return !inLoop(l, stripConv(v)) || isLenInvariant(l, v) }
	switch bo.Op {
	case token.LSS, token.LEQ, token.NEQ, token.GTR, token.GEQ:
		if p, st, ok := stepOf(bo.X); ok && invariant(bo.Y) {
			up := bo.Op == token.LSS || bo.Op == token.LEQ || bo.Op == token.NEQ
			if (up && st > 0) || (!up && st < 0) {
				l.Kind, l.Why = "counted", "induction variable "+p.Name()+" stepped by a constant against a loop-invariant bound"
				if c, isC := p.Edges[0].(*ssa.Const); isC && c.Value != nil && c.Value.ExactString() == "-1" {
					l.Kind = "range"
				}
				return
			}
		}
		if p, st, ok := stepOf(bo.Y); ok && invariant(bo.X) {
			up := bo.Op == token.GTR || bo.Op == token.GEQ || bo.Op == token.NEQ
			if (up && st > 0) || (!up && st < 0) {
				l.Kind, l.Why = "counted", "induction variable "+p.Name()+" stepped by a constant against a loop-invariant bound"
				return
			}
		}
	}
	// shift loop over a big.Int
	if (bo.Op == token.EQL || bo.Op == token.GTR || bo.Op == token.NEQ) && isBigPositiveTest(bo) != nil {
		p := isBigPositiveTest(bo)
		if p.Block() == h {
			okAll, n := true, 0
			for i, e := range p.Edges {
				if !l.Blocks[h.Preds[i]] {
					continue
				}
				n++
				c, isCall := e.(*ssa.Call)
				if !isCall || CalleeName(c) != "math/big.Int.Rsh" || len(c.Call.Args) != 3 || c.Call.Args[1] != ssa.Value(p) {
					okAll = false
					continue
				}
				if k, isC := constInt(c.Call.Args[2]); !isC || k <= 0 {
					okAll = false
				}
			}
			if okAll && n > 0 {
				l.Kind, l.Why = "shift", "a big.Int is shifted right by a positive constant each round while it is positive"
				return
			}
		}
	}
	l.Kind, l.Why = "search", "the exit test is a data predicate: "+abbr(Desc(cond), 1)
}

// isLenInvariant: v is len(x) of a value defined outside the loop (go/ssa
// re-evaluates len in the header of counted loops).
func isLenInvariant(l *Loop, v ssa.Value) bool {
	if s := isLenOf(v); s != nil {
		return !inLoop(l, s)
	}
	if b, ok := stripConv(v).(*ssa.BinOp); ok && (b.Op == token.SUB || b.Op == token.ADD || b.Op == token.MUL) {
		inv := func(x ssa.Value) bool {
			if _, isC := constInt(x); isC {
				return true
			}
			return isLenInvariant(l, x) || !inLoop(l, stripConv(x))
		}
		return inv(b.X) && inv(b.Y)
	}
	return false
}

// isBigPositiveTest: `x.Cmp(y) == 1` / `x.Cmp(y) > 0` / `x.Sign() > 0` with x a phi; returns x.
func isBigPositiveTest(bo *ssa.BinOp) *ssa.Phi {
	c, ok := bo.X.(*ssa.Call)
	if !ok {
		return nil
	}
	k, isC := constInt(bo.Y)
	if !isC {
		return nil
	}
	switch CalleeName(c) {
	case "math/big.Int.Cmp":
		if (bo.Op == token.EQL && k == 1) || (bo.Op == token.GTR && k == 0) {
			if p, ok := c.Call.Args[0].(*ssa.Phi); ok {
				return p
			}
		}
	case "math/big.Int.Sign", "math/big.Int.BitLen":
		if (bo.Op == token.GTR && k == 0) || (bo.Op == token.NEQ && k == 0) || (bo.Op == token.EQL && k == 1) {
			if p, ok := c.Call.Args[0].(*ssa.Phi); ok {
				return p
			}
		}
	}
	return nil
}

// ReachableIn returns the functions of the same package reachable from the
// roots through static calls (including closures).
func ReachableIn(roots []*ssa.Function, depth int) []*ssa.Function {
	seen := map[*ssa.Function]bool{}
	var out []*ssa.Function
	var visit func(f *ssa.Function, d int)
	visit = func(f *ssa.Function, d int) {
		if f == nil || f.Blocks == nil || seen[f] || d == 0 {
			return
		}
		if len(roots) > 0 && f.Pkg != roots[0].Pkg && f.Parent() == nil {
			return
		}
		seen[f] = true
		out = append(out, f)
		EachInstr(f, func(in ssa.Instruction) {
			if c, ok := in.(ssa.CallInstruction); ok {
				if callee := staticCallee(c); callee != nil {
					visit(callee, d-1)
				}
			}
		})
		for _, a := range f.AnonFuncs {
			visit(a, d)
		}
	}
	for _, r := range roots {
		visit(r, depth)
	}
	return out
}
