package main

import (
	"fmt"
	"go/types"
	"strings"

	"golang.org/x/tools/go/ssa"
)

// fieldCoverage: for a function taking a pointer to message struct M as
// parameter `pi`, every field of M must be read, and each read must flow into a
// guard of the success exit or into the value returned on success.
func (r *Run) fieldCoverage(rule string, fn *ssa.Function, pi int, success []retPath) {
	if pi >= len(fn.Params) || len(success) == 0 {
		r.Undecided(rule, FnName(fn), "no success return / parameter")
		return
	}
	p := fn.Params[pi]
	st, ok := p.Type().Underlying().(*types.Pointer).Elem().Underlying().(*types.Struct)
	if !ok {
		r.Undecided(rule, FnName(fn), "parameter is not a message struct")
		return
	}
	for i := 0; i < st.NumFields(); i++ {
		f := st.Field(i).Name()
		var loads []ssa.Value
		EachInstr(fn, func(in ssa.Instruction) {
			if fa, ok := in.(*ssa.FieldAddr); ok && fa.X == ssa.Value(p) && fa.Field == i {
				for _, ref := range *fa.Referrers() {
					if ld, ok := ref.(*ssa.UnOp); ok {
						loads = append(loads, ld)
					}
				}
			}
		})
		covered := false
		for _, sp := range success {
			for _, ld := range loads {
				for _, g := range Guards(sp.Ret.Block()) {
					if dependsOn(g.Cond, ld, nil) {
						covered = true
					}
				}
				for _, res := range RetResults(sp.Ret) {
					if derives(res, ld) || dependsOn(res, ld, nil) {
						covered = true
					}
				}
			}
		}
		r.Cond(covered, rule, FnName(fn)+"#"+f, fn.Pos(), "field "+f+" of the received act is checked before (or bound into the result of) the success exit; an unchecked field is one the peer controls freely")
	}
}

func init() {
	const hp = "pkg/net/security/handshake"
	const lp = "pkg/net/libp2p"
	register(&Prop{
		ID:        "C20",
		Technique: "static analysis: message-field coverage of the success exits, dominator guard facts, provenance of the challenge operands, must-precede ordering of signature verification before each act is handed to the handshake step (go/ssa)",
		Explanation: "handshake package: AnswerHandshake succeeds only under act1.protocol1 = own protocol and an error-free nonce, and binds act1.nonce1 with its own fresh nonce into hashToChallenge; InitiatorAct2.Next succeeds only under act2.protocol2 = own protocol and hashToChallenge(own nonce1, act2.nonce2) = act2.challenge; FinalizeHandshake returns nil only under own challenge = act3.challenge, where the responder's stored challenge is the one it computed in act 2 (ResponderAct2.Next copies it); every field of each received act is covered by such a check or bound into the result; hashToChallenge writes the two nonces at disjoint offsets 0 and 8 of the hashed buffer. " +
			"libp2p connection: both constructors return a connection only after runHandshakeAs*() and checkFirewallRules() returned nil; each receive step returns an act only after ac.verify(pinned peer, envelope peer, envelope message, envelope signature) = nil and after decoding that same envelope's message; verify returns nil only under expected = actual sender, an extractable public key and Verify = (true, nil); the handshake steps are fed exactly the acts returned by those receive steps, and the run functions return nil only after every step succeeded.",
		NotDecided: "the 'if' direction (that honest peers always complete); replay across connections beyond the nonce binding; transport-level properties of libp2p.",
		Fn: func(r *Run) {
			r.Rule("C20.coverage", "every field of a received act feeds a guard of success (or is bound into the result)", 6)
			r.Rule("C20.checks", "protocol equality and challenge equality with the right operands", 6)
			r.Rule("C20.connection", "connection returned only after handshake and firewall succeeded; acts verified before use", 12)

			if fn := r.MustFn("C20.checks", hp, "AnswerHandshake"); fn != nil {
				suc := SuccessReturns(fn)
				r.fieldCoverage("C20.coverage", fn, 0, suc)
				for _, p := range suc {
					r.Check("C20.checks", FnName(fn)+"#guards", p.Ret.Pos(), p.Facts, `^\+\(P0\.protocol1 == P1\)$|^\+\(P1 == P0\.protocol1\)$`, okOf(`pkg/net/security/handshake\.randomNonce`))
				}
				for _, c := range Sites(fn, `^pkg/net/security/handshake\.hashToChallenge$`, false) {
					a := c.Common().Args
					r.Cond(Desc(a[0]) == "P0.nonce1" && Desc(a[1]) == "call:pkg/net/security/handshake.randomNonce()#0", "C20.checks", FnName(fn)+"#challenge", c.Pos(), "challenge = hashToChallenge(peer's nonce1, own fresh nonce2)")
				}
			}
			if fn := r.MustFn("C20.checks", hp, "InitiatorAct2.Next"); fn != nil {
				suc := SuccessReturns(fn)
				r.fieldCoverage("C20.coverage", fn, 1, suc)
				for _, p := range suc {
					r.Check("C20.checks", FnName(fn)+"#guards", p.Ret.Pos(), p.Facts,
						`^\+\(P0\.protocol1 == P1\.protocol2\)$|^\+\(P1\.protocol2 == P0\.protocol1\)$`,
						`^\+\(P1\.challenge == call:pkg/net/security/handshake\.hashToChallenge\(P0\.nonce1, P1\.nonce2\)\)$|^\+\(call:pkg/net/security/handshake\.hashToChallenge\(P0\.nonce1, P1\.nonce2\) == P1\.challenge\)$`)
				}
			}
			if fn := r.MustFn("C20.checks", hp, "ResponderAct3.FinalizeHandshake"); fn != nil {
				suc := SuccessReturns(fn)
				r.fieldCoverage("C20.coverage", fn, 1, suc)
				for _, p := range suc {
					r.Check("C20.checks", FnName(fn)+"#guards", p.Ret.Pos(), p.Facts, `^\+\(P0\.challenge == P1\.challenge\)$|^\+\(P1\.challenge == P0\.challenge\)$`)
				}
			}
			if fn := r.MustFn("C20.checks", hp, "ResponderAct2.Next"); fn != nil {
				ok := false
				EachInstr(fn, func(in ssa.Instruction) {
					if st, isSt := in.(*ssa.Store); isSt && strings.HasSuffix(Desc(st.Addr), ".challenge") && Desc(st.Val) == "P0.challenge" {
						ok = true
					}
				})
				r.Cond(ok, "C20.checks", FnName(fn), fn.Pos(), "the responder keeps the challenge it computed in act 2 for the act 3 comparison")
			}
			if fn := r.MustFn("C20.checks", hp, "hashToChallenge"); fn != nil {
				offs := map[string]string{}
				for _, c := range Sites(fn, `PutUint64$`, false) {
					a := c.Common().Args
					buf, val := a[len(a)-2], a[len(a)-1]
					lo := "0"
					if sl, ok := buf.(*ssa.Slice); ok && sl.Low != nil {
						if k, isC := constInt(sl.Low); isC {
							lo = fmt.Sprint(k)
						}
					}
					offs[Desc(val)] = lo
				}
				r.Cond(offs["P0"] == "0" && offs["P1"] == "8", "C20.checks", FnName(fn)+"#layout", fn.Pos(), fmt.Sprintf("nonce1 at offset 0, nonce2 at offset 8 of the hashed buffer (got %v)", offs))
				for _, ret := range ReturnsMatching(fn, 0, `.`) {
					r.Cond(strings.HasPrefix(Desc(ret.Results[0]), "call:crypto/sha256.Sum256("), "C20.checks", FnName(fn)+"#digest", ret.Pos(), "challenge is the SHA-256 of that buffer")
				}
			}

			// connection
			for _, c := range [][2]string{{"newAuthenticatedInboundConnection", "runHandshakeAsResponder"}, {"newAuthenticatedOutboundConnection", "runHandshakeAsInitiator"}} {
				if fn := r.MustFn("C20.connection", lp, c[0]); fn != nil {
					for _, p := range SuccessReturns(fn) {
						r.Check("C20.connection", FnName(fn)+"#return", p.Ret.Pos(), p.Facts, okOf(`pkg/net/libp2p\.authenticatedConnection\.`+c[1]), okOf(`pkg/net/libp2p\.authenticatedConnection\.checkFirewallRules`))
					}
				}
			}
			for _, n := range []string{"initiatorReceiveAct2", "responderReceiveAct1", "responderReceiveAct3"} {
				fn := r.MustFn("C20.connection", lp, "authenticatedConnection."+n)
				if fn == nil {
					continue
				}
				for _, p := range SuccessReturns(fn) {
					r.Check("C20.connection", FnName(fn)+"#verified-first", p.Ret.Pos(), p.Facts, okOf(`pkg/net/libp2p\.authenticatedConnection\.verify`), okOf(`pkg/net/libp2p\.pipe\.receive`), okOf(`pkg/net/security/handshake\.Act\dMessage\.Unmarshal`))
				}
				// verify and Unmarshal look at the same envelope; the pinned identity is the connection's remote peer
				vs := Sites(fn, `^pkg/net/libp2p\.authenticatedConnection\.verify$`, false)
				us := Sites(fn, `^pkg/net/security/handshake\.Act\dMessage\.Unmarshal$`, false)
				if len(vs) != 1 || len(us) != 1 {
					r.Undecided("C20.connection", FnName(fn), "expected one verify and one Unmarshal")
					continue
				}
				a := vs[0].Common().Args
				env := re(`&?local:(\w+)`).FindStringSubmatch(Desc(a[3]))
				same := env != nil && strings.Contains(Desc(a[2]), env[1]) && strings.Contains(Desc(a[4]), env[1]) && strings.Contains(Desc(us[0].Common().Args[1]), env[1])
				r.Cond(same && Desc(a[1]) == "P0.remotePeerID", "C20.connection", FnName(fn)+"#same-envelope", vs[0].Pos(), "the verified message, signature and sender and the decoded message all come from the one received envelope; the expected sender is the connection's remote peer")
				r.Cond(InstrBefore(vs[0].(ssa.Instruction), us[0].(ssa.Instruction)), "C20.connection", FnName(fn)+"#verify-before-decode", us[0].Pos(), "signature verified before the act is decoded")
			}
			if fn := r.MustFn("C20.connection", lp, "authenticatedConnection.verify"); fn != nil {
				for _, p := range SuccessReturns(fn) {
					r.Check("C20.connection", FnName(fn)+"#nil", p.Ret.Pos(), p.Facts, `^\+\(P1 == P2\)$|^\+\(P2 == P1\)$`, okOf(`github\.com/libp2p/go-libp2p/core/peer\.ID\.ExtractPublicKey`),
						`^\+invoke:github\.com/libp2p/go-libp2p/core/crypto\.PubKey\.Verify\(.*P3, P4\)#0$`, `^\+\(invoke:github\.com/libp2p/go-libp2p/core/crypto\.PubKey\.Verify\(.*P3, P4\)#1 == nil\)$`)
				}
			}
			if fn := r.MustFn("C20.connection", lp, "authenticatedConnection.runHandshakeAsInitiator"); fn != nil {
				for _, c := range Sites(fn, `^pkg/net/security/handshake\.InitiatorAct2\.Next$`, false) {
					r.Cond(strings.HasPrefix(Desc(c.Common().Args[1]), "call:pkg/net/libp2p.authenticatedConnection.initiatorReceiveAct2(P0)#0"), "C20.connection", FnName(fn)+"#act2", c.Pos(), "act 2 step gets the verified act 2")
				}
				for _, p := range SuccessReturns(fn) {
					r.Check("C20.connection", FnName(fn)+"#success", p.Ret.Pos(), p.Facts, okOf(`pkg/net/security/handshake\.InitiateHandshake`), okOf(`pkg/net/libp2p\.authenticatedConnection\.initiatorSendAct1`),
						okOf(`pkg/net/libp2p\.authenticatedConnection\.initiatorReceiveAct2`), okOf(`pkg/net/security/handshake\.InitiatorAct2\.Next`), okOf(`pkg/net/libp2p\.authenticatedConnection\.initiatorSendAct3`))
				}
				for _, c := range Sites(fn, `^pkg/net/security/handshake\.InitiateHandshake$`, false) {
					r.Cond(Desc(c.Common().Args[0]) == "P0.protocol", "C20.connection", FnName(fn)+"#protocol", c.Pos(), "handshake run for the connection's protocol identifier")
				}
			}
			if fn := r.MustFn("C20.connection", lp, "authenticatedConnection.runHandshakeAsResponder"); fn != nil {
				for _, c := range Sites(fn, `^pkg/net/security/handshake\.AnswerHandshake$`, false) {
					a := c.Common().Args
					r.Cond(strings.HasPrefix(Desc(a[0]), "call:pkg/net/libp2p.authenticatedConnection.responderReceiveAct1(P0)#0") && Desc(a[1]) == "P0.protocol", "C20.connection", FnName(fn)+"#act1", c.Pos(), "act 1 step gets the verified act 1 and the connection's protocol identifier")
				}
				for _, c := range Sites(fn, `^pkg/net/security/handshake\.ResponderAct3\.FinalizeHandshake$`, false) {
					r.Cond(strings.HasPrefix(Desc(c.Common().Args[1]), "call:pkg/net/libp2p.authenticatedConnection.responderReceiveAct3(P0)#0"), "C20.connection", FnName(fn)+"#act3", c.Pos(), "finalisation gets the verified act 3")
				}
				for _, p := range SuccessReturns(fn) {
					r.Check("C20.connection", FnName(fn)+"#success", p.Ret.Pos(), p.Facts, okOf(`pkg/net/libp2p\.authenticatedConnection\.responderReceiveAct1`), okOf(`pkg/net/security/handshake\.AnswerHandshake`),
						okOf(`pkg/net/libp2p\.authenticatedConnection\.responderSendAct2`), okOf(`pkg/net/libp2p\.authenticatedConnection\.responderReceiveAct3`), okOf(`pkg/net/security/handshake\.ResponderAct3\.FinalizeHandshake`))
				}
			}
		},
	})
	witness(Witness{Prop: "C20", Name: "skip-protocol-check-act2", File: "pkg/net/security/handshake/connection_handshake.go",
		Old: "\tif message.protocol2 != ia2.protocol1 {", New: "\tif message.protocol2 != ia2.protocol1 && message.nonce2 == 0 {", Rule: "C20.checks"})
	witness(Witness{Prop: "C20", Name: "challenge-ignores-own-nonce", File: "pkg/net/security/handshake/connection_handshake.go",
		Old: "\texpectedChallenge := hashToChallenge(ia2.nonce1, message.nonce2)", New: "\texpectedChallenge := hashToChallenge(message.nonce2, message.nonce2)", Rule: "C20.checks"})
	witness(Witness{Prop: "C20", Name: "act3-decoded-unverified", File: "pkg/net/libp2p/authenticated_connection.go",
		Old: "\t\tpeer.ID(act3Envelope.GetPeerID()),\n\t\tact3Envelope.GetMessage(),\n\t\tact3Envelope.GetSignature(),\n\t); err != nil {\n\t\treturn nil, err\n\t}",
		New: "\t\tpeer.ID(act3Envelope.GetPeerID()),\n\t\tact3Envelope.GetMessage(),\n\t\tact3Envelope.GetSignature(),\n\t); err != nil && ac.firewall == nil {\n\t\treturn nil, err\n\t}", Rule: "C20.connection"})
}
