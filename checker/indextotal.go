package main

import (
	"fmt"
	"go/token"
	"go/types"

	"golang.org/x/tools/go/ssa"
)

// indexTotality: every index / slice expression of fn is shown to be in range:
// a constant position within a statically known length, an index below a
// dominating `idx < len(base)` (or `< k ≤ known length`) comparison, or the last
// element under a non-empty guard. isEntry admits constant positions in the
// function's own parameters (a stated well-sized precondition). The same
// discipline as C04.total-index (rules_c04.go), usable by other rules.
func (r *Run) indexTotality(rule string, fn *ssa.Function, isEntry bool) {
	EachInstr(fn, func(in ssa.Instruction) {
		var base, idx ssa.Value
		kind := "index"
		switch x := in.(type) {
		case *ssa.IndexAddr:
			base, idx = x.X, x.Index
		case *ssa.Index:
			base, idx = x.X, x.Index
		case *ssa.Slice:
			if _, isSl := x.X.Type().Underlying().(*types.Slice); !isSl {
				return // slicing an array pointer: bounds are static
			}
			base = x.X
			kind = "slice"
			if x.High != nil {
				idx = x.High
			} else if x.Low != nil {
				idx = x.Low
			} else {
				return
			}
		default:
			return
		}
		if isLocalTemp(base) {
			if _, isArr := base.Type().Underlying().(*types.Pointer); isArr {
				return // compiler-made array (varargs, composite literal)
			}
		}
		if p, ok := base.Type().Underlying().(*types.Pointer); ok {
			if _, isArr := p.Elem().Underlying().(*types.Array); isArr {
				if _, isC := constInt(idx); isC {
					return // constant index into an array: checked by the compiler
				}
			}
		}
		construct := FnName(fn) + "#" + kind + "/" + abbr(Desc(base), 1) + "[" + abbr(Desc(idx), 1) + "]"
		// (a) the entry point's own input
		if p, ok := base.(*ssa.Parameter); ok && isEntry {
			if _, isC := constInt(idx); isC {
				r.Ok(rule, construct, in.Pos(), "constant position in the input parameter "+p.Name()+" (well-sized precondition)")
				return
			}
		}
		// (b) constant position in a value of statically known size
		if k, isC := constInt(idx); isC {
			if n, why := knownLen(base); n >= 0 && (k < n || (kind == "slice" && k <= n)) {
				r.Ok(rule, construct, in.Pos(), fmt.Sprintf("constant %d within %s", k, why))
				return
			}
		}
		// (c) bounded by a dominating comparison with a constant within the known size, or with len(base)
		for _, g := range CmpGuards(in.Block()) {
			if stripConv(g.Lo) != stripConv(idx) || !g.Strict {
				continue
			}
			if s := isLenOf(g.Hi); s != nil && sameValue(s, base) {
				r.Ok(rule, construct, in.Pos(), "index < len(base)")
				return
			}
			if k, isC := constInt(g.Hi); isC {
				if n, why := knownLen(base); n >= 0 && k <= n {
					r.Ok(rule, construct, in.Pos(), fmt.Sprintf("index < %d within %s", k, why))
					return
				}
			}
		}
		// (d) last element: len(base) − 1 under a non-empty guard
		if c, ts := AffineTerms(idx); c == -1 && len(ts) == 1 && ts[0].K == 1 {
			if s := isLenOf(ts[0].V); s != nil && sameValue(s, base) {
				nonEmpty := false
				for _, g := range Guards(in.Block()) {
					bo, ok := g.Cond.(*ssa.BinOp)
					if !ok {
						continue
					}
					for _, side := range [][2]ssa.Value{{bo.X, bo.Y}, {bo.Y, bo.X}} {
						if l := isLenOf(side[0]); l != nil && sameValue(l, base) {
							if k, isC := constInt(side[1]); isC && k == 0 {
								eqZero := bo.Op == token.EQL
								neZero := bo.Op == token.NEQ || bo.Op == token.GTR || bo.Op == token.LSS
								if (eqZero && !g.Pol) || (neZero && g.Pol) {
									nonEmpty = true
								}
							}
						}
					}
				}
				if nonEmpty {
					r.Ok(rule, construct, in.Pos(), "last element under a non-empty guard")
				} else {
					r.Fail(rule, construct, in.Pos(), "last-element access on a slice that is empty for the value zero (big.Int.Bytes() of 0 is empty): index −1 panics", []string{"len(x) != 0 guard"}, nil)
				}
				return
			}
		}
		r.Fail(rule, construct, in.Pos(), "index not shown to be in range", nil, nil)
	})
}
