package main

import (
	"fmt"
	"go/token"
	"go/types"

	"golang.org/x/tools/go/ssa"
)

// indexTotality: every index / slice expression of fn is shown to be in range:
// a constant position within a statically known length, an index below a
// dominating `idx < len(base)` (or `< k ≤ known length`) comparison, or the last
// element under a non-empty guard. isEntry admits constant positions in the
// function's own parameters (a stated well-sized precondition). The same
// discipline as C04.total-index (rules_c04.go), usable by other rules.
func (r *Run) indexTotality(rule string, fn *ssa.Function, isEntry bool) {
	EachInstr(fn, func(in ssa.Instruction) {
		var base, idx ssa.Value
		kind := "index"
		switch x := in.(type) {
		case *ssa.IndexAddr:
			base, idx = x.X, x.Index
		case *ssa.Index:
			base, idx = x.X, x.Index
		case *ssa.Slice:
			if _, isSl := x.X.Type().Underlying().(*types.Slice); !isSl {
				return // slicing an array pointer: bounds are static
			}
			base = x.X
			kind = "slice"
			if x.High != nil {
				idx = x.High
			} else if x.Low != nil {
				idx = x.Low
			} else {
				return
			}
		default:
			return
		}
		if isLocalTemp(base) {
			if _, isArr := base.Type().Underlying().(*types.Pointer); isArr {
				return // compiler-made array (varargs, composite literal)
			}
		}
		if p, ok := base.Type().Underlying().(*types.Pointer); ok {
			if _, isArr := p.Elem().Underlying().(*types.Array); isArr {
				if _, isC := constInt(idx); isC {
					return // constant index into an array: checked by the compiler
				}
			}
		}
		construct := FnName(fn) + "#" + kind + "/" + abbr(Desc(base), 1) + "[" + abbr(Desc(idx), 1) + "]"
		// (a) the entry point's own input
		if p, ok := base.(*ssa.Parameter); ok && isEntry {
			if _, isC := constInt(idx); isC {
				r.Ok(rule, construct, in.Pos(), "constant position in the input parameter "+p.Name()+" (well-sized precondition)")
				return
			}
		}
		// (b) constant position in a value of statically known size
		if k, isC := constInt(idx); isC {
			if n, why := knownLen(base); n >= 0 && (k < n || (kind == "slice" && k <= n)) {
				r.Ok(rule, construct, in.Pos(), fmt.Sprintf("constant %d within %s", k, why))
				return
			}
		}
		// (c) bounded by a dominating comparison with a constant within the known size, or with len(base)
		for _, g := range CmpGuards(in.Block()) {
			if stripConv(g.Lo) != stripConv(idx) || !g.Strict {
				continue
			}
			if s := isLenOf(g.Hi); s != nil && sameValue(s, base) {
				r.Ok(rule, construct, in.Pos(), "index < len(base)")
				return
			}
			if k, isC := constInt(g.Hi); isC {
				if n, why := knownLen(base); n >= 0 && k <= n {
					r.Ok(rule, construct, in.Pos(), fmt.Sprintf("index < %d within %s", k, why))
					return
				}
			}
		}
		// (c2) the same, with values compared by their canonical description (go/ssa
		// does not share `i+1` between the loop test and the index expression)
		for _, g := range CmpGuards(in.Block()) {
			if !g.Strict || Desc(stripConv(g.Lo)) != Desc(stripConv(idx)) {
				continue
			}
			if s := isLenOf(g.Hi); s != nil {
				if Desc(s) == Desc(base) {
					r.Ok(rule, construct, in.Pos(), "index < len(base)")
					return
				}
				// base = make([]T, len(S)) indexed under idx < len(S)
				if mk, isMk := stripConv(base).(*ssa.MakeSlice); isMk {
					if ls := isLenOf(mk.Len); ls != nil && Desc(ls) == Desc(s) {
						r.Ok(rule, construct, in.Pos(), "index < len(S) into make([]T, len(S))")
						return
					}
				}
			}
		}
		// (c3) len(base) == K established, constant position within K
		if k, isC := constInt(idx); isC {
			for _, f := range Facts(in.Block()) {
				for _, form := range []string{"+(const:%d == len(" + Desc(base) + "))", "+(len(" + Desc(base) + ") == const:%d)"} {
					var n int64
					if _, err := fmt.Sscanf(f, form, &n); err == nil && (k < n || (kind == "slice" && k <= n)) {
						r.Ok(rule, construct, in.Pos(), fmt.Sprintf("constant %d within the checked length %d", k, n))
						return
					}
				}
			}
		}
		// (c4) counting down from len(base)-1 while idx >= 0
		if phi, isPhi := stripConv(idx).(*ssa.Phi); isPhi && len(phi.Edges) == 2 {
			okStart, okStep := false, false
			for _, e := range phi.Edges {
				c, ts := AffineTerms(e)
				if c == -1 && len(ts) == 1 && ts[0].K == 1 {
					if l := isLenOf(ts[0].V); l != nil && Desc(l) == Desc(base) {
						okStart = true
					}
					if ts[0].V == ssa.Value(phi) {
						okStep = true
					}
				}
			}
			if okStart && okStep && HasFact(Facts(in.Block()), `^\+\(const:0 <= phi\{`) {
				r.Ok(rule, construct, in.Pos(), "index counts down from len(base)-1 and is >= 0")
				return
			}
		}
		// (c5) a slice made with the length of another one and indexed in step with it:
		// xs = make([]T, len(S)) (possibly kept in a field) … for i := range S { xs[i] … } or
		// for i := range xs { … S[i] … }
		{
			madeWithLenOf := func(v ssa.Value) string { // "" or Desc(S) when v is (a field holding) make([]T, len(S))
				v = stripConv(v)
				if mk, ok := v.(*ssa.MakeSlice); ok {
					if ls := isLenOf(mk.Len); ls != nil {
						return Desc(ls)
					}
					return ""
				}
				if u, ok := v.(*ssa.UnOp); ok {
					addr := Desc(u.X)
					found, n := "", 0
					EachInstr(fn, func(i2 ssa.Instruction) {
						if st, isSt := i2.(*ssa.Store); isSt && Desc(st.Addr) == addr {
							n++
							if mk, isMk := stripConv(st.Val).(*ssa.MakeSlice); isMk {
								if ls := isLenOf(mk.Len); ls != nil {
									found = Desc(ls)
								}
							}
						}
					})
					if n == 1 {
						return found
					}
				}
				return ""
			}
			for _, g := range CmpGuards(in.Block()) {
				if !g.Strict || Desc(stripConv(g.Lo)) != Desc(stripConv(idx)) {
					continue
				}
				s := isLenOf(g.Hi)
				if s == nil {
					continue
				}
				if m := madeWithLenOf(base); m != "" && m == Desc(s) {
					r.Ok(rule, construct, in.Pos(), "index < len(S) into a slice made with len(S)")
					return
				}
				if m := madeWithLenOf(s); m != "" && m == Desc(base) {
					r.Ok(rule, construct, in.Pos(), "index < len(xs) where xs was made with len(base)")
					return
				}
			}
		}
		// (d) last element: len(base) − 1 under a non-empty guard
		if c, ts := AffineTerms(idx); c == -1 && len(ts) == 1 && ts[0].K == 1 {
			if s := isLenOf(ts[0].V); s != nil && sameValue(s, base) {
				nonEmpty := false
				for _, g := range Guards(in.Block()) {
					bo, ok := g.Cond.(*ssa.BinOp)
					if !ok {
						continue
					}
					for _, side := range [][2]ssa.Value{{bo.X, bo.Y}, {bo.Y, bo.X}} {
						if l := isLenOf(side[0]); l != nil && sameValue(l, base) {
							if k, isC := constInt(side[1]); isC && k == 0 {
								eqZero := bo.Op == token.EQL
								neZero := bo.Op == token.NEQ || bo.Op == token.GTR || bo.Op == token.LSS
								if (eqZero && !g.Pol) || (neZero && g.Pol) {
									nonEmpty = true
								}
							}
						}
					}
				}
				if nonEmpty {
					r.Ok(rule, construct, in.Pos(), "last element under a non-empty guard")
				} else {
					r.Fail(rule, construct, in.Pos(), "last-element access on a slice that is empty for the value zero (big.Int.Bytes() of 0 is empty): index −1 panics", []string{"len(x) != 0 guard"}, nil)
				}
				return
			}
		}
		r.Fail(rule, construct, in.Pos(), "index not shown to be in range", nil, nil)
	})
}
