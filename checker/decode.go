package main

import (
	"fmt"
	"go/token"
	"go/types"
	"sort"
	"strings"

	"golang.org/x/tools/go/ssa"
)

// isPbStruct: t (or *t) is a struct declared in a generated protobuf package.
func isPbStruct(t types.Type) bool {
	n := namedOf(t)
	if n == nil || n.Obj().Pkg() == nil {
		return false
	}
	p := n.Obj().Pkg().Path()
	if !(strings.HasSuffix(p, "/gen/pb") || strings.HasSuffix(p, "/pb")) {
		return false
	}
	_, ok := n.Underlying().(*types.Struct)
	return ok
}

// DecoderScope: every method `Unmarshal([]byte) error` of a repository type
// outside generated packages, plus the repository helpers they call
// (transitively, static calls, bounded depth).
func DecoderScope(w *World) (roots, all []*ssa.Function) {
	seen := map[*ssa.Function]bool{}
	var visit func(f *ssa.Function, d int)
	visit = func(f *ssa.Function, d int) {
		if f == nil || f.Blocks == nil || seen[f] || d == 0 {
			return
		}
		if f.Pkg == nil || !strings.HasPrefix(f.Pkg.Pkg.Path(), modPath) || strings.Contains(f.Pkg.Pkg.Path(), "/gen/") {
			return
		}
		seen[f] = true
		all = append(all, f)
		EachInstr(f, func(in ssa.Instruction) {
			if c, ok := in.(ssa.CallInstruction); ok {
				if callee := staticCallee(c); callee != nil {
					visit(callee, d-1)
				}
			}
		})
		for _, a := range f.AnonFuncs {
			visit(a, d)
		}
	}
	for _, f := range w.AllFuncs {
		if f.Name() != "Unmarshal" || f.Signature.Recv() == nil || f.Parent() != nil || f.Synthetic != "" {
			continue
		}
		if f.Pkg == nil || strings.Contains(f.Pkg.Pkg.Path(), "/gen/") || strings.Contains(f.Pkg.Pkg.Path(), "/internal/test") {
			continue
		}
		sig := f.Signature
		if sig.Params().Len() != 1 || sig.Results().Len() != 1 {
			continue
		}
		if s, ok := sig.Params().At(0).Type().Underlying().(*types.Slice); !ok || !types.Identical(s.Elem(), types.Typ[types.Byte]) {
			continue
		}
		roots = append(roots, f)
	}
	sort.Slice(roots, func(i, j int) bool { return FnName(roots[i]) < FnName(roots[j]) })
	for _, f := range roots {
		visit(f, 4)
	}
	return roots, all
}

// nonNilGuarded: some dominating branch establishes that a value with the same
// description as v is not nil.
func nonNilGuarded(b *ssa.BasicBlock, v ssa.Value) bool {
	d := Desc(v)
	for _, g := range Guards(b) {
		bo, ok := g.Cond.(*ssa.BinOp)
		if !ok || (bo.Op != token.EQL && bo.Op != token.NEQ) {
			continue
		}
		var other ssa.Value
		switch {
		case isNilConst(bo.Y):
			other = bo.X
		case isNilConst(bo.X):
			other = bo.Y
		default:
			continue
		}
		nonNil := (bo.Op == token.NEQ && g.Pol) || (bo.Op == token.EQL && !g.Pol)
		if nonNil && (other == v || Desc(other) == d) {
			return true
		}
	}
	return false
}

// decodedParam is installed by a rule to decide whether a helper's parameter
// receives decoded data at some call site (one interprocedural level).
var decodedParam func(p *ssa.Parameter) bool

// decodedFrom: v is computed from a field of a protobuf message struct.
func decodedFrom(v ssa.Value) bool {
	found := false
	seen := map[ssa.Value]bool{}
	var walk func(v ssa.Value, d int)
	walk = func(v ssa.Value, d int) {
		if v == nil || d == 0 || seen[v] || found {
			return
		}
		seen[v] = true
		switch x := v.(type) {
		case *ssa.Parameter:
			if decodedParam != nil && decodedParam(x) {
				found = true
			}
			return
		case *ssa.FieldAddr:
			if isPbStruct(x.X.Type()) {
				found = true
				return
			}
		case *ssa.Field:
			if isPbStruct(x.X.Type()) {
				found = true
				return
			}
		case *ssa.Call:
			// generated getter
			if f := staticCallee(x); f != nil && f.Signature.Recv() != nil && isPbStruct(f.Signature.Recv().Type()) {
				found = true
				return
			}
		}
		if in, ok := v.(ssa.Instruction); ok {
			for _, op := range in.Operands(nil) {
				if *op != nil {
					walk(*op, d-1)
				}
			}
		}
	}
	walk(v, 10)
	return found
}

func intSize(t types.Type) (bits int, ok bool) {
	b, isB := t.Underlying().(*types.Basic)
	if !isB || b.Info()&types.IsInteger == 0 {
		return 0, false
	}
	switch b.Kind() {
	case types.Int8, types.Uint8:
		return 8, true
	case types.Int16, types.Uint16:
		return 16, true
	case types.Int32, types.Uint32:
		return 32, true
	case types.Int64, types.Uint64, types.Int, types.Uint, types.Uintptr:
		return 64, true
	}
	return 0, false
}

// upperBounded: a dominating comparison bounds (a value described like) v from
// above by a constant, directly or through an error-returning validator whose
// nil result implies such a bound on its argument.
func upperBounded(b *ssa.BasicBlock, v ssa.Value) (bool, string) {
	d := Desc(stripConv(v))
	gs := Guards(b)
	for _, g := range cmpOf(gs) {
		if Desc(stripConv(g.Lo)) == d {
			if _, isC := stripConv(g.Hi).(*ssa.Const); isC {
				return true, "compared with a constant bound"
			}
			if a := Affine(g.Hi); a.isConst() {
				return true, "compared with a constant bound"
			}
		}
	}
	for _, g := range gs {
		bo, ok := g.Cond.(*ssa.BinOp)
		if !ok || (bo.Op != token.EQL && bo.Op != token.NEQ) {
			continue
		}
		var res ssa.Value
		switch {
		case isNilConst(bo.Y):
			res = bo.X
		case isNilConst(bo.X):
			res = bo.Y
		default:
			continue
		}
		isNil := (bo.Op == token.EQL && g.Pol) || (bo.Op == token.NEQ && !g.Pol)
		if !isNil {
			continue
		}
		var call *ssa.Call
		idx := 0
		switch r := res.(type) {
		case *ssa.Call:
			call = r
		case *ssa.Extract:
			call, _ = r.Tuple.(*ssa.Call)
			idx = r.Index
		}
		if call == nil {
			continue
		}
		fn := staticCallee(call)
		if fn == nil || fn.Blocks == nil {
			continue
		}
		for ai, a := range call.Call.Args {
			if Desc(stripConv(a)) != d {
				continue
			}
			for _, f := range SummaryNilErr(fn, idx) {
				if m := re(`^\+\(P(\d+) <=? const:\d+\)$`).FindStringSubmatch(f); m != nil && m[1] == itoa(ai) {
					return true, "validated by " + FnName(fn)
				}
			}
		}
	}
	return false, ""
}

func itoa(i int) string {
	if i == 0 {
		return "0"
	}
	s := ""
	for i > 0 {
		s = string(rune('0'+i%10)) + s
		i /= 10
	}
	return s
}

// rangeChecked: the decoded value v, about to be converted to the integer type
// `target`, is confined to target's range by dominating comparisons with
// constants (or by a validator whose nil result implies the bound): an upper
// bound not above target's maximum and — when the source is signed and can be
// below target's minimum — a lower bound not below target's minimum.
func rangeChecked(b *ssa.BasicBlock, v ssa.Value, target types.Type) (bool, string) {
	tb, _ := target.Underlying().(*types.Basic)
	sb, _ := v.Type().Underlying().(*types.Basic)
	if tb == nil || sb == nil {
		return false, "not an integer conversion"
	}
	bits, _ := intSize(target)
	tUnsigned := tb.Info()&types.IsUnsigned != 0
	sUnsigned := sb.Info()&types.IsUnsigned != 0
	var tmin, tmax int64
	if tUnsigned {
		tmin = 0
		if bits >= 63 {
			tmax = 1<<62 + (1<<62 - 1)
		} else {
			tmax = 1<<uint(bits) - 1
		}
	} else {
		tmin, tmax = -(1 << uint(bits-1)), 1<<uint(bits-1)-1
	}
	d := Desc(stripConv(v))
	gs := Guards(b)
	upper, lower := false, sUnsigned
	var upWhy string
	constOf := func(x ssa.Value) (int64, bool) {
		if k, ok := constInt(x); ok {
			return k, true
		}
		if a := Affine(x); a.isConst() {
			return a.C, true
		}
		return 0, false
	}
	for _, g := range cmpOf(gs) {
		if Desc(stripConv(g.Lo)) == d {
			if k, ok := constOf(g.Hi); ok {
				if g.Strict {
					k--
				}
				if k <= tmax {
					upper, upWhy = true, "compared with a constant bound within the target range"
				} else if upWhy == "" {
					upWhy = fmt.Sprintf("the dominating upper bound %d exceeds the target maximum %d", k, tmax)
				}
			}
		}
		if Desc(stripConv(g.Hi)) == d {
			if k, ok := constOf(g.Lo); ok {
				if g.Strict {
					k++
				}
				if k >= tmin {
					lower = true
				}
			}
		}
	}
	if !upper {
		// validator route (as in upperBounded), with the magnitude checked
		for _, g := range gs {
			bo, ok := g.Cond.(*ssa.BinOp)
			if !ok || (bo.Op != token.EQL && bo.Op != token.NEQ) {
				continue
			}
			var res ssa.Value
			switch {
			case isNilConst(bo.Y):
				res = bo.X
			case isNilConst(bo.X):
				res = bo.Y
			default:
				continue
			}
			if isNil := (bo.Op == token.EQL && g.Pol) || (bo.Op == token.NEQ && !g.Pol); !isNil {
				continue
			}
			var call *ssa.Call
			idx := 0
			switch r := res.(type) {
			case *ssa.Call:
				call = r
			case *ssa.Extract:
				call, _ = r.Tuple.(*ssa.Call)
				idx = r.Index
			}
			if call == nil {
				continue
			}
			fn := staticCallee(call)
			if fn == nil || fn.Blocks == nil {
				continue
			}
			for ai, a := range call.Call.Args {
				if Desc(stripConv(a)) != d {
					continue
				}
				for _, f := range SummaryNilErr(fn, idx) {
					if m := re(`^\+\(P(\d+) (<=?) const:(\d+)\)$`).FindStringSubmatch(f); m != nil && m[1] == itoa(ai) {
						k := atoi64(m[3])
						if m[2] == "<" {
							k--
						}
						if k <= tmax {
							upper, upWhy = true, "validated by "+FnName(fn)
							// a validator over an unsigned or big value also excludes negatives when it takes the same value
						}
					}
				}
			}
		}
	}
	if upper && lower {
		return true, upWhy
	}
	if upper && !lower {
		return false, fmt.Sprintf("upper bound checked, but the signed source can be below the target minimum %d and no lower bound dominates", tmin)
	}
	if upWhy == "" {
		upWhy = "no dominating upper bound"
	}
	return false, upWhy
}
