package main

import (
	"fmt"
	"go/types"
	"strings"

	"golang.org/x/tools/go/ssa"
)

// concreteOf: the named struct type behind a state value built as &T{…}
// (possibly converted to an interface).
func concreteOf(v ssa.Value) *types.Named {
	for i := 0; i < 6; i++ {
		switch x := v.(type) {
		case *ssa.MakeInterface:
			v = x.X
		case *ssa.ChangeInterface:
			v = x.X
		case *ssa.Alloc:
			return namedOf(x.Type())
		default:
			return namedOf(v.Type())
		}
	}
	return nil
}

func methodOf(w *World, t *types.Named, name string) *ssa.Function {
	ms := w.Prog.MethodSets.MethodSet(types.NewPointer(t))
	for i := 0; i < ms.Len(); i++ {
		if ms.At(i).Obj().Name() == name {
			return w.Prog.MethodValue(ms.At(i))
		}
	}
	return nil
}

type syncStateInfo struct {
	Type          *types.Named
	Delay, Active int64
	Next          *ssa.Function
}

// syncChain follows Next() from the initial state type, evaluating each
// state's constant DelayBlocks()/ActiveBlocks().
func syncChain(r *Run, rule string, t0 *types.Named) ([]syncStateInfo, bool) {
	var out []syncStateInfo
	seen := map[*types.Named]bool{}
	t := t0
	for t != nil && !seen[t] {
		seen[t] = true
		info := syncStateInfo{Type: t}
		for _, m := range []string{"DelayBlocks", "ActiveBlocks"} {
			fn := methodOf(r.W, t, m)
			if fn == nil || fn.Blocks == nil {
				r.Undecided(rule, typeName(t)+"."+m, "method not found")
				return out, false
			}
			c, ok := constResult(fn, 6)
			if !ok {
				r.Undecided(rule, typeName(t)+"."+m, "does not return a compile-time constant")
				return out, false
			}
			if m == "DelayBlocks" {
				info.Delay = c.C
			} else {
				info.Active = c.C
			}
		}
		info.Next = methodOf(r.W, t, "Next")
		out = append(out, info)
		if info.Next == nil || info.Next.Blocks == nil {
			r.Undecided(rule, typeName(t)+".Next", "method not found")
			return out, false
		}
		var next *types.Named
		final := false
		for _, b := range info.Next.Blocks {
			ret, ok := b.Instrs[len(b.Instrs)-1].(*ssa.Return)
			if !ok || len(ret.Results) != 2 {
				continue
			}
			v := RetResults(ret)[0]
			if isNilConst(v) {
				if isNilConst(RetResults(ret)[1]) {
					final = true
				}
				continue // error exit
			}
			n := concreteOf(v)
			if n == nil {
				continue
			}
			if next != nil && next != n {
				r.Undecided(rule, typeName(t)+".Next", "more than one successor state type")
				return out, false
			}
			next = n
		}
		if next == nil && !final {
			r.Undecided(rule, typeName(t)+".Next", "no successor state and not final")
			return out, false
		}
		t = next
	}
	return out, true
}

func init() {
	const sp = "pkg/protocol/state"
	register(&Prop{
		ID:        "C14",
		Technique: "static analysis: constant evaluation of every state's DelayBlocks/ActiveBlocks along the Next() chain, affine forms of the waited block heights, dominator/ordering facts in the machine loop (go/ssa, go/types method sets)",
		Explanation: "Block-synchronised machine: (1) stateTransition waits for lastEnd + DelayBlocks(), then (and only after that wait succeeded) calls Initiate, then arms the waiter at lastEnd + DelayBlocks() + ActiveBlocks() and returns that waiter; Execute starts the first transition at the start block after waiting for it, feeds each later transition the block delivered by the previous waiter, calls Next() only in the waiter branch and Receive only on the current state, and installs a fresh receive context per state; " +
			"(2) for every NewSyncMachine construction site the chain of states reachable through Next() has compile-time constant Delay/Active values whose sum equals the protocol's declared duration (gjkr.ProtocolBlocks, result.PrePublicationBlocks), so every member started at block s ends at s + that constant; " +
			"(3) where a state carries its own start height into the next state, the stored value is own start + own Delay + own Active; the result publication starts at the block GJKR ended.",
		NotDecided: "behaviour under real block timing (a waiter that fires late); messages buffered while a state initiates; the silent states' work finishing within zero blocks.",
		Fn: func(r *Run) {
			r.Rule("C14.transition", "wait(lastEnd+Delay) → Initiate → waiter(lastEnd+Delay+Active)", 5)
			r.Rule("C14.loop", "Next only on the waiter branch; Receive on the current state; transitions chained by the waiter's block", 5)
			r.Rule("C14.duration", "Σ(Delay+Active) along Next() = declared protocol duration", 2)
			r.Rule("C14.start-height", "next state's start height = own start + own Delay + own Active", 2)

			if st := r.MustFn("C14.transition", sp, "stateTransition"); st != nil {
				delay := "invoke:pkg/protocol/state.SyncState.DelayBlocks(P2)"
				active := "invoke:pkg/protocol/state.SyncState.ActiveBlocks(P2)"
				ws := Sites(st, `^invoke:pkg/chain\.BlockCounter\.WaitForBlockHeight$`, false)
				bw := Sites(st, `^invoke:pkg/chain\.BlockCounter\.BlockHeightWaiter$`, false)
				ini := Sites(st, `^invoke:pkg/protocol/state\.SyncState\.Initiate$`, false)
				if len(ws) != 1 || len(bw) != 1 || len(ini) != 1 {
					r.Undecided("C14.transition", FnName(st), "expected one delay wait, one Initiate and one waiter")
				} else {
					a := Affine(ws[0].Common().Args[0]).String()
					r.Cond(a == "1*P3 + 1*"+delay+" + 0", "C14.transition", FnName(st)+"#delay-wait", ws[0].Pos(), "initiation waits for lastStateEnd + DelayBlocks(); got "+a)
					b := Affine(bw[0].Common().Args[0]).String()
					r.Cond(b == "1*P3 + 1*"+active+" + 1*"+delay+" + 0", "C14.transition", FnName(st)+"#end-waiter", bw[0].Pos(), "state ends at lastStateEnd + DelayBlocks() + ActiveBlocks(); got "+b)
					r.Check("C14.transition", FnName(st)+"#initiate-after-delay", ini[0].Pos(), Facts(ini[0].Block()), okOf(`pkg/chain\.BlockCounter\.WaitForBlockHeight`))
					r.Cond(InstrBefore(ini[0].(ssa.Instruction), bw[0].(ssa.Instruction)), "C14.transition", FnName(st)+"#waiter-after-initiate", bw[0].Pos(), "the end waiter is armed after Initiate returned")
					r.Check("C14.transition", FnName(st)+"#waiter-after-initiate-ok", bw[0].Pos(), Facts(bw[0].Block()), okOf(`pkg/protocol/state\.SyncState\.Initiate`))
					for _, p := range SuccessReturns(st) {
						r.Cond(RetResults(p.Ret)[0] == valueOfExtract(bw[0], 0, st), "C14.transition", FnName(st)+"#returns-waiter", p.Ret.Pos(), "returns the end waiter it armed")
					}
				}
			}
			if ex := r.MustFn("C14.loop", sp, "SyncMachine.Execute"); ex != nil {
				trs := Sites(ex, `^pkg/protocol/state\.stateTransition$`, false)
				r.Cond(len(trs) == 2, "C14.loop", FnName(ex)+"#transitions", ex.Pos(), "one initial and one in-loop transition")
				for _, t := range trs {
					a := t.Common().Args
					last := Desc(a[3])
					switch {
					case last == "P1":
						r.Check("C14.loop", FnName(ex)+"#first-transition", t.Pos(), Facts(t.Block()), okOf(`pkg/chain\.BlockCounter\.WaitForBlockHeight`))
						r.Cond(Desc(a[2]) == "P0.initialState", "C14.loop", FnName(ex)+"#first-state", t.Pos(), "execution starts in the machine's initial state")
					case strings.HasPrefix(last, "select#") || strings.Contains(last, "recv("):
						r.Ok("C14.loop", FnName(ex)+"#chained-transition", t.Pos(), "next transition starts from the block delivered by the previous state's waiter")
					default:
						r.Fail("C14.loop", FnName(ex)+"#chained-transition", t.Pos(), "transition must start from the start block or from the previous waiter's block; got "+abbr(last, 1), nil, nil)
					}
				}
				// Next only in the waiter branch; Receive only in the message branch
				var sel *ssa.Select
				EachInstr(ex, func(in ssa.Instruction) {
					if s, ok := in.(*ssa.Select); ok {
						sel = s
					}
				})
				if sel == nil || len(sel.States) != 2 {
					r.Undecided("C14.loop", FnName(ex)+"#select", "expected a two-way select (message, waiter)")
				} else {
					waiterIdx, msgIdx := -1, -1
					for i, s := range sel.States {
						if strings.Contains(typeName(s.Chan.Type()), "uint64") {
							waiterIdx = i
						} else {
							msgIdx = i
						}
					}
					for _, c := range Sites(ex, `^invoke:pkg/protocol/state\.SyncState\.Next$`, false) {
						r.Check("C14.loop", FnName(ex)+"#Next-on-waiter", c.Pos(), Facts(c.Block()), fmt.Sprintf(`^\+\(const:%d == select#0\)$`, waiterIdx))
					}
					for _, c := range Sites(ex, `^invoke:pkg/protocol/state\.SyncState\.Receive$`, false) {
						r.Check("C14.loop", FnName(ex)+"#Receive-on-message", c.Pos(), Facts(c.Block()), fmt.Sprintf(`^\+\(const:%d == select#0\)$`, msgIdx))
						// receiver and the state handed to stateTransition / Next are the same loop variable
						recv := c.Common().Value
						same := false
						for _, n := range Sites(ex, `^invoke:pkg/protocol/state\.SyncState\.Next$`, false) {
							if n.Common().Value == recv {
								same = true
							}
						}
						r.Cond(same, "C14.loop", FnName(ex)+"#Receive-current-state", c.Pos(), "messages are handed to the state that is current (the same value Next() is later called on)")
					}
				}
				// the receive handler hands every message over (blocking send, no drop)
				nH := 0
				for _, cl := range ex.AnonFuncs {
					sends := chanSends(cl)
					if len(sends) == 0 {
						continue
					}
					nH++
					_, isSend := sends[0].In.(*ssa.Send)
					r.Cond(len(sends) == 1 && isSend && len(Facts(sends[0].In.Block())) == 0 && Desc(sends[0].Val) == "P0", "C14.loop", FnName(cl)+"#blocking-send", cl.Pos(), "the receive handler forwards every message with an unconditional blocking send: messages arriving while a state is current reach that state")
				}
				if nH != 1 {
					r.Undecided("C14.loop", FnName(ex)+"#handler", "receive handler not found")
				}
				// final result
				for _, p := range SuccessReturns(ex) {
					d := Desc(RetResults(p.Ret)[1])
					r.Cond(strings.HasPrefix(d, "select#") || strings.Contains(d, "recv("), "C14.loop", FnName(ex)+"#end-block", p.Ret.Pos(), "the reported end block is the block delivered by the last waiter; got "+abbr(d, 1))
				}
			}

			// duration per construction site
			declared := map[string][2]string{
				"pkg/beacon/gjkr":       {"pkg/beacon/gjkr", "ProtocolBlocks"},
				"pkg/beacon/dkg/result": {"pkg/beacon/dkg/result", "PrePublicationBlocks"},
			}
			nSites := 0
			for _, fn := range r.W.AllFuncs {
				for _, c := range CallsMatching(fn, `^pkg/protocol/state\.NewSyncMachine$`) {
					nSites++
					t0 := concreteOf(c.Common().Args[3])
					if t0 == nil {
						r.Undecided("C14.duration", FnName(fn), "initial state type not resolved")
						continue
					}
					chain, ok := syncChain(r, "C14.duration", t0)
					if !ok {
						continue
					}
					var sum int64
					var parts []string
					for _, s := range chain {
						sum += s.Delay + s.Active
						parts = append(parts, fmt.Sprintf("%s:%d+%d", s.Type.Obj().Name(), s.Delay, s.Active))
					}
					rel := fnPkgRel(fn)
					d, has := declared[rel]
					if !has {
						r.Fail("C14.duration", FnName(fn)+"#chain", c.Pos(), "a block-synchronised machine without a declared protocol duration in the rule table", nil, nil)
						continue
					}
					df := r.W.Fn(d[0], d[1])
					if df == nil {
						r.Undecided("C14.duration", d[0]+"."+d[1], "declared duration function not found")
						continue
					}
					dc, okc := constResult(df, 6)
					r.Cond(okc && dc.C == sum, "C14.duration", FnName(fn)+"#"+d[1], c.Pos(),
						fmt.Sprintf("%d states, Σ(Delay+Active) = %d, %s() = %v [%s]", len(chain), sum, d[1], dc.C, strings.Join(parts, " ")))
					// start-height propagation inside this chain
					for _, s := range chain {
						EachInstr(s.Next, func(in ssa.Instruction) {
							st, ok := in.(*ssa.Store)
							if !ok {
								return
							}
							fa, ok := st.Addr.(*ssa.FieldAddr)
							if !ok {
								return
							}
							f := fieldName(fa.X.Type().Underlying().(*types.Pointer).Elem(), fa.Field)
							if !strings.HasSuffix(f, "StartBlockHeight") {
								return
							}
							cst, ts := AffineTerms(st.Val)
							// calls to own DelayBlocks/ActiveBlocks are constants of this state
							var own ssa.Value
							var rest []AffTerm
							for _, t := range ts {
								if call, isCall := t.V.(*ssa.Call); isCall {
									if cf := staticCallee(call); cf != nil {
										if cc, okc := constResult(cf, 4); okc {
											cst += t.K * cc.C
											continue
										}
									}
								}
								rest = append(rest, t)
							}
							okForm := len(rest) == 1 && rest[0].K == 1 && re(`^P0\.\w*StartBlockHeight$`).MatchString(Desc(rest[0].V))
							if okForm {
								own = rest[0].V
							}
							_ = own
							r.Cond(okForm && cst == s.Delay+s.Active, "C14.start-height", typeName(s.Type)+".Next#"+f, in.Pos(),
								fmt.Sprintf("next start = own start + %d (own Delay+Active = %d)", cst, s.Delay+s.Active))
						})
					}
				}
			}
			if nSites < 2 {
				r.Undecided("C14.duration", "NewSyncMachine", fmt.Sprintf("expected at least 2 construction sites, found %d", nSites))
			}
			// publication starts where GJKR ended
			if fn := r.MustFn("C14.start-height", "pkg/beacon/dkg", "ExecuteDKG"); fn != nil {
				for _, c := range Sites(fn, `^pkg/beacon/dkg/result\.Publish$`, false) {
					ok := false
					for _, a := range c.Common().Args {
						if re(`^call:pkg/beacon/gjkr\.Execute\(.*\)#1$`).MatchString(Desc(a)) {
							ok = true
						}
					}
					r.Cond(ok, "C14.start-height", FnName(fn)+"#Publish", c.Pos(), "result publication starts at the block GJKR ended")
				}
			}
		},
	})
	witness(Witness{Prop: "C14", Name: "protocol-blocks-misses-a-state", File: "pkg/beacon/gjkr/states.go",
		Old: "\t\tkeyRevealStateDelayBlocks +\n\t\tkeyRevealStateActiveBlocks +\n", New: "\t\tkeyRevealStateActiveBlocks +\n", Rule: "C14.duration"})
	witness(Witness{Prop: "C14", Name: "waiter-ignores-delay", File: "pkg/protocol/state/sync_machine.go",
		Old: "\t\tinitiateDelay + currentState.ActiveBlocks(),", New: "\t\tlastStateEndBlockHeight + currentState.ActiveBlocks(),", Rule: "C14.transition"})
	witness(Witness{Prop: "C14", Name: "start-height-without-delay", File: "pkg/beacon/dkg/result/states.go",
		Old: "\t\tverificationStartBlockHeight: rss.signingStartBlockHeight +\n\t\t\trss.DelayBlocks() +\n\t\t\trss.ActiveBlocks(),", New: "\t\tverificationStartBlockHeight: rss.signingStartBlockHeight +\n\t\t\trss.ActiveBlocks(),",
		Rule: "C14.start-height"})
}
