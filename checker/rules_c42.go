package main

import "golang.org/x/tools/go/ssa"

func init() {
	const ch = `pkg/sortition\.Chain\.`
	register(&Prop{
		ID:        "C42",
		Technique: "static analysis: exhaustive dominator guard facts over the loop-free status-check functions (go/ssa) + who-may-call",
		Explanation: "checkOperatorStatus and checkRewardsEligibility are loop-free; for every call site of the three state-changing chain requests the dominating branch facts are computed over all CFG paths: " +
			"JoinSortitionPool only under ¬inPool ∧ ¬upToDate ∧ ¬locked ∧ ShouldJoin; UpdateOperatorStatus only under inPool ∧ ¬upToDate ∧ ¬locked; RestoreRewardEligibility only under inPool ∧ ¬eligible ∧ canRestore; " +
			"each on an error-free prefix of the queries it depends on; no other repository function invokes these three requests through the sortition.Chain interface; " +
			"BetaOperatorPolicy.ShouldJoin can return true only on error-free answers (chaosnet inactive, or beta operator).",
		NotDecided: "that the chain answers are fresh at the time the request is mined; the periodic monitoring loop's timing.",
		Fn: func(r *Run) {
			r.Exhaustive = true
			fn := r.MustFn("C42.join", "pkg/sortition", "checkOperatorStatus")
			rw := r.MustFn("C42.restore", "pkg/sortition", "checkRewardsEligibility")
			r.Rule("C42.join", "JoinSortitionPool ⇐ ¬inPool ∧ ¬upToDate ∧ ¬locked ∧ ShouldJoin, queries error-free", 1)
			r.Rule("C42.update", "UpdateOperatorStatus ⇐ inPool ∧ ¬upToDate ∧ ¬locked, queries error-free", 1)
			r.Rule("C42.restore", "RestoreRewardEligibility ⇐ ¬eligible ∧ canRestore (error-free), and checkRewardsEligibility is called only under inPool", 2)
			r.Rule("C42.only-door", "the three requests are invoked through sortition.Chain only from the two status-check functions", 3)
			r.Rule("C42.policy", "BetaOperatorPolicy.ShouldJoin returns true only on error-free answers", 2)
			errFree := []string{okOf(ch + "IsOperatorInPool"), okOf(ch + "IsOperatorUpToDate"), okOf(ch + "IsPoolLocked")}
			r.CheckCalls("C42.join", fn, `^invoke:`+ch+`JoinSortitionPool$`, 1, append([]string{
				falseOf(ch + "IsOperatorInPool"), falseOf(ch + "IsOperatorUpToDate"), falseOf(ch + "IsPoolLocked"),
				trueOf(`pkg/sortition\.JoinPolicy\.ShouldJoin`)}, errFree...)...)
			r.CheckCalls("C42.update", fn, `^invoke:`+ch+`UpdateOperatorStatus$`, 1, append([]string{
				trueOf(ch + "IsOperatorInPool"), falseOf(ch + "IsOperatorUpToDate"), falseOf(ch + "IsPoolLocked")}, errFree...)...)
			r.CheckCalls("C42.restore", rw, `^invoke:`+ch+`RestoreRewardEligibility$`, 1,
				falseOf(ch+"IsEligibleForRewards"), trueOf(ch+"CanRestoreRewardEligibility"),
				okOf(ch+"IsEligibleForRewards"), okOf(ch+"CanRestoreRewardEligibility"))
			r.CheckCalls("C42.restore", fn, `^pkg/sortition\.checkRewardsEligibility$`, 1,
				trueOf(ch+"IsOperatorInPool"), okOf(ch+"IsOperatorInPool"), okOf(ch+"IsOperatorUpToDate"))
			r.OnlyCalledFrom("C42.only-door", `^invoke:`+ch+`(JoinSortitionPool|UpdateOperatorStatus|RestoreRewardEligibility)$`, 3,
				"pkg/sortition.checkOperatorStatus", "pkg/sortition.checkRewardsEligibility")
			if bp := r.MustFn("C42.policy", "pkg/sortition", "BetaOperatorPolicy.ShouldJoin"); bp != nil {
				paths := ReturnPaths(bp, 0, func(v ssa.Value) bool {
					cb, isc := constBool(v)
					return !isc || cb
				})
				for _, p := range paths {
					need := []string{okOf(ch + "IsChaosnetActive")}
					if _, isc := constBool(p.Val); !isc {
						need = append(need, okOf(ch+"IsBetaOperator"), trueOf(ch+"IsChaosnetActive"))
						if !re(`^invoke:`+ch+`IsBetaOperator\(.*\)#0$`).MatchString(Desc(p.Val)) {
							r.Fail("C42.policy", FnName(bp)+"#return", p.Ret.Pos(), "non-constant result must be the IsBetaOperator answer, got "+Desc(p.Val), nil, nil)
							continue
						}
					} else {
						need = append(need, falseOf(ch+"IsChaosnetActive"))
					}
					r.Check("C42.policy", FnName(bp)+"#return", p.Ret.Pos(), p.Facts, need...)
				}
			}
		},
	})
}
