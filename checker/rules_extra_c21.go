package main

import (
	"regexp"
	"strings"

	"golang.org/x/tools/go/ssa"
)

// Added after round-2 seeds C21-4 and C21-5.
func init() {
	extend("C21", func(r *Run) {
		const fw = "pkg/firewall"
		r.Rule("C21.own-caches", "each policy instance gets its own fresh positive and negative caches (it reuses only answers it obtained itself)", 2)
		r.Rule("C21.allowlist-key", "the allowlist is keyed, at insertion and at lookup, by one rendering of the WHOLE public key", 2)
		if fn := r.MustFn("C21.own-caches", fw, "AnyApplicationPolicy"); fn != nil {
			m, pos := complitFields(fn, "pkg/firewall.anyApplicationPolicy")
			seen := map[ssa.Value]bool{}
			for _, f := range []string{"positiveResultCache", "negativeResultCache"} {
				v := m[f]
				c, isCall := v.(*ssa.Call)
				ok := isCall && strings.HasSuffix(CalleeName(c), "pkg/cache.NewTimeCache") && c.Parent() == fn && !seen[v]
				seen[v] = true
				r.Cond(ok, "C21.own-caches", FnName(fn)+"#"+f, pos, "the field receives a NewTimeCache created in this constructor call; got "+descOr(v))
			}
			for _, f := range []string{"positiveResultCache", "negativeResultCache"} {
				for _, a := range r.W.FieldAccesses(fw, "anyApplicationPolicy", f) {
					if a.Write && a.Kind == "store" && a.Fn != fn {
						r.Fail("C21.own-caches", FnName(a.Fn)+"#set:"+f, a.Instr.Pos(), "the cache field is replaced outside the constructor", nil, nil)
					}
				}
			}
		}
		whole := regexp.MustCompile(`^call:pkg/operator\.PublicKey\.String\(([^().]+|P\d+\[[^\]]*\])\)$`)
		keyOf := func(fn *ssa.Function) (string, ssa.Instruction) {
			var k string
			var at ssa.Instruction
			EachInstr(fn, func(in ssa.Instruction) {
				switch x := in.(type) {
				case *ssa.MapUpdate:
					k, at = Desc(x.Key), in
				case *ssa.Lookup:
					if strings.HasSuffix(Desc(x.X), "allowedPublicKeys") {
						k, at = Desc(x.Index), in
					}
				}
			})
			return k, at
		}
		for _, n := range []string{"NewAllowList", "AllowList.Contains"} {
			fn := r.MustFn("C21.allowlist-key", fw, n)
			if fn == nil {
				continue
			}
			k, at := keyOf(fn)
			if at == nil {
				r.Undecided("C21.allowlist-key", FnName(fn), "map access not found")
				continue
			}
			r.Cond(whole.MatchString(k), "C21.allowlist-key", FnName(fn), at.Pos(), "key = PublicKey.String() of the whole key (a single coordinate, or any other partial rendering, lets a different key match); got "+abbr(k, 2))
		}
	})
	witness(Witness{Prop: "C21", Name: "allowlist-by-x-coordinate", File: "pkg/firewall/firewall.go",
		Old: "\treturn al.allowedPublicKeys[operatorPublicKey.String()]", New: "\treturn al.allowedPublicKeys[operatorPublicKey.X.Text(16)]", Rule: "C21.allowlist-key"})
}
