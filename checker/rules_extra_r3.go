package main

import (
	"fmt"
	"regexp"
	"strings"

	"golang.org/x/tools/go/ssa"
)

// Rules added after round-3 seeds C01-8, C01-9, C02-8, C02-9, C26-7, C27-7.

// onlyFactsLike: every dominating fact of the block matches one of the allowed
// patterns (the guard set is exactly what the property allows, nothing more).
func onlyFactsLike(b *ssa.BasicBlock, allowed ...*regexp.Regexp) []string {
	var extra []string
	for _, f := range Facts(b) {
		ok := false
		for _, rx := range allowed {
			if rx.MatchString(f) {
				ok = true
			}
		}
		if !ok {
			extra = append(extra, f)
		}
	}
	return extra
}

func init() {
	const gj = "pkg/beacon/gjkr"
	extend("C01", func(r *Run) {
		r.Rule("C01.first-message-wins", "of several messages by one sender the first is the one that is judged (and the one the evidence log keeps)", 1)
		r.Rule("C01.no-extra-drop", "a message that passed admission is kept: nothing else (a count, a cap) decides whether it is stored", 7)
		if pkg := r.W.Pkg(gj); pkg != nil {
			// deduplicateBySender (generic): analyse any instantiation
			n := 0
			var insts []*ssa.Function
			seenInst := map[*ssa.Function]bool{}
			for _, caller := range r.W.AllFuncs {
				if caller.Pkg != pkg {
					continue
				}
				EachInstr(caller, func(in ssa.Instruction) {
					if c, ok := in.(ssa.CallInstruction); ok {
						if callee := staticCallee(c); callee != nil && strings.HasPrefix(callee.Name(), "deduplicateBySender[") && !seenInst[callee] {
							seenInst[callee] = true
							insts = append(insts, callee)
						}
					}
				})
			}
			for _, fn := range insts {
				n++
				ok := false
				for _, ap := range appendsIn(fn) {
					e := appendedElem(ap)
					if e == nil || !strings.HasPrefix(Desc(e), "P0[") {
						continue
					}
					// appended under "sender not seen yet", and marked as seen in the same block
					marked := false
					for _, in := range ap.Block().Instrs {
						if mu, isMU := in.(*ssa.MapUpdate); isMU && strings.Contains(Desc(mu.Key), "SenderID(") {
							marked = HasFact(Facts(ap.Block()), `^-`+q(Desc(mu.Map))+`\[.*SenderID\(.*\)\]#1$`)
						}
					}
					if marked {
						ok = true
					}
				}
				// no later overwrite: the result is the accumulation itself
				for _, b := range fn.Blocks {
					if ret, isRet := b.Instrs[len(b.Instrs)-1].(*ssa.Return); isRet {
						if _, isPhi := ret.Results[0].(*ssa.Phi); !isPhi && isAppend(ret.Results[0]) == nil {
							ok = false
						}
					}
				}
				if n == 1 {
					r.Cond(ok, "C01.first-message-wins", gj+".deduplicateBySender", fn.Pos(), "the list item is appended exactly when its sender was not seen before, and the appended list is what is returned")
				}
			}
			if n == 0 {
				r.Undecided("C01.first-message-wins", gj+".deduplicateBySender", "no instantiation found")
			}
		}
		// Receive methods of the gjkr states
		allowed := []*regexp.Regexp{
			regexp.MustCompile(`shouldAcceptMessage\(`),
			regexp.MustCompile(`^[+-]assert:.*#1$`), // payload type assertions (a state may take two message types)
			regexp.MustCompile(`[Ss]essionID`),
			regexp.MustCompile(`^\+\(.* == nil\)$|^-\(.* == nil\)$`),
		}
		nRecv := 0
		for _, fn := range r.W.AllFuncs {
			if fn.Pkg == nil || !strings.HasSuffix(fn.Pkg.Pkg.Path(), gj) || fn.Name() != "Receive" {
				continue
			}
			for _, ap := range appendsIn(fn) {
				e := appendedElem(ap)
				if e == nil {
					continue
				}
				nRecv++
				extra := onlyFactsLike(ap.Block(), allowed...)
				r.Cond(len(extra) == 0, "C01.no-extra-drop", FnName(fn)+"#store", ap.Pos(), "stored under the admission conditions only; additional condition(s): "+strings.Join(abbrAll(extra, 2), ", "))
			}
		}
		if nRecv == 0 {
			r.Undecided("C01.no-extra-drop", gj, "no message store in a Receive method found")
		}
	})
	extend("C02", func(r *Run) {
		r.Rule("C02.recover-valid-only", "a revealed share enters the reconstruction only if it is consistent with the commitments", 1)
		r.Rule("C02.all-qual-points", "group public key shares use the points of every qualified member that delivered valid points (no live-status filter)", 1)
		if fn := r.MustFn("C02.recover-valid-only", gj, "ReconstructingMember.recoverMisbehavedShares"); fn != nil {
			n := 0
			for _, f := range allClosures(fn) {
				for _, c := range Sites(f, `^dyn$|recoverMisbehavedShares\$\d+$`, false) {
					cl := closureOf(c.Common().Value)
					if cl == nil || !strings.Contains(FnName(cl), "recoverMisbehavedShares$") {
						continue
					}
					// the call of the local addShare closure
					n++
					r.Check("C02.recover-valid-only", FnName(f)+"#addShare", c.Pos(), Facts(c.Block()),
						`^\+call:pkg/beacon/gjkr\.CommittingMember\.areSharesValidAgainstCommitments\(`)
				}
			}
			if n == 0 {
				r.Undecided("C02.recover-valid-only", FnName(fn), "call of the share-collecting closure not found")
			}
		}
		if fn := r.MustFn("C02.all-qual-points", gj, "CombiningMember.ComputeGroupPublicKeyShares"); fn != nil {
			allowed := []*regexp.Regexp{
				rangeFact,
				regexp.MustCompile(`^\+next\(range\([^\[]*\)\)#0$`),
				regexp.MustCompile(`^-\(.* == .*memberCore\.ID\)$|^-\(.*memberCore\.ID == .*\)$`),
				regexp.MustCompile(`^\+.*receivedValidPeerPublicKeySharePoints\[.*\]#1$`),
			}
			n := 0
			for _, f := range allClosures(fn) {
				for _, c := range Sites(f, `publicKeyShare$`, false) {
					a := c.Common().Args
					if !strings.Contains(Desc(a[len(a)-1]), "receivedValidPeerPublicKeySharePoints[") {
						continue
					}
					n++
					extra := onlyFactsLike(c.Block(), allowed...)
					r.Cond(len(extra) == 0, "C02.all-qual-points", FnName(f)+"#peer-points", c.Pos(), "a qualified member's points are used whenever they were received valid; additional condition(s): "+strings.Join(abbrAll(extra, 2), ", "))
				}
			}
			if n == 0 {
				r.Undecided("C02.all-qual-points", FnName(fn), "use of the received public key share points not found")
			}
		}
	})
	extend("C26", func(r *Run) {
		r.Rule("C26.deposit-match", "a proposed deposit is matched to its reveal event by transaction hash AND output index", 1)
		fn := r.MustFn("C26.deposit-match", "pkg/tbtc", "ValidateDepositSweepProposal")
		if fn == nil {
			return
		}
		// the block where the matching event is chosen: facts must hold both equalities
		n := 0
		for _, b := range fn.Blocks {
			fs := Facts(b)
			hasHash, hasIdx := false, false
			for _, f := range fs {
				if strings.HasPrefix(f, "+(") && strings.Contains(f, ".FundingTxHash == ") {
					hasHash = true
				}
				if strings.HasPrefix(f, "+(") && strings.Contains(f, ".FundingOutputIndex == ") {
					hasIdx = true
				}
			}
			if hasHash && !hasIdx {
				// a block reached on hash equality alone must be the second comparison itself
				if ifi, isIf := b.Instrs[len(b.Instrs)-1].(*ssa.If); isIf && strings.Contains(Desc(ifi.Cond), ".FundingOutputIndex == ") && len(b.Instrs) <= 8 {
					continue
				}
				n++
			}
		}
		seenBoth := false
		for _, b := range fn.Blocks {
			h, i := false, false
			for _, f := range Facts(b) {
				if strings.HasPrefix(f, "+(") && strings.Contains(f, ".FundingTxHash == ") {
					h = true
				}
				if strings.HasPrefix(f, "+(") && strings.Contains(f, ".FundingOutputIndex == ") {
					i = true
				}
			}
			if h && i {
				seenBoth = true
			}
		}
		r.Cond(n == 0 && seenBoth, "C26.deposit-match", FnName(fn), fn.Pos(), fmt.Sprintf("the event is taken only under both equalities (%d block(s) act on the hash alone)", n))
	})
	extend("C27", func(r *Run) {
		r.Rule("C27.fresh-script-buffer", "each non-witness input gets a signature script from its own ScriptBuilder", 1)
		fn := r.MustFn("C27.fresh-script-buffer", "pkg/bitcoin", "TransactionBuilder.AddSignatures")
		if fn == nil {
			return
		}
		cs := Sites(fn, `txscript\.NewScriptBuilder$`, false)
		ok := len(cs) >= 1
		for _, c := range cs {
			in := false
			for _, l := range Loops(fn) {
				if l.Blocks[c.Block()] {
					in = true
				}
			}
			if !in {
				ok = false
			}
		}
		for _, c := range Sites(fn, `txscript\.ScriptBuilder\.Reset$`, false) {
			_ = c
			ok = false
		}
		r.Cond(ok, "C27.fresh-script-buffer", FnName(fn), fn.Pos(), "NewScriptBuilder() is called inside the per-input loop and no builder is reset and reused (a reused builder's scripts share one buffer)")
	})
}
